#!/usr/bin/env python3
"""append an entry to known_findings.json (development-time tool; checks never write this file)
usage: kf.py fixed|known <property> <mechanism> <commit-or-> <summary>"""
import json, pathlib, sys
p = pathlib.Path(__file__).resolve().parent.parent / "known_findings.json"
d = json.load(open(p)) if p.exists() else {"findings": []}
status, prop, mech, commit, summary = sys.argv[1:6]
d["findings"] = [f for f in d["findings"] if f["mechanism"] != mech]
e = {"property": prop, "mechanism": mech, "status": status, "summary": summary}
if status == "fixed":
    e["commit"] = commit
    e["line"] = f"fixed: property={prop} {commit} {summary}"
else:
    e["line"] = f"KNOWN-FINDING: property={prop} {mech} {summary}"
d["findings"].append(e)
json.dump(d, open(p, "w"), indent=1)
