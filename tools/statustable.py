#!/usr/bin/env python3
"""Rewrite the per-property status table in DESIGN.md from monitor constants, evidence files and known_findings.json."""
import ast, json, pathlib, re
root = pathlib.Path(__file__).resolve().parent.parent
kf = json.load(open(root / "known_findings.json"))["findings"]
rows = []
for p in [json.loads(l) for l in open(root / "properties.jsonl")]:
    pid = p["id"]
    src = (root / "vmon" / "monitors" / f"{pid.lower()}.py").read_text()
    consts = {}
    for node in ast.parse(src).body:
        if isinstance(node, ast.Assign) and isinstance(node.targets[0], ast.Name):
            try: consts[node.targets[0].id] = ast.literal_eval(node.value)
            except Exception: pass
    ev = json.load(open(root / "evidence" / f"{pid}.json"))
    cov = ev["coverage"]
    fixed = sorted({f["commit"] for f in kf if f["property"] == pid and f["status"] == "fixed"})
    known = [f["mechanism"] for f in kf if f["property"] == pid and f["status"] == "known"]
    tech = consts.get("TECHNIQUE", "").replace("runtime monitoring: ", "")
    rows.append(f"| {pid} | {tech} | {cov['cases_run']} cases / {cov['evaluations']:,} decisions / {cov['distinct_nontrivial']:,} distinct non-trivial ({ev['tier']}, seed {ev['seed']}, {ev['wall_s']:.0f} s) | {len(fixed)} | {len(known)}{': ' + '; '.join('`'+k.split('/',1)[1]+'`' for k in known) if known else ''} |")
table = "| id | deciding method | last recorded run | fix commits | known findings |\n|---|---|---|---|---|\n" + "\n".join(rows)
p = root / "DESIGN.md"; s = p.read_text()
a, b = "<!-- STATUSTABLE:BEGIN -->", "<!-- STATUSTABLE:END -->"
if a not in s:
    s += f"\n\n### 7.6 Per-property status as built\n\n{a}\n{b}\n"
s = re.sub(re.escape(a) + ".*?" + re.escape(b), a + "\n" + table + "\n" + b, s, flags=re.S)
p.write_text(s); print("ok")
