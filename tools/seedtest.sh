#!/bin/sh
# usage: seedtest.sh <dir-with-patch.diff+demo.py> <check-ids...>   [env FULLSUITE=1 to also run the pinned suite]
# Evaluates a seeded change on a scratch copy of /repo/src (VERIF_SRC), leaving /repo untouched.
d=$1; shift
w=$(mktemp -d /tmp/seedt.XXXX)
cp -r /repo/src $w/src
( cd $w && patch -p1 -s < $d/patch.diff ) || { echo "PATCH DOES NOT APPLY"; rm -rf $w; exit 9; }
echo "demo on original: $(cd $d && PYTHONPATH=/repo/src /venv/bin/python demo.py >/dev/null 2>&1; echo exit=$?)"
echo "demo with change: $(cd $d && PYTHONPATH=$w/src /venv/bin/python demo.py >/dev/null 2>&1; echo exit=$?)"
if [ -n "$FULLSUITE" ]; then
  out=$(mktemp -d)
  (cd /repo && PYTHONPATH=$w/src /venv/bin/python -m pytest -q -p no:cacheprovider --timeout=900 -n ${SUITEJOBS:-10} --junitxml=$out/j.xml > $out/log 2>&1)
  echo "suite: $(tail -1 $out/log)"
  grep -E "^FAILED" $out/log | grep -v -i "url" | head -5
  rm -rf $out
fi
for c in "$@"; do
  o=$(cd /verif && VERIF_SRC=$w/src VERIF_JOBS=${MJOBS:-8} ./check $c 2>&1)
  echo "check $c: exit=$? violations=$(echo "$o" | grep -c '^VIOLATION') $(echo "$o" | grep '^VIOLATION' | sed 's/.*mechanism=//' | sort -u | head -4 | tr '\n' ' ') $(echo "$o" | grep -m1 INCONCLUSIVE | cut -c1-160)"
done
rm -rf $w
