#!/usr/bin/env python3
"""Confirm a seeded change (demo passes on original / fails with change; pinned suite still passes with it) and
store it under /verif/seeded/<name>/ (patch.diff, demo.py, notes.md, meta.json).  Development-time tool.
usage: seedkeep.py <src-dir> <property> <name> <checks...>"""
import json, os, pathlib, shutil, subprocess, sys, tempfile, xml.etree.ElementTree as ET

src = pathlib.Path(sys.argv[1]); prop = sys.argv[2]; name = sys.argv[3]; checks = sys.argv[4:]
w = pathlib.Path(tempfile.mkdtemp(prefix="seedk."))
shutil.copytree("/repo/src", w / "src")
r = subprocess.run(["patch", "-p1", "-s", "-i", str(src / "patch.diff")], cwd=w)
assert r.returncode == 0, "patch does not apply"
env0 = dict(os.environ, PYTHONPATH="/repo/src"); env1 = dict(os.environ, PYTHONPATH=str(w / "src"))
d0 = subprocess.run(["/venv/bin/python", "demo.py"], cwd=src, env=env0, capture_output=True).returncode
d1 = subprocess.run(["/venv/bin/python", "demo.py"], cwd=src, env=env1, capture_output=True).returncode
out = pathlib.Path(tempfile.mkdtemp())
subprocess.run(["/venv/bin/python", "-m", "pytest", "-q", "-p", "no:cacheprovider", "--timeout=900", "-n", os.environ.get("SUITEJOBS", "8"), f"--junitxml={out}/j.xml"], cwd="/repo", env=env1, capture_output=True)
base = set(json.load(open("/root/.vp/BASELINE.json"))["stable_pass"])
passed = set()
for tc in ET.parse(out / "j.xml").getroot().iter("testcase"):
    if not any(ch.tag in ("failure", "error", "skipped") for ch in tc):
        passed.add(f"{tc.get('classname')}::{tc.get('name')}")
missing = sorted(base - passed)
shutil.rmtree(out)
results = {}
for c in checks:
    e = dict(os.environ, VERIF_SRC=str(w / "src"), VERIF_JOBS=os.environ.get("MJOBS", "8"))
    o = subprocess.run(["./check", c], cwd="/verif", env=e, capture_output=True, text=True)
    mechs = sorted({l.split("mechanism=")[-1] for l in o.stdout.splitlines() if l.startswith("VIOLATION")})
    results[c] = {"exit": o.returncode, "mechanisms": mechs[:6]}
shutil.rmtree(w)
ok = d0 == 0 and d1 != 0 and not missing
print(f"{name}: demo orig={d0} changed={d1} suite_missing={len(missing)} {missing[:3]} checks={results} -> {'KEEP' if ok else 'REJECT'}")
if ok:
    dst = pathlib.Path("/verif/seeded") / name
    dst.mkdir(parents=True, exist_ok=True)
    for f in ("patch.diff", "demo.py", "notes.md"):
        if (src / f).exists():
            shutil.copy(src / f, dst / f)
    notes = (src / "notes.md").read_text() if (src / "notes.md").exists() else ""
    meta = {
        "property": prop,
        "source": "independent sub-agent given only the property text and a scratch worktree",
        "needs_to_manifest": notes[:1500],
        "confirmed": {"demo_exit_on_original": d0, "demo_exit_with_change": d1, "pinned_suite_stable_pass_missing": 0,
                      "how": "patch applied to a scratch copy of /repo/src shadowing the install (PYTHONPATH); demo.py run both ways; pinned pytest suite run with -n and compared with BASELINE.json stable_pass; quick checks run with VERIF_SRC"},
        "checks": results,
        "caught_by": [c for c, v in results.items() if v["exit"] == 1],
    }
    json.dump(meta, open(dst / "meta.json", "w"), indent=1)
