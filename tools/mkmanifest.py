#!/usr/bin/env python3
"""Regenerate MANIFEST.json from the monitor modules' metadata (run with /venv/bin/python or python3)."""
import ast, json, pathlib, re, sys

ROOT = pathlib.Path(__file__).resolve().parent.parent
props = [json.loads(l) for l in open(ROOT / "properties.jsonl")]
hooks_commits = json.load(open(ROOT / "tools" / "hook_commits.json")) if (ROOT / "tools" / "hook_commits.json").exists() else []


def consts(path):
    tree = ast.parse(open(path).read())
    out = {}
    for node in tree.body:
        if isinstance(node, ast.Assign) and len(node.targets) == 1 and isinstance(node.targets[0], ast.Name):
            try:
                out[node.targets[0].id] = ast.literal_eval(node.value)
            except Exception:
                pass
    return out


checks, na = [], []
for p in props:
    pid = p["id"]
    f = ROOT / "vmon" / "monitors" / f"{pid.lower()}.py"
    ready = set((ROOT / "tools" / "ready.txt").read_text().split())
    if not f.exists() or pid not in ready:
        na.append({"property_id": pid, "reason": "monitor not built yet (work in progress; see DESIGN.md section 3 for the planned oracle)"})
        continue
    c = consts(f)
    checks.append(
        {
            "property_id": pid,
            "quick_cmd": f"./check {pid} --tier quick",
            "thorough_cmd": f"./check {pid} --tier thorough",
            "evidence_file": f"/verif/evidence/{pid}.json",
            "replay_cmd_template": f"./check {pid} --replay {{path}}",
            "engine": "vmon",
            "level_claimed": {
                "category": c.get("LEVEL", "exploration"),
                "text": c.get("LEVEL_TEXT", c.get("RULE", "")),
                "design_ref": f"DESIGN.md §3 {pid}",
            },
            "level_note": c.get("LEVEL_NOTE", "; ".join(c.get("ASSUMPTIONS", []))),
            "technique": c.get("TECHNIQUE", "runtime monitoring: real code driven by seeded workloads, observations decided by an executable reference model"),
        }
    )

manifest = {
    "version": 1,
    "setup_cmd": "./tools/setup.sh",
    "hooks": {
        "guard": "COGENT3_VERIF",
        "enable": "checks export COGENT3_VERIF=1 to their worker processes; cogent3 is editable-installed from /repo/src so the working tree is used as is (no build step)",
        "baseline_off_cmd": "cd /repo && env -u COGENT3_VERIF /venv/bin/python -m pytest -ra -q -p no:cacheprovider --timeout=900 --continue-on-collection-errors",
        "source_commits": hooks_commits,
        "add_only": True,
    },
    "engines": [
        {
            "name": "vmon",
            "path": "/verif/vmon",
            "serves_properties": [c["property_id"] for c in checks],
            "kind_free_text": "runtime monitoring harness: seeded hostile workloads against the real cogent3 objects in worker subprocesses, boundary recorders + executable reference models, relational monitors, invariants at wrapped quiescent points, icontract class invariants, audit-hook / strace fault injection; verdict by mechanism against known_findings.json",
        }
    ],
    "checks": checks,
    "not_applicable": na,
    "notes": "See DESIGN.md. Exit 0 held / 1 VIOLATION / 2 INCONCLUSIVE (never expected on the unchanged tree). Known findings: known_findings.json (keyed by mechanism).",
}
json.dump(manifest, open(ROOT / "MANIFEST.json", "w"), indent=1)
print(f"{len(checks)} checks, {len(na)} not yet claimed")
