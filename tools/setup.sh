#!/bin/sh
# offline setup: icontract beside the repository's interpreter; warm nothing else
here="$(cd "$(dirname "$0")/.." && pwd)"
mkdir -p "$here/.deps" "$here/.scratch" "$here/evidence"
if [ ! -d "$here/.deps/icontract" ]; then
  PIP_NO_INDEX=1 /venv/bin/python -m pip install --quiet --no-index --find-links /opt/veriftools/wheels --target "$here/.deps" icontract || echo "warning: icontract not installed; contract monitors will be skipped"
fi
exit 0
