#!/usr/bin/env python3
"""Re-run quick checks against every stored seeded change (scratch copy via VERIF_SRC) and refresh meta.json['checks'].
usage: seedsweep.py [name-prefix...]   (development-time tool; leaves /repo untouched)"""
import json, os, pathlib, shutil, subprocess, sys, tempfile
root = pathlib.Path(__file__).resolve().parent.parent
only = sys.argv[1:]
for d in sorted((root / "seeded").iterdir()):
    if only and not any(d.name.startswith(o) for o in only):
        continue
    meta = json.load(open(d / "meta.json"))
    w = pathlib.Path(tempfile.mkdtemp(prefix="seeds."))
    shutil.copytree("/repo/src", w / "src")
    if subprocess.run(["patch", "-p1", "-s", "-i", str(d / "patch.diff")], cwd=w).returncode:
        print(d.name, "PATCH NO LONGER APPLIES"); shutil.rmtree(w); continue
    checks = sorted(set(meta.get("checks", {})) | {meta["property"]})
    res = {}
    for c in checks:
        e = dict(os.environ, VERIF_SRC=str(w / "src"), VERIF_JOBS=os.environ.get("MJOBS", "8"))
        o = subprocess.run(["./check", c], cwd=root, env=e, capture_output=True, text=True)
        mechs = sorted({l.split("mechanism=")[-1] for l in o.stdout.splitlines() if l.startswith("VIOLATION")})
        res[c] = {"exit": o.returncode, "mechanisms": mechs[:6]}
    shutil.rmtree(w)
    if "checks_when_first_stored" not in meta:
        meta["checks_when_first_stored"] = meta.get("checks", {})
    meta["checks"] = res
    meta["caught_by"] = [c for c, v in res.items() if v["exit"] == 1]
    json.dump(meta, open(d / "meta.json", "w"), indent=1)
    print(d.name, {c: v["exit"] for c, v in res.items()})
