#!/usr/bin/env python3
"""Rewrite the 'seeded changes' table in DESIGN.md (between the markers) from seeded/*/meta.json."""
import json, pathlib, re
root = pathlib.Path(__file__).resolve().parent.parent
rows = []
NOTES = json.load(open(root / "tools" / "seed_notes.json"))
for m in sorted((root / "seeded").glob("*/meta.json")):
    d = json.load(open(m))
    name = m.parent.name
    caught = ", ".join(f"{c} ({'; '.join(x.split('/',1)[1] for x in v['mechanisms'][:2])})" if v["exit"] == 1 else f"{c}: not caught" for c, v in d["checks"].items())
    note = NOTES.get(name, "caught as first submitted")
    rows.append(f"| `{name}` | {d['property']} | {caught} | {note} |")
table = "| seeded change | property | quick checks run against it (first mechanisms reported) | note |\n|---|---|---|---|\n" + "\n".join(rows)
p = root / "DESIGN.md"
s = p.read_text()
a, b = "<!-- SEEDTABLE:BEGIN -->", "<!-- SEEDTABLE:END -->"
if a not in s:
    s += f"\n\n### 7.5 Seeded changes and which checks catch them\n\n{a}\n{b}\n"
s = re.sub(re.escape(a) + ".*?" + re.escape(b), a + "\n" + table + "\n" + b, s, flags=re.S)
p.write_text(s)
print(len(rows), "rows")
