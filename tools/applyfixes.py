#!/usr/bin/env python3
"""Apply a directory of NN-name.patch / .msg fix patches to /repo, one commit each, and record them as
'fixed' entries in known_findings.json (development-time tool).  usage: applyfixes.py <dir> <PROPERTY> [only-prefixes...]"""
import json, pathlib, subprocess, sys

d = pathlib.Path(sys.argv[1]).resolve(); prop = sys.argv[2]; only = sys.argv[3:]
mech = {m["patch"].removesuffix(".patch"): m for m in json.load(open(d / "mechanisms.json"))}
kfp = pathlib.Path(__file__).resolve().parent.parent / "known_findings.json"
kf = json.load(open(kfp))
for patch in sorted(d.glob("*.patch")):
    name = patch.stem
    if only and not any(name.startswith(o) for o in only):
        continue
    msg = (d / f"{name}.msg").read_text().strip() + "\n"
    assert msg.startswith("fix: "), name
    r = subprocess.run(["git", "-C", "/repo", "apply", "--include=src/*", "--check", str(patch)], capture_output=True, text=True)
    if r.returncode:
        print("SKIP (does not apply):", name, r.stderr.strip()[:200]); continue
    subprocess.run(["git", "-C", "/repo", "apply", "--include=src/*", str(patch)], check=True)
    subprocess.run(["git", "-C", "/repo", "commit", "-qam", msg], check=True)
    sha = subprocess.run(["git", "-C", "/repo", "log", "--format=%h", "-n1"], capture_output=True, text=True).stdout.strip()
    info = mech.get(name, {"mechanisms": [], "summary": msg.splitlines()[0]})
    for m in info["mechanisms"]:
        kf["findings"] = [f for f in kf["findings"] if f["mechanism"] != m]
        kf["findings"].append({"property": prop, "mechanism": m, "status": "fixed", "commit": sha, "summary": info["summary"], "line": f"fixed: property={prop} {sha} {info['summary']}"})
    print("applied", name, sha, len(info["mechanisms"]), "mechanisms")
json.dump(kf, open(kfp, "w"), indent=1)
