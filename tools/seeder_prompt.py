#!/usr/bin/env python3
"""print the prompt for a seeding sub-agent for property <ID> (only the property text, nothing from /verif)"""
import json, sys
pid = sys.argv[1]
p = [json.loads(l) for l in open("/verif/properties.jsonl") if json.loads(l)["id"] == pid][0]
wt = f"/tmp/seed-{pid}"
print(f"""You are helping to evaluate a verification tool for the Python library cogent3. Your job: write TWO different, realistic code changes (bugs) to cogent3 that break the property below while the library still imports and its existing test suite still passes, each with a small demonstration program.

Work ONLY inside the git worktree {wt} (a checkout of the cogent3 repository; source under {wt}/src/cogent3, tests under {wt}/tests). Do NOT read, list or use anything under /verif (it is off limits: your changes must be independent of what that tool can already detect), do NOT touch /repo, do not commit anything.

PROPERTY {pid}: {p['title']}
Statement: {p['statement']}
Quantified over: {p['quantifier']['text']}
Anchored in: {', '.join(p['anchors']['files'])}

Requirements for EACH of the two changes:
* A small change (1-15 lines) to code under src/cogent3 that a real developer could plausibly make (off-by-one, wrong branch taken for a boundary case, stale cache, dropped term, swapped arguments, missing copy, wrong default, two cooperating sites that each look fine alone...). It must break the PROPERTY AS STATED (not merely change formatting or an unrelated feature).
* It must need something specific to manifest — a particular boundary input, an unusual but legal argument combination, a multi-step sequence of operations, a particular interleaving/fault point — NOT something ordinary use or the first obvious call would expose at once. Prefer subtle wrong answers over crashes.
* The two changes must be in different functions and have different manifestation conditions.
* The existing tests must still pass with the change: run the relevant test files (find them with grep under {wt}/tests) like this, making sure the worktree's source is what is imported:
    cd {wt} && PYTHONPATH={wt}/src /venv/bin/python -m pytest -q -p no:cacheprovider -x {wt}/tests/<relevant files or dirs>   # ABSOLUTE paths; run 2-4 such processes in parallel for speed, no -n
  (check once with `PYTHONPATH={wt}/src /venv/bin/python -c "import cogent3; print(cogent3.__file__)"` that it prints a path under {wt}). Run every test file that imports the module you changed (grep for the module name), not just one. If a test fails, pick a different change — do not edit tests.
* A demonstration `demo.py`: a short stand-alone program (plain cogent3 API, no test framework needed) that exits 0 on the ORIGINAL code and exits non-zero (assertion failure) WITH your change. Run it both ways to confirm: with the change applied, and after saving your diff (`git -C {wt} diff > /tmp/seed-out/{pid}-cur.diff`), reverting it with `git -C {wt} apply -R /tmp/seed-out/{pid}-cur.diff`, and re-applying it with `git -C {wt} apply /tmp/seed-out/{pid}-cur.diff` — do NOT use `git stash`, it is shared with other worktrees. Run it as `PYTHONPATH={wt}/src /venv/bin/python demo.py`.

Deliver, for change k in (1, 2), a directory /tmp/seed-out/{pid}/k/ containing:
  patch.diff   — `git -C {wt} diff` output of ONLY that change (paths relative to the repo root, so it applies with `git apply` in a clean checkout)
  demo.py      — the demonstration
  notes.md     — what the change does, exactly what it needs in order to manifest, which test files you ran (and the pass counts), and the output of demo.py with and without the change.
Produce change 1, save its files, `git -C {wt} checkout -- .` to restore the worktree, then produce change 2 the same way, and leave the worktree clean at the end. Keep CPU use modest (at most 4 pytest processes at a time). Tests needing network (urls) fail in this sandbox regardless - ignore those. Your final message: a 5-line summary per change.""")
