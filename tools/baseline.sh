#!/bin/sh
# Run the repository's pinned suite (guard OFF) in parallel and compare with BASELINE.json stable_pass.
# usage: tools/baseline.sh [extra pytest args]
out=$(mktemp -d)
cd /repo && env -u COGENT3_VERIF /venv/bin/python -m pytest -q -p no:cacheprovider --timeout=900 --continue-on-collection-errors -n 14 --junitxml=$out/j.xml "$@" > $out/log 2>&1
tail -5 $out/log
/venv/bin/python - "$out/j.xml" <<'PY'
import json, sys, xml.etree.ElementTree as ET
base = json.load(open("/root/.vp/BASELINE.json"))
stable = set(base["stable_pass"])
passed = set(); failed = set()
for tc in ET.parse(sys.argv[1]).getroot().iter("testcase"):
    tid = f"{tc.get('classname')}::{tc.get('name')}"
    bad = any(ch.tag in ("failure", "error", "skipped") for ch in tc)
    (failed if bad else passed).add(tid)
missing = sorted(stable - passed)
print(f"stable_pass={len(stable)} passed_now={len(passed)} stable_not_passing={len(missing)}")
for m in missing[:40]:
    print("  NOT PASSING:", m)
sys.exit(1 if missing else 0)
PY
rc=$?
rm -rf $out
exit $rc
