import random, sys, warnings, traceback, pathlib
warnings.filterwarnings("ignore")
from cogent3.core.annotation_db import load_annotations, GffAnnotationDb
from cogent3 import make_seq
rng=random.Random(1)
fails={}
def rec(k,*v): fails.setdefault(k,v)
out=pathlib.Path("/tmp/probe/c17g")
N=0
for it in range(200):
    recs=[]; lines=["##gff-version 3"]
    for i in range(rng.randint(1,8)):
        a=rng.randint(0,40); b=rng.randint(a+1,45)
        r=dict(seqid=rng.choice(["s1","s2"]),biotype=rng.choice(["gene","exon","CDS"]),name=f"f{i}",strand=rng.choice(["+","-"]),spans=[(a,b)])
        recs.append(r)
        lines.append("\t".join([r["seqid"],"src",r["biotype"],str(a+1),str(b),".",r["strand"],".",f"ID={r['name']}"]))
    p=out/"x.gff"; p.write_text("\n".join(lines)+"\n")
    try:
        db=load_annotations(path=p)
        got=sorted((r["seqid"],r["biotype"],r["name"],r["strand"],tuple(map(tuple,(map(int,s) for s in r["spans"])))) for r in db.get_records_matching())
        exp=sorted((r["seqid"],r["biotype"],r["name"],r["strand"],tuple(r["spans"])) for r in recs)
        N+=1
        if got!=exp: rec(("gff load",),got[:2],exp[:2])
        # via sequence with offset
        s="".join(rng.choice("ACGT") for _ in range(60))
        off=rng.choice([0,3])
        seq=make_seq(s[off:],name="s1",moltype="dna",annotation_offset=off)
        seq.annotation_db=db
        for f in seq.get_features(allow_partial=True):
            r=[x for x in recs if x["name"]==f.name][0]
            a,b=r["spans"][0]
            e=s[max(a,off):b]
            if r["strand"]=="-": e=e.translate(str.maketrans("ACGT","TGCA"))[::-1]
            if str(f.get_slice())!=e: rec(("feature slice",r["strand"],off),s,r,str(f.get_slice()),e)
    except Exception as e: rec(("exc",type(e).__name__),lines[:3],traceback.format_exc()[-300:])
print(N,len(fails))
for k,v in fails.items(): print(k,str(v)[:400])
