import random, sys, warnings, numpy as np, traceback
warnings.filterwarnings("ignore")
from cogent3 import make_tree, make_aligned_seqs, get_model, get_code
rng=random.Random(1)
fails={}
def rec(k,*v): fails.setdefault(k,v)
gc=get_code(1)
sense=[a+b+c for a in "TCAG" for b in "TCAG" for c in "TCAG" if gc[a+b+c]!="*"]
aa="ACDEFGHIKLMNPQRSTVWY"
def mklf(model,tree,aln,params,mprobs):
    lf=get_model(model).make_likelihood_function(tree); lf.set_alignment(aln)
    for p,v in params.items(): lf.set_param_rule(p,init=v)
    if mprobs is not None: lf.set_motif_probs(mprobs)
    return lf
N=0
for model,kind,ml in (("GTR","nuc",1),("HKY85","nuc",1),("MG94HKY","codon",3),("GY94","codon",3),("CNFGTR","codon",3),("JTT92","prot",1),("WG01","prot",1)):
  for rep in range(6):
    n=rng.randint(4,6); names=[f"t{i}" for i in range(n)]
    items=[f"{x}:{rng.uniform(0.05,0.8):.3f}" for x in names]; c=0
    while len(items)>3:
        sel=[items.pop(rng.randrange(len(items))) for _ in range(2)]; c+=1
        items.append(f"({','.join(sel)})n{c}:{rng.uniform(0.05,0.5):.3f}")
    tree=make_tree("("+",".join(items)+");")
    L=rng.randint(3,10)
    if kind=="nuc": data={nm:"".join(rng.choice("ACGT") for _ in range(L)) for nm in names}; mt="dna"
    elif kind=="codon": data={nm:"".join(rng.choice(sense) for _ in range(L)) for nm in names}; mt="dna"
    else: data={nm:"".join(rng.choice(aa) for _ in range(L)) for nm in names}; mt="protein"
    aln=make_aligned_seqs(data,moltype=mt)
    lf0=get_model(model).make_likelihood_function(tree); lf0.set_alignment(aln)
    params={p:rng.uniform(.3,4) for p in lf0.get_param_names() if p not in ("length","mprobs","bprobs","rate")}
    mprobs=lf0.get_motif_probs()
    base=mklf(model,tree,aln,params,mprobs).lnL
    # column permutation
    perm=list(range(L)); rng.shuffle(perm)
    d2={nm:"".join(s[i*ml:(i+1)*ml] for i in perm) for nm,s in data.items()}
    v=mklf(model,tree,make_aligned_seqs(d2,moltype=mt),params,mprobs).lnL
    if abs(v-base)>1e-9*abs(base): rec(("colperm",model),base,v)
    # row order
    nm2=names[:]; rng.shuffle(nm2)
    v=mklf(model,tree,make_aligned_seqs({k:data[k] for k in nm2},moltype=mt),params,mprobs).lnL
    if abs(v-base)>1e-9*abs(base): rec(("roworder",model),base,v)
    # duplicate columns
    d3={nm:s*2 for nm,s in data.items()}
    v=mklf(model,tree,make_aligned_seqs(d3,moltype=mt),params,mprobs).lnL
    if abs(v-2*base)>1e-9*abs(base): rec(("dup",model),2*base,v)
    # reroot
    internal=[x.name for x in tree.postorder() if not x.is_tip() and not x.is_root()]
    t2=tree.rooted_at(rng.choice(internal))
    v=mklf(model,t2,aln,params,mprobs).lnL
    if abs(v-base)>1e-8*abs(base): rec(("reroot",model),base,v,tree.get_newick(with_distances=True),t2.get_newick(with_distances=True))
    t3=tree.rooted_with_tip(rng.choice(names))
    v=mklf(model,t3,aln,params,mprobs).lnL
    if abs(v-base)>1e-8*abs(base): rec(("reroot tip",model),base,v)
    # children order
    t4=tree.sorted(sort_order=nm2)
    v=mklf(model,t4,aln,params,mprobs).lnL
    if abs(v-base)>1e-9*abs(base): rec(("childorder",model),base,v)
    N+=6
print(N,len(fails))
for k,v in fails.items(): print(k,str(v)[:400])
