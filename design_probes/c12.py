import random, sys, warnings, itertools, traceback
warnings.filterwarnings("ignore")
from cogent3 import make_seq, get_code, available_codes, make_aligned_seqs, make_unaligned_seqs
from cogent3.core import new_genetic_code, genetic_code
fails={}
def rec(k,*v): fails.setdefault(k,v)
tbl = available_codes()
ids = [int(r[0]) for r in tbl.to_list()]
print(len(ids), ids)
comp=str.maketrans("ACGT","TGCA")
rng=random.Random(1)
N=0
for cid in ids:
    old = genetic_code.get_code(cid); new = new_genetic_code.get_code(cid)
    # table: 64 chars TCAG order
    bases="TCAG"
    ref = {a+b+c: old.code_sequence[i*16+j*4+k] for i,a in enumerate(bases) for j,b in enumerate(bases) for k,c in enumerate(bases)}
    for codon,aa in ref.items():
        if old[codon]!=aa: rec(("old getitem",cid),codon)
        try:
            if new[codon]!=aa: rec(("new getitem",cid),codon,new[codon],aa)
        except Exception as e: rec(("new getitem exc",cid),repr(e))
    for it in range(30):
        L=rng.randint(0,20); s="".join(rng.choice("ACGT") for _ in range(L))
        for start in (0,1,2):
            exp="".join(ref[s[i:i+3]] for i in range(start,len(s)-2,3))
            try:
                g=old.translate(s,start)
                if g!=exp: rec(("old translate",cid,start),s,g,exp)
            except Exception as e: rec(("old translate exc",type(e).__name__),s,start,repr(e))
            try:
                g=new.translate(s,start)
                if g!=exp: rec(("new translate",cid,start),s,g,exp)
            except Exception as e: rec(("new translate exc",type(e).__name__),s,start,repr(e))
            # rc
            r=s.translate(comp)[::-1]
            expr="".join(ref[r[i:i+3]] for i in range(start,len(r)-2,3))
            try:
                g=new.translate(s,start,rc=True)
                if g!=expr: rec(("new translate rc",start, len(s)%3),s,g,expr)
            except Exception as e: rec(("new translate rc exc",type(e).__name__),s,start,repr(e)[:100])
            N+=1
        try:
            six_o=old.sixframes(s); 
            r=s.translate(comp)[::-1]
            exp6=["".join(ref[x[i:i+3]] for i in range(st,len(x)-2,3)) for x in (s,r) for st in (0,1,2)]
            if list(six_o)!=exp6: rec(("old sixframes",),s,six_o,exp6)
            six_n=new.sixframes(s)
            if list(six_n)!=exp6: rec(("new sixframes",len(s)%3),s,six_n,exp6)
        except Exception as e: rec(("sixframes exc",type(e).__name__),s,repr(e)[:100])
        # sequence-level
        if L>=3:
            s3=s[:len(s)//3*3]
            exp="".join(ref[s3[i:i+3]] for i in range(0,len(s3),3))
            for nt in (False,True):
                sq=make_seq(s3,name="x",moltype="dna",new_type=nt)
                try:
                    g=str(sq.get_translation(gc=cid,include_stop=True))
                    if g!=exp: rec(("seq translation incl stop",nt),cid,s3,g,exp)
                except Exception as e: rec(("seq translation exc",nt,type(e).__name__),cid,s3,repr(e)[:100])
                # trim_stop default
                try:
                    g=str(sq.get_translation(gc=cid))
                    e2=exp[:-1] if exp.endswith("*") else exp
                    if "*" in e2: rec(("internal stop not rejected",nt),cid,s3,g)
                    elif g!=e2: rec(("seq translation trim",nt),cid,s3,g,e2)
                except Exception as e:
                    e2=exp[:-1] if exp.endswith("*") else exp
                    if "*" not in e2: rec(("seq translation trim exc",nt,type(e).__name__),cid,s3,repr(e)[:100])
                # rc involution
                if str(sq.rc().rc())!=s3: rec(("rc involution",nt),s3)
print(N,len(fails))
for k,v in sorted(fails.items(),key=str)[:40]: print(k,v)
