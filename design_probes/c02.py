import time, warnings, numpy
warnings.filterwarnings("ignore")
t0=time.time()
from cogent3 import make_tree, make_aligned_seqs, get_model, available_models
print("import", time.time()-t0)
print(available_models())
t0=time.time()
tree = make_tree("((a:0.1,b:0.2):0.05,c:0.3,d:0.15);")
aln = make_aligned_seqs({"a":"ACGTRCGT-A","b":"ACGTACGTNA","c":"ACTTACGGCA","d":"GCTTACGGCA"}, moltype="dna")
sm = get_model("HKY85")
lf = sm.make_likelihood_function(tree)
lf.set_alignment(aln)
lf.set_param_rule("kappa", init=2.5)
lf.set_motif_probs({"A":.1,"C":.2,"G":.3,"T":.4})
print(lf.lnL, time.time()-t0)
t0=time.time()
for i in range(20):
    lf = sm.make_likelihood_function(tree); lf.set_alignment(aln); lf.lnL
print("20 lfs", time.time()-t0)
print(lf.get_rate_matrix_for_edge("a", calibrated=True))
print(lf.get_psub_for_edge("a"))
print(lf.get_full_length_likelihoods()[:3])
print(lf.get_motif_probs())
