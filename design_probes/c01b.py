import random, sys, warnings, numpy
warnings.filterwarnings("ignore")
from cogent3 import make_seq
C = {"dna": str.maketrans("ACGTRYKMSWBDHVN-?", "TGCAYRMKSWVHDBN-?"), "rna": str.maketrans("ACGURYKMSWBDHVN-?", "UGCAYRMKSWVHDBN-?")}
rng = random.Random(int(sys.argv[1]) if len(sys.argv)>1 else 0)
new_type = len(sys.argv)>2 and sys.argv[2]=="new"
fails = {}
N=0
METHODS = ["__str__","__len__","count_gaps","is_gapped","is_degenerate","is_valid","is_strict","count_degenerate","gap_indices","gap_vector","degap","strip_degenerate","strip_bad","strip_bad_and_gaps","resolved_ambiguities","counts","to_fasta","possibilities","mw","with_termini_unknown","parse_out_gaps","get_kmers2","get_in_motif_size3","to_rich_dict_seq", "complement", "to_rna","to_dna","copy","copy_unsliced","replace", "get_translation", "has_terminal_stop","trim_stop_codon", "disambiguate", "to_json_rt", "iter", "getitem_int","strand_symmetry","to_array","bytes", "shuffle_sorted","to_phylip","to_html_len", "hash", "eq_str", "contains", "frac_same", "diff","can_match","can_pair","must_pair","distance"]
def call(seq, m, rng_state):
    r = random.Random(rng_state)
    if m=="__str__": return str(seq)
    if m=="__len__": return len(seq)
    if m=="get_kmers2": return seq.get_kmers(2, strict=False)
    if m=="get_in_motif_size3": return list(map(str,seq.get_in_motif_size(3)))
    if m=="to_rich_dict_seq":
        from cogent3.util.deserialise import deserialise_object
        return str(deserialise_object(seq.to_rich_dict()))
    if m=="to_json_rt":
        from cogent3.util.deserialise import deserialise_object
        return str(deserialise_object(seq.to_json()))
    if m=="copy": return str(seq.copy())
    if m=="copy_unsliced": return str(seq.copy(sliced=False))
    if m=="replace": return str(seq.replace("A","G"))
    if m=="iter": return list(seq)
    if m=="getitem_int":
        if len(seq)==0: return None
        i = r.randrange(-len(seq), len(seq)); return str(seq[i])
    if m=="to_array": return numpy.array(seq).tolist()
    if m=="bytes": return bytes(seq)
    if m=="shuffle_sorted": return sorted(str(seq.shuffle()))
    if m=="to_html_len": return None
    if m=="hash": return hash(seq)
    if m=="eq_str": return seq == str(seq)
    if m=="contains": return "AC" in seq
    if m in ("frac_same","diff","can_match","can_pair","must_pair","distance"):
        other = "".join(r.choice("ACGT") for _ in range(len(seq)))
        return getattr(seq,m)(other)
    if m=="get_translation":
        return str(seq.get_translation(incomplete_ok=True, include_stop=True))
    if m=="parse_out_gaps":
        mp, s = seq.parse_out_gaps(); return (str(s), mp.get_gap_coordinates() if hasattr(mp,"get_gap_coordinates") else None)
    res = getattr(seq, m)()
    if hasattr(res, "to_dict"): res = res.to_dict()
    elif isinstance(res, numpy.ndarray): res = res.tolist()
    elif hasattr(res, "moltype"): res = (type(res).__name__, str(res))
    elif isinstance(res, float): res = round(res, 6)
    return res

for it in range(int(sys.argv[3]) if len(sys.argv)>3 else 3000):
    L = rng.randint(0, 14)
    mt = "dna"
    alpha = "ACGT" if rng.random()<.5 else "ACGTRYN-?"
    s = "".join(rng.choice(alpha) for _ in range(L))
    off = rng.choice([0,0,5,17])
    seq = make_seq(s, name="s1", moltype="dna", new_type=new_type, annotation_offset=off)
    model = s
    # model of coordinates: list of parent indices displayed
    idx = list(range(L)); rev=False
    chain=[]
    try:
        for d in range(rng.randint(1,4)):
            r = rng.random()
            if r < 0.8:
                def ri():
                    return rng.choice([None]+list(range(-L-3, L+4)))
                st = rng.choice([None,1,1,2,3,-1,-1,-2,-3])
                sl = slice(ri(), ri(), st)
                chain.append(("slice",sl))
                seq = seq[sl]
                m2 = model[sl]; idx = idx[sl]
                if st is not None and st<0:
                    m2 = m2.translate(C[mt]); rev = not rev
                model = m2
            else:
                chain.append(("rc",))
                seq = seq.rc(); model = model.translate(C[mt])[::-1]; idx=idx[::-1]; rev = not rev
            N+=1
            if str(seq)!=model or len(seq)!=len(model):
                fails.setdefault(("STR",tuple(c[0] for c in chain)), (s, chain, str(seq), model)); break
            # coords
            if len(model):
                sid, a, b, strand = seq.parent_coordinates()
                lo, hi = min(idx), max(idx)+1
                exp = ("s1", lo+off, hi+off, -1 if rev else 1)
                if (sid,a,b,strand)!=exp:
                    fails.setdefault(("COORD",tuple(c[0] for c in chain), abs(seq._seq.step)>1), (s, off, chain, (sid,a,b,strand), exp))
        # method parity
        fresh = make_seq(model, name="s1", moltype=mt, new_type=new_type)
        for m in METHODS:
            st = rng.random()
            try:
                a = call(seq, m, st); ea=None
            except AttributeError as e:
                continue
            except Exception as e:
                a=None; ea=type(e).__name__
            try:
                b = call(fresh, m, st); eb=None
            except Exception as e:
                b=None; eb=type(e).__name__
            if repr(a)!=repr(b) or ea!=eb:
                fails.setdefault(("METH",m, seq._seq.step<0), (s, chain, model, a,ea, b,eb))
    except Exception as e:
        import traceback
        key = ("EXC", type(e).__name__, tuple(c[0] for c in chain))
        fails.setdefault(key, (s, chain, repr(e), traceback.format_exc()[-300:]))
print(N, len(fails))
for k,v in list(fails.items())[:40]:
    print(k, v)
