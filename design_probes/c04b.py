import random, sys, warnings, traceback
warnings.filterwarnings("ignore")
from cogent3 import make_aligned_seqs
rng=random.Random(int(sys.argv[1]) if len(sys.argv)>1 else 1)
comp=str.maketrans("ACGT-","TGCA-")
fails={}
def rec(k,*v): fails.setdefault(k,v)
N=0
for it in range(1500):
    n=rng.randint(1,3); L=rng.randint(6,18)
    data={f"s{i}":"".join(rng.choice("ACGT-") if rng.random()<.8 else "-" for _ in range(L)) for i in range(n)}
    if any(set(v)=={"-"} for v in data.values()): continue
    aln=make_aligned_seqs(data,moltype="dna",array_align=False)
    # seq-level feature on s0, in ungapped coordinates
    ung=data["s0"].replace("-","")
    if len(ung)<3: continue
    a=rng.randint(0,len(ung)-2); b=rng.randint(a+1,len(ung))
    strand=rng.choice(["+","-"])
    try:
        aln.add_feature(seqid="s0",biotype="gene",name="g",spans=[(a,b)],strand=strand)
        # alignment-level feature
        x=rng.randint(0,L-2); y=rng.randint(x+1,L)
        aln.add_feature(biotype="region",name="r",spans=[(x,y)],on_alignment=True)
    except Exception as e: rec(("add exc",type(e).__name__),traceback.format_exc()[-300:]); continue
    # history
    lo,hi=0,L; rev=False; view=aln; chain=[]
    for d in range(rng.randint(0,2)):
        if rng.random()<.7:
            p=rng.randint(0,hi-lo-1); q=rng.randint(p+1,hi-lo)
            chain.append((p,q)); view=view[p:q]
            if not rev: lo,hi=lo+p,lo+q
            else: lo,hi=hi-q,hi-p
        else: chain.append("rc"); view=view.rc(); rev=not rev
    # expected seq feature: residues of s0 feature within retained columns
    # map ungapped index -> column
    cols=[i for i,c in enumerate(data["s0"]) if c!="-"]
    keepcols=[c for c in cols[a:b] if lo<=c<hi]
    exp_seq="".join(data["s0"][c] for c in keepcols)
    if strand=="-": exp_seq=exp_seq.translate(comp)[::-1]
    try:
        fs=[f for f in view.get_features(seqid="s0",allow_partial=True) if f.name=="g"]
        N+=1
        if keepcols and len(fs)!=1: rec(("seq feature membership",rev,len(chain)),data,(a,b,strand),chain,(lo,hi),len(fs))
        for f in fs:
            sl=f.get_slice()
            got=str(sl.get_gapped_seq("s0")).replace("-","") if hasattr(sl,"get_gapped_seq") else str(sl)
            if got!=exp_seq: rec(("seq feature slice",strand,rev,len(chain)),data,(a,b,strand),chain,(lo,hi),got,exp_seq)
    except Exception as e: rec(("seq feature exc",type(e).__name__,rev),data,(a,b,strand),chain,traceback.format_exc()[-300:])
    # alignment feature
    kx,ky=max(x,lo),min(y,hi)
    try:
        fa=[f for f in view.get_features(on_alignment=True,allow_partial=True) if f.name=="r"]
        if kx<ky:
            exp={nm:(s[kx:ky] if not rev else s[kx:ky].translate(comp)[::-1]) for nm,s in data.items()}
            if len(fa)!=1: rec(("aln feature membership",rev,bool(chain)),data,(x,y),chain,(lo,hi),len(fa))
            else:
                got=fa[0].get_slice().to_dict()
                if got!=exp: rec(("aln feature slice",rev,bool(chain)),data,(x,y),chain,(lo,hi),got,exp)
    except Exception as e: rec(("aln feature exc",type(e).__name__,rev,bool(chain)),data,(x,y),chain,traceback.format_exc()[-300:])
print(N,len(fails))
for k,v in sorted(fails.items(),key=str): print(k,str(v)[:700]); print()
