import random, sys, warnings, traceback, pickle, copy, json
warnings.filterwarnings("ignore")
from cogent3.core.annotation_db import BasicAnnotationDb, GffAnnotationDb, load_annotations
from cogent3.util.deserialise import deserialise_object
rng=random.Random(int(sys.argv[1]) if len(sys.argv)>1 else 1)
fails={}
def rec(k,*v): fails.setdefault(k,v)
def canon(r):
    return (r["seqid"], r["biotype"], r["name"], r.get("strand") or "+", tuple(tuple(int(x) for x in s) for s in r["spans"]))
N=0
for it in range(400):
    db=BasicAnnotationDb(); model=[]
    for i in range(rng.randint(0,12)):
        nsp=rng.choice([1,1,2,3]); cuts=sorted(rng.sample(range(0,30),2*nsp))
        spans=[(cuts[j],cuts[j+1]) for j in range(0,2*nsp,2)]
        r=dict(seqid=rng.choice(["s1","s2"]), biotype=rng.choice(["gene","exon","CDS"]), name=rng.choice(["a","b","c","ab"]), strand=rng.choice(["+","-"]), spans=spans)
        db.add_feature(**r); model.append(r)
    if len(db)!=len(model): rec(("len",),len(db),len(model))
    for q in range(15):
        kw={}
        if rng.random()<.6: kw["seqid"]=rng.choice(["s1","s2","s3"])
        if rng.random()<.4: kw["biotype"]=rng.choice(["gene","exon","CDS","x"])
        if rng.random()<.4: kw["name"]=rng.choice(["a","b","c","ab","%a%"])
        if rng.random()<.3: kw["strand"]=rng.choice(["+","-"])
        win=rng.random()
        if win<.6:
            a=rng.randint(0,30); b=rng.randint(a,31); kw["start"]=a; kw["stop"]=b
        elif win<.7: kw["start"]=rng.randint(0,30)
        elif win<.8: kw["stop"]=rng.randint(0,30)
        ap=rng.random()<.5; kw["allow_partial"]=ap
        def match(r):
            for k in ("seqid","biotype","strand"):
                if k in kw and r[k]!=kw[k]: return False
            if "name" in kw:
                if "%" in kw["name"]:
                    if kw["name"].strip("%") not in r["name"]: return False
                elif r["name"]!=kw["name"]: return False
            s=min(x for x,y in r["spans"]); e=max(y for x,y in r["spans"])
            if "start" in kw and "stop" in kw:
                S,E=kw["start"],kw["stop"]
                if ap: return s<E and e>S if S<E else None
                return s>=S and e<=E
            if "start" in kw: return s<=kw["start"]<e
            if "stop" in kw: return s<=kw["stop"]<e
            return True
        try:
            got=sorted(canon(r) for r in db.get_records_matching(**kw)); N+=1
        except Exception as e: rec(("query exc",type(e).__name__,tuple(sorted(kw))),kw,repr(e)[:150]); continue
        exp_rows=[r for r in model if match(r)]
        if any(match(r) is None for r in model): continue
        exp=sorted(canon(r) for r in exp_rows)
        if got!=exp: rec(("query mismatch",tuple(sorted(kw)),ap),kw,[x for x in got if x not in exp][:2],[x for x in exp if x not in got][:2])
        nm=db.num_matches(**{k:v for k,v in kw.items() if k not in("allow_partial",)}) if False else None
    # persistence
    for nm,f in (("pickle",lambda d: pickle.loads(pickle.dumps(d))),("deepcopy",copy.deepcopy),("richdict",lambda d: deserialise_object(d.to_rich_dict())),("json",lambda d: deserialise_object(d.to_json())),("subset_all",lambda d: d.subset()),("union_empty",lambda d: d.union(BasicAnnotationDb()))):
        try:
            d2=f(db)
            got=sorted(canon(r) for r in d2.get_records_matching()); exp=sorted(canon(r) for r in model)
            if got!=exp: rec(("persist",nm),len(got),len(exp),got[:1],exp[:1])
        except Exception as e: rec(("persist exc",nm,type(e).__name__, len(model)==0),traceback.format_exc()[-300:])
print(N,len(fails))
for k,v in sorted(fails.items(),key=str): print(k,str(v)[:500])
