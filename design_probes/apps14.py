import time, os
from cogent3.app.composable import define_app, NotCompleted
from cogent3.app.typing import SerialisableType
@define_app
class work:
    def __init__(self, delays=None, fail=None):
        self.delays = delays or {}
        self.fail = fail or {}
    def main(self, val: int) -> int:
        time.sleep(self.delays.get(val, 0))
        mode = self.fail.get(val)
        if mode == "exc": raise ValueError(f"bad {val}")
        if mode == "none": return None
        if mode == "nc": return NotCompleted("FAIL", "work", f"declined {val}", source=str(val))
        return val * 10
@define_app
class plus1:
    def main(self, val: int) -> int:
        return val + 1
