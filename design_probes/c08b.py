import random, sys, warnings, numpy, traceback
warnings.filterwarnings("ignore")
from cogent3.core.location import IndelMap, FeatureMap, Span, LostSpan
rng = random.Random(int(sys.argv[1]) if len(sys.argv)>1 else 0)
fails={}
def rec(k,*v): fails.setdefault(k,v)
def model(fm):
    out=[]
    for s in fm.spans:
        if s.lost: out += [None]*s.length
        else:
            r = list(range(s.start, s.end))
            if s.reverse: r = r[::-1]
            out += r
    return out
def intervals(S):
    S=sorted(S); out=[]
    for x in S:
        if out and out[-1][1]==x: out[-1][1]=x+1
        else: out.append([x,x+1])
    return [tuple(i) for i in out]
N=0
for it in range(20000):
    P = rng.randint(1,14)
    nsp = rng.randint(0,4)
    overlap = rng.random()<0.3
    spans=[]
    if overlap:
        for _ in range(nsp):
            a=rng.randint(0,P-1); b=rng.randint(a+1,P); spans.append(Span(a,b) if rng.random()<.8 else LostSpan(rng.randint(1,3)))
    else:
        cuts = sorted(rng.sample(range(P+1), min(P+1, 2*nsp)))
        for i in range(0,len(cuts)-1,2):
            spans.append(Span(cuts[i],cuts[i+1]))
            if rng.random()<.3: spans.append(LostSpan(rng.randint(1,3)))
        if rng.random()<.2: spans.insert(0,LostSpan(2))
    try:
        fm = FeatureMap(spans=spans, parent_length=P)
    except Exception as e:
        rec(("ctor",type(e).__name__), spans, P, repr(e)); continue
    m = model(fm); N+=1
    if len(fm)!=len(m): rec(("len",), spans)
    cov = {x for x in m if x is not None}
    if any(x<0 or x>=P for x in cov): rec(("oob",), spans)
    try:
        c = fm.covered()
        if c.get_coordinates()!=intervals(cov): rec(("covered",), spans,P,c.get_coordinates(), intervals(cov))
    except Exception as e: rec(("covered",type(e).__name__), spans,P, repr(e))
    try:
        r = fm.nucleic_reversed()
        exp = [None if x is None else P-1-x for x in reversed(m)]
        # reversed spans read forward: nucleic_reversed discards 'reverse'; feature read on other strand: positions increasing
        if model(r)!=exp:
            # acceptable alternative: each span reads forward
            rec(("nucrev",), spans,P, model(r), exp)
    except Exception as e: rec(("nucrev",type(e).__name__), spans,P, repr(e))
    nonover = len(cov)==sum(1 for x in m if x is not None)
    sorted_ = [x for x in m if x is not None]==sorted(cov)
    if nonover:
        try:
            inv = fm.inverse()
            im = model(inv)
            exp = [None]*P
            for i,x in enumerate(m):
                if x is not None: exp[x]=i
            if im!=exp: rec(("inverse", sorted_), spans,P, im, exp)
            if inv.parent_length!=len(m): rec(("inverse plen",), spans,P)
            # involution
            if sorted_ and model(inv.inverse())[:len(m)] != m and model(inv.inverse())!=m:
                rec(("inverse involution",), spans,P, model(inv.inverse()), m)
        except Exception as e: rec(("inverse",type(e).__name__, sorted_), spans,P, repr(e))
        try:
            sh = fm.shadow()
            exp = intervals(set(range(P))-cov)
            if sh.get_coordinates()!=exp: rec(("shadow",sorted_), spans,P, sh.get_coordinates(), exp)
        except Exception as e: rec(("shadow",type(e).__name__, sorted_), spans,P, repr(e))
    # composition: slice
    if len(m):
        a = rng.randint(0,len(m)); b = rng.randint(a,len(m))
        try:
            sub = fm[a:b]
            if model(sub)!=m[a:b]: rec(("getitem slice",), spans,P,(a,b), model(sub), m[a:b])
        except Exception as e: rec(("getitem slice",type(e).__name__), spans,P,(a,b), repr(e))
        # composition with a map
        k = rng.randint(1,3); cuts = sorted(rng.sample(range(len(m)+1), min(len(m)+1,2*k)))
        sp2 = [Span(cuts[i],cuts[i+1]) for i in range(0,len(cuts)-1,2)]
        if sp2:
            f2 = FeatureMap(spans=sp2, parent_length=len(m))
            try:
                comp = fm[f2]
                exp = [m[i] for i in model(f2)]
                if model(comp)!=exp: rec(("compose",), spans,P,sp2, model(comp), exp)
            except Exception as e: rec(("compose",type(e).__name__), spans,P,sp2, repr(e))
    # gaps / without_gaps / scale
    try:
        if model(fm.without_gaps())!=[x for x in m if x is not None]: rec(("without_gaps",), spans)
        g = fm.gaps(); 
        if g.get_coordinates()!=intervals({i for i,x in enumerate(m) if x is None}): rec(("gaps",), spans, g.get_coordinates())
        sc = fm*3
        exp = []
        for x in m: exp += [None]*3 if x is None else [3*x,3*x+1,3*x+2]
        if model(sc)!=exp: rec(("mul",), spans)
    except Exception as e: rec(("misc",type(e).__name__), spans,P, repr(e))
print(N, len(fails))
for k,v in sorted(fails.items(), key=str): print(k, v)
