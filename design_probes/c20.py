import random, sys, warnings, itertools, traceback, pathlib, string, math
warnings.filterwarnings("ignore")
from cogent3 import make_table, load_table
rng=random.Random(int(sys.argv[1]) if len(sys.argv)>1 else 1)
fails={}
def rec(k,*v): fails.setdefault(k,v)
out=pathlib.Path("/tmp/probe/c20")
def rstr():
    return "".join(rng.choice(string.ascii_letters+" ,\t\"'") for _ in range(rng.randint(0,6)))
N=0
for it in range(int(sys.argv[2]) if len(sys.argv)>2 else 300):
    ncol=rng.randint(1,4); nrow=rng.randint(0,6)
    header=[f"c{i}" for i in range(ncol)]
    types=[rng.choice(["int","float","str","bool","hstr"]) for _ in range(ncol)]
    def cell(t):
        if t=="int": return rng.randint(-5,5)
        if t=="float": return rng.choice([0.5,1.25,-3.75,1e-5,2.0,100.125])
        if t=="bool": return rng.random()<.5
        if t=="hstr": return rstr()
        return rng.choice(["a","b","ab","c","A"])
    rows=[[cell(t) for t in types] for _ in range(nrow)]
    try:
        t=make_table(header=header,data=rows)
    except Exception as e: rec(("make_table",type(e).__name__),header,rows,repr(e)[:100]); continue
    if t.to_list()!=rows and nrow: rec(("to_list",tuple(types)),rows,t.to_list())
    N+=1
    # sorted
    if nrow:
        k=rng.sample(header,rng.randint(1,ncol)); rev=[c for c in k if rng.random()<.4]
        try:
            got=t.sorted(columns=k, reverse=rev or None).to_list()
            exp=rows[:]
            for c in reversed(k):
                i=header.index(c); exp=sorted(exp,key=lambda r:r[i], reverse=c in rev)
            if got!=exp: rec(("sorted", len(k)>1, bool(rev)),header,types,rows,k,rev,got,exp)
        except Exception as e: rec(("sorted exc",type(e).__name__, tuple(sorted(set(types)))),rows,k,rev,repr(e)[:100])
    # filtered
    if nrow and "int" in types:
        c=header[types.index("int")]
        try:
            got=t.filtered(lambda x: x>0, columns=c).to_list(); exp=[r for r in rows if r[header.index(c)]>0]
            if got!=exp: rec(("filtered",),rows,got,exp)
        except Exception as e: rec(("filtered exc",type(e).__name__),rows,repr(e)[:100])
    # distinct / count
    if nrow:
        c=rng.choice(header); i=header.index(c)
        try:
            dv=t.distinct_values(c)
            if set(dv)!={r[i] for r in rows}: rec(("distinct_values",types[i]),rows,dv)
        except Exception as e: rec(("distinct exc",type(e).__name__),rows,repr(e)[:100])
    # round trip
    for suffix in ("tsv","csv","tsv.gz","json","pickle"):
        p=out/f"t.{suffix}"
        try:
            t.write(p)
            g=load_table(p)
            if list(g.header)!=header: rec(("rt header",suffix),header,g.header)
            gl=g.to_list()
            def norm(v):
                return v
            if nrow and gl!=rows:
                # classify
                def txt(v): return str(v)
                same_text=[[txt(x) for x in r] for r in gl]==[[txt(x) for x in r] for r in rows]
                rec(("rt rows",suffix,same_text, "hstr" in types, "bool" in types),types,rows,gl)
            if not nrow and g.shape[0]!=0: rec(("rt empty",suffix),g.shape)
        except Exception as e: rec(("rt exc",suffix,type(e).__name__, nrow==0, "hstr" in types),types,rows,repr(e)[:150])
print(N,len(fails))
for k,v in sorted(fails.items(),key=str)[:40]: print(k,str(v)[:500]); print()
