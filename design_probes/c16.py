import random, sys, warnings, numpy as np, traceback, time
warnings.filterwarnings("ignore")
from cogent3 import make_tree, make_aligned_seqs, get_model
from cogent3.recalculation.calculation import Calculator
rng=random.Random(int(sys.argv[1]) if len(sys.argv)>1 else 1)
trace=[]
orig=Calculator.change
def hooked(self,changes):
    r=orig(self,changes); trace.append(float(r)); return r
Calculator.change=hooked
fails={}
def rec(k,*v): fails.setdefault(k,v)
tree=make_tree("((a:0.1,b:0.2)ab:0.05,c:0.3,(d:0.15,e:0.4)de:0.2);")
pairs=[("JC69","F81"),("F81","HKY85"),("HKY85","TN93"),("HKY85","GTR"),("GTR","GN"),("K80","HKY85"),("JC69","GTR"),("F81","GN"),("HKY85","GN"),("MG94HKY","MG94GTR"),("CNFHKY","CNFGTR")]
t0=time.time()
for null_name,alt_name in pairs:
  for rep in range(2):
    codon = null_name.startswith(("MG","CNF"))
    L=60 if not codon else 60
    base="".join(rng.choice("ACGT") for _ in range(L))
    data={}
    for n in "abcde":
        data[n]="".join(c if rng.random()>.15 else rng.choice("ACGT") for c in base)
    aln=make_aligned_seqs(data,moltype="dna")
    if codon:
        aln=aln.no_degenerates(motif_length=3)
        from cogent3 import get_code
        # remove stop codons
        aln=aln.trim_stop_codons() if False else aln
    try:
        null=get_model(null_name).make_likelihood_function(tree); null.set_alignment(aln)
        trace.clear(); before=null.lnL
        null.optimise(local=True, max_evaluations=rng.choice([5,30,100]), limit_action="ignore", show_progress=False)
        after=null.lnL
        if after<before-1e-9: rec(("optimise decreased",null_name),before,after)
        if trace and abs(after-max(trace))>1e-9*abs(after): rec(("final != best of trace",null_name),after,max(trace),trace[-1])
        lastbest = trace and trace[-1]==max(trace)
        alt=get_model(alt_name).make_likelihood_function(tree); alt.set_alignment(aln)
        alt.initialise_from_nested(null)
        if abs(alt.lnL-null.lnL)>1e-8*abs(null.lnL): rec(("nested init",null_name,alt_name),null.lnL,alt.lnL)
        trace.clear(); b=alt.lnL
        alt.optimise(local=True, max_evaluations=rng.choice([5,30]), limit_action="ignore", show_progress=False)
        if alt.lnL<b-1e-9: rec(("alt optimise decreased",alt_name),b,alt.lnL)
        if alt.lnL<null.lnL-1e-6: rec(("negative LR",null_name,alt_name),null.lnL,alt.lnL)
        # bounds
        print(null_name,alt_name, round(before,3),round(after,3),round(alt.lnL,3),"last==best",lastbest, len(trace))
    except Exception as e: rec(("exc",null_name,alt_name,type(e).__name__),traceback.format_exc()[-400:])
print("time",time.time()-t0, len(fails))
for k,v in fails.items(): print(k,str(v)[:600])
