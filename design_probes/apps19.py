import os, time
from cogent3.app.composable import define_app
from cogent3.app.typing import UnalignedSeqsType
@define_app
class tag:
    def __init__(self, kill_at=None, counter_file=None):
        self.kill_at = kill_at; self.counter_file = counter_file
    def main(self, seqs: UnalignedSeqsType) -> UnalignedSeqsType:
        if self.counter_file:
            with open(self.counter_file, "a") as f: f.write(f"{seqs.info.source}\n")
            n = sum(1 for _ in open(self.counter_file))
            if self.kill_at is not None and n == self.kill_at: os._exit(9)
        if "bad" in str(seqs.info.source): raise ValueError("bad input")
        return seqs.rename_seqs(lambda x: x + "_t")
