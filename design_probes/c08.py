import itertools, sys, warnings, numpy, traceback, re
warnings.filterwarnings("ignore")
from cogent3 import make_seq
from cogent3.core.location import IndelMap, FeatureMap, Span, LostSpan
from collections import Counter
fails = {}; N=Counter()
def mk(g):
    m, s = make_seq(g, moltype="dna").parse_out_gaps()
    return m, str(s)
def gapped(m, s):
    # render via spans
    out=[]
    for sp in m.spans:
        out.append("-"*sp.length if sp.lost else s[sp.start:sp.end])
    return "".join(out)
def rec(k, *v): fails.setdefault(k, v)
maxL = int(sys.argv[1]) if len(sys.argv)>1 else 7
for L in range(0, maxL+1):
    for bits in itertools.product("A-", repeat=L):
        pat = "".join(bits)
        # give distinct letters to residues for unambiguous
        it = iter("ACGTACGTACGT")
        g = "".join(next(it) if c=="A" else "-" for c in pat)
        try:
            m, s = mk(g)
        except Exception as e:
            rec(("mk", type(e).__name__), g, repr(e)); continue
        N["maps"]+=1
        if len(m)!=len(g): rec(("len",), g, len(m))
        if gapped(m,s)!=g: rec(("render",), g, gapped(m,s))
        # index conversions
        seqpos=[i for i,c in enumerate(g) if c!="-"]
        for ai in range(len(g)):
            exp = sum(1 for c in g[:ai] if c!="-")
            try:
                got = m.get_seq_index(ai)
                if got!=exp: rec(("get_seq_index",), g, ai, got, exp)
            except Exception as e: rec(("get_seq_index",type(e).__name__), g, ai, repr(e))
        for si,ai in enumerate(seqpos):
            try:
                got = m.get_align_index(si)
                if got!=ai: rec(("get_align_index",), g, si, got, ai)
            except Exception as e: rec(("get_align_index",type(e).__name__), g, si, repr(e))
        # gap coords
        exp_gaps = [(mm.start(), mm.end()) for mm in re.finditer("-+", g)]
        got = [tuple(x) for x in m.get_gap_align_coordinates().tolist()]
        if got!=exp_gaps: rec(("gap_align_coords",), g, got, exp_gaps)
        # slices in range
        for a in range(0, len(g)+1):
            for b in range(a, len(g)+2):
                try:
                    sm = m[a:b]
                    N["slices"]+=1
                    sa = m.get_seq_index(a); sb = m.get_seq_index(min(b,len(g)))
                    sub = s[sa:sb]
                    r = gapped(sm, sub) if sm.parent_length==len(sub) else f"PLEN {sm.parent_length}!={len(sub)}"
                    if r != g[a:b]:
                        rec(("slice", "oob" if b>len(g) else "in"), g, (a,b), r, g[a:b], repr(sm))
                except Exception as e:
                    rec(("slice",type(e).__name__, "oob" if b>len(g) else "in"), g,(a,b), repr(e))
        # nucleic_reversed
        try:
            r = m.nucleic_reversed()
            if gapped(r, s[::-1]) != g[::-1]: rec(("nucrev",), g, gapped(r,s[::-1]))
        except Exception as e: rec(("nucrev",type(e).__name__), g, repr(e))
        # scale
        try:
            r = m*3
            if gapped(r, "".join(c*3 for c in s)) != "".join(c*3 for c in g): rec(("mul",), g)
        except Exception as e: rec(("mul",type(e).__name__), g, repr(e))
        # to_feature_map / rich dict
        try:
            r = IndelMap.from_rich_dict(m.to_rich_dict())
            if gapped(r,s)!=g: rec(("richdict",), g)
        except Exception as e: rec(("richdict",type(e).__name__), g, repr(e))
        try:
            fm = m.to_feature_map()
            if len(fm)!=len(g): rec(("to_feature_map len",), g, len(fm))
            inv = fm.inverse()
            # inverse maps alignment coords -> seq coords: length == parent_length
        except Exception as e: rec(("to_feature_map",type(e).__name__), g, repr(e))
        # from_aligned_segments
        try:
            segs = [(mm.start(), mm.end()) for mm in re.finditer("[^-]+", g)]
            r = IndelMap.from_aligned_segments(segs, len(g))
            if gapped(r,s)!=g: rec(("from_aligned_segments",), g, gapped(r,s), segs)
        except Exception as e: rec(("from_aligned_segments",type(e).__name__), g, repr(e))
        # joined_segments: pairs of disjoint intervals
        if L<=6:
            for a in range(0,len(g)+1):
              for b in range(a+1,len(g)+1):
                for c in range(b,len(g)+1):
                  for d in range(c+1,len(g)+1):
                    try:
                        r = m.joined_segments([(a,b),(c,d)])
                        N["joined"]+=1
                        sub = s[m.get_seq_index(a):m.get_seq_index(b)] + s[m.get_seq_index(c):m.get_seq_index(d)]
                        exp = g[a:b]+g[c:d]
                        rr = gapped(r, sub) if r.parent_length==len(sub) else "PLEN"
                        if rr!=exp: rec(("joined",), g,(a,b,c,d), rr, exp)
                    except Exception as e: rec(("joined",type(e).__name__), g,(a,b,c,d), repr(e))
# binary ops: add, pairs
pats=[]
for L in range(0,5):
    for bits in itertools.product("A-", repeat=L): pats.append("".join(bits))
for p1 in pats:
    for p2 in pats:
        m1,s1 = mk(p1.replace("A","C")); m2,s2 = mk(p2.replace("A","G"))
        try:
            r = m1+m2; N["add"]+=1
            if gapped(r, s1+s2)!=(p1.replace("A","C")+p2.replace("A","G")): rec(("add",), p1,p2, gapped(r,s1+s2))
        except Exception as e: rec(("add",type(e).__name__), p1,p2, repr(e))
        if len(p1)==len(p2):
            # shared gaps / minus gaps
            try:
                sg = m1.shared_gaps(m2); N["shared"]+=1
                exp = [(mm.start(),mm.end()) for mm in re.finditer("x+", "".join("x" if a=="-" and b=="-" else "." for a,b in zip(p1,p2)))]
                got=[tuple(x) for x in numpy.array(sg).reshape(-1,2).tolist()]
                if got!=exp: rec(("shared_gaps",), p1,p2,got,exp)
            except Exception as e: rec(("shared_gaps",type(e).__name__), p1,p2, repr(e))
            try:
                mg = m1.minus_gaps(m2); N["minus"]+=1
                exp = "".join(a for a,b in zip(p1.replace("A","C"),p2) if not (a=="-" and b=="-"))
                got = gapped(mg, s1)
                if got!=exp: rec(("minus_gaps",), p1,p2,got,exp)
            except Exception as e: rec(("minus_gaps",type(e).__name__), p1,p2, repr(e))
        # merge_maps: same sequence (same residue count)
        if p1.count("A")==p2.count("A"):
            try:
                mm_ = m1.merge_maps(m2); N["merge"]+=1
                # expected: at each seq position, gaps of both inserted
                def gl(p):
                    d=Counter(); pos=0
                    for c in p:
                        if c=="-": d[pos]+=1
                        else: pos+=1
                    return d
                d1,d2=gl(p1),gl(p2); n=p1.count("A")
                exp="".join("-"*(d1[i]+d2[i])+("C" if i<n else "") for i in range(n+1))
                got=gapped(mm_, s1)
                if got!=exp: rec(("merge_maps",), p1,p2,got,exp)
            except Exception as e: rec(("merge_maps",type(e).__name__), p1,p2, repr(e))
print(dict(N), len(fails))
for k,v in sorted(fails.items(), key=str): print(k, v)
