import random, sys, warnings
warnings.filterwarnings("ignore")
from cogent3 import make_seq
comp = str.maketrans("ACGTUacgtu", "TGCAAtgcaa")
def rcs(s, mt):
    c = {"dna": str.maketrans("ACGTRYKMSWBDHVN", "TGCAYRMKSWVHDBN"), "rna": str.maketrans("ACGURYKMSWBDHVN", "UGCAYRMKSWVHDBN")}[mt]
    return s.translate(c)[::-1]
rng = random.Random(int(sys.argv[1]) if len(sys.argv)>1 else 0)
fails = {}
N=0
for it in range(20000):
    L = rng.randint(0, 12)
    mt = "dna"
    s = "".join(rng.choice("ACGT") for _ in range(L))
    new_type = rng.random()<0.0
    seq = make_seq(s, name="s1", moltype="dna")
    model = s
    chain=[]
    try:
        for d in range(rng.randint(1,4)):
            r = rng.random()
            if r < 0.7:
                def ri():
                    return rng.choice([None]+list(range(-L-3, L+4)))
                st = rng.choice([None,1,1,2,3,-1,-1,-2,-3])
                sl = slice(ri(), ri(), st)
                chain.append(("slice",sl))
                seq = seq[sl]
                m2 = model[sl]
                if st is not None and st<0:
                    m2 = model[sl].translate(str.maketrans("ACGTU","TGCAA" if mt=="dna" else "UGCAA"))
                model = m2
            elif r<0.85:
                chain.append(("rc",))
                seq = seq.rc(); model = rcs(model, mt)
            else:
                if mt=="dna":
                    chain.append(("to_rna",)); seq=seq.to_rna(); model=model.replace("T","U"); mt="rna"
                else:
                    chain.append(("to_dna",)); seq=seq.to_dna(); model=model.replace("U","T"); mt="dna"
            N+=1
            if str(seq)!=model or len(seq)!=len(model):
                key = tuple(c[0] for c in chain)
                fails.setdefault(key, (s, chain, str(seq), model))
                break
    except Exception as e:
        key = ("EXC", type(e).__name__, tuple(c[0] for c in chain))
        fails.setdefault(key, (s, chain, repr(e)))
print(N, len(fails))
for k,v in list(fails.items())[:25]:
    print(k, v)
