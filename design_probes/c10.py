import random, sys, warnings, traceback, pickle, json
warnings.filterwarnings("ignore")
from cogent3 import make_seq, make_aligned_seqs, make_unaligned_seqs
from cogent3.util.deserialise import deserialise_object
rng=random.Random(1)
fails={}
def rec(k,*v): fails.setdefault(k,v)
N=0
for it in range(3000):
    L=rng.randint(1,14); s="".join(rng.choice("ACGT") for _ in range(L))
    nt=rng.random()<.5; off=rng.choice([0,0,6])
    seq=make_seq(s,name="s1",moltype="dna",new_type=nt,annotation_offset=off)
    chain=[]
    for d in range(rng.randint(0,3)):
        if rng.random()<.7:
            sl=slice(rng.choice([None]+list(range(-L,L+1))),rng.choice([None]+list(range(-L,L+1))),rng.choice([None,1,2,3,-1,-2,-3]))
            chain.append(sl); seq=seq[sl]
        else: chain.append("rc"); seq=seq.rc()
    if len(seq)==0: continue
    for ch,f in (("json",lambda o: deserialise_object(o.to_json())),("rich",lambda o: deserialise_object(o.to_rich_dict())),("pickle",lambda o: pickle.loads(pickle.dumps(o)))):
        try:
            r=f(seq); N+=1
            if str(r)!=str(seq): rec(("seq str",nt,ch,seq._seq.step),s,chain,str(seq),str(r))
            elif r.parent_coordinates()!=seq.parent_coordinates() : rec(("seq coords",nt,ch,abs(seq._seq.step)>1, seq._seq.step<0, off!=0),s,off,chain,seq.parent_coordinates(),r.parent_coordinates())
            if r.name!=seq.name: rec(("seq name",nt,ch),)
        except Exception as e: rec(("seq exc",nt,ch,type(e).__name__, off!=0),s,chain,repr(e)[:120])
# alignments after history
for it in range(600):
    n=rng.randint(1,4); L=rng.randint(2,12)
    data={f"s{i}":"".join(rng.choice("ACGT--") for _ in range(L)) for i in range(n)}
    for aa in (True,False):
        a=make_aligned_seqs(data,moltype="dna",array_align=aa)
        hist=[]
        for d in range(rng.randint(0,3)):
            op=rng.choice(["slice","rc","take"])
            if op=="slice":
                x=rng.randint(0,len(a)-1); y=rng.randint(x+1,len(a)); a=a[x:y]; hist.append((x,y))
            elif op=="rc": a=a.rc(); hist.append("rc")
            else:
                k=rng.sample(a.names, rng.randint(1,len(a.names))); a=a.take_seqs(k); hist.append(("take",k))
        for ch,f in (("json",lambda o: deserialise_object(o.to_json())),("rich",lambda o: deserialise_object(o.to_rich_dict())),("pickle",lambda o: pickle.loads(pickle.dumps(o)))):
            try:
                r=f(a); N+=1
                if r.to_dict()!=a.to_dict() or r.names!=a.names: rec(("aln",aa,ch,tuple(h if isinstance(h,str) else h[0] if isinstance(h[0],str) else "slice" for h in hist)),data,hist,a.to_dict(),r.to_dict())
                if type(r)!=type(a): rec(("aln type",aa,ch),type(r),type(a))
            except Exception as e: rec(("aln exc",aa,ch,type(e).__name__),data,hist,repr(e)[:150])
print(N,len(fails))
for k,v in sorted(fails.items(),key=str)[:30]: print(k,str(v)[:400])
