import random, sys, warnings, numpy, traceback, json, itertools
warnings.filterwarnings("ignore")
from cogent3 import make_tree
from cogent3.util.deserialise import deserialise_object
rng = random.Random(int(sys.argv[1]) if len(sys.argv)>1 else 0)
fails={}
def rec(k,*v): fails.setdefault(k,v)
def rand_newick(n, multif=0.2, rooted=True):
    nodes=[f"t{i}" for i in range(n)]
    rng.shuffle(nodes)
    items=[f"{x}:{rng.choice([0.1,0.25,0.5,1.0,2.0,0.0625])}" for x in nodes]
    cnt=[0]
    while len(items)> (2 if rooted else 3):
        k = 3 if (rng.random()<multif and len(items)>3) else 2
        sel=[items.pop(rng.randrange(len(items))) for _ in range(k)]
        cnt[0]+=1
        items.append(f"({','.join(sel)})n{cnt[0]}:{rng.choice([0.1,0.25,0.5,1.0,2.0])}")
    return "("+",".join(items)+");"
def dists(t):
    return {tuple(sorted(k)):round(float(v),9) for k,v in t.get_distances().items() if k[0]<k[1]}
def splits(t):
    tips=frozenset(t.get_tip_names()); S=set()
    for n in t.postorder():
        if n.is_root(): continue
        a=frozenset(n.get_tip_names(includeself=True))
        if 1<len(a)<len(tips)-1: S.add(frozenset([a, tips-a]))
    return S
N=0
for it in range(int(sys.argv[2]) if len(sys.argv)>2 else 1500):
    n=rng.randint(3,9)
    rooted = rng.random()<.6
    nw=rand_newick(n, rooted=rooted)
    try:
        t=make_tree(nw)
    except Exception as e: rec(("parse",type(e).__name__), nw, repr(e)); continue
    d0=dists(t); s0=splits(t); nw0=t.get_newick(with_distances=True); tips0=set(t.get_tip_names())
    ops={}
    ops["newick_rt"]=lambda: make_tree(t.get_newick(with_distances=True))
    ops["newick_rt_nodenames"]=lambda: make_tree(t.get_newick(with_distances=True, with_node_names=True))
    ops["json_rt"]=lambda: deserialise_object(t.to_json())
    ops["copy"]=lambda: t.copy()
    ops["deepcopy"]=lambda: t.deepcopy() if hasattr(t,"deepcopy") else t.copy()
    ops["unrooted"]=lambda: t.unrooted()
    ops["unrooted_deepcopy"]=lambda: t.unrooted_deepcopy()
    ops["sorted"]=lambda: t.sorted()
    ops["bifurcating"]=lambda: t.bifurcating()
    ops["root_at_midpoint"]=lambda: t.root_at_midpoint()
    tip=rng.choice(sorted(tips0))
    ops["rooted_with_tip"]=lambda: t.rooted_with_tip(tip)
    internal=[x.name for x in t.postorder() if not x.is_tip() and not x.is_root()]
    if internal:
        e=rng.choice(internal)
        ops["rooted_at"]=lambda: t.rooted_at(e)
    k=rng.randint(2,n); sub=rng.sample(sorted(tips0),k)
    for nm,f in ops.items():
        try:
            r=f()
        except Exception as ex:
            rec((nm,type(ex).__name__), nw, repr(ex)[:200]); continue
        N+=1
        if t.get_newick(with_distances=True)!=nw0 or dists(t)!=d0:
            rec((nm,"MUTATES_ORIGINAL"), nw, t.get_newick(with_distances=True)); t=make_tree(nw)
        if set(r.get_tip_names())!=tips0: rec((nm,"tips"), nw, r.get_newick()); continue
        d1=dists(r)
        if d1!=d0:
            bad={k:(d0[k],d1[k]) for k in d0 if abs(d0[k]-d1[k])>1e-9}
            if bad: rec((nm,"distances", rooted), nw, r.get_newick(with_distances=True), list(bad.items())[:3])
        if splits(r)!=s0: rec((nm,"splits"), nw, r.get_newick())
    # subtree
    try:
        r=t.get_sub_tree(sub)
        if set(r.get_tip_names())!=set(sub): rec(("subtree","tips"), nw, sub, r.get_newick())
        else:
            d1=dists(r)
            bad={k:(d0[k],d1[k]) for k in d1 if abs(d0[k]-d1[k])>1e-9}
            if bad: rec(("subtree","distances", len(sub)), nw, sub, r.get_newick(with_distances=True), list(bad.items())[:3])
        if t.get_newick(with_distances=True)!=nw0: rec(("subtree","MUTATES"), nw)
    except Exception as ex: rec(("subtree",type(ex).__name__, len(sub)), nw, sub, repr(ex)[:200])
    # tree distances
    nw2=rand_newick(n, rooted=rooted).replace("t","t")
    t2=make_tree(nw2)
    if set(t2.get_tip_names())==tips0:
        for method in ("rooted_robinson_foulds","unrooted_robinson_foulds","matching_cluster","lin_rajan_moret", None):
            try:
                a=t.tree_distance(t2, method=method); b=t2.tree_distance(t, method=method); z=t.tree_distance(t.copy(), method=method)
                if a!=b: rec(("treedist","asym",method), nw, nw2, a,b)
                if z!=0: rec(("treedist","self nonzero",method), nw, z)
                if method=="unrooted_robinson_foulds":
                    exp=len(splits(t)^splits(t2))
                    if a!=exp: rec(("treedist","urf != splitset"), nw,nw2,a,exp)
                    if (a==0)!=(splits(t)==splits(t2)): rec(("treedist","zero iff"), nw,nw2)
            except Exception as ex: rec(("treedist",type(ex).__name__,method, rooted), nw, nw2, repr(ex)[:150])
print(N,len(fails))
for k,v in sorted(fails.items(), key=str): print(k,v); print()
