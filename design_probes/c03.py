import random, sys, warnings, numpy, traceback
warnings.filterwarnings("ignore")
from cogent3 import make_aligned_seqs
C = {"dna": str.maketrans("ACGTRYKMSWBDHVN-?", "TGCAYRMKSWVHDBN-?"), "rna": str.maketrans("ACGURYKMSWBDHVN-?", "UGCAYRMKSWVHDBN-?")}
rng = random.Random(int(sys.argv[1]) if len(sys.argv)>1 else 0)
fails = {}
N=0
def todict(a):
    return {n: str(a.get_gapped_seq(n)) for n in a.names}
for it in range(int(sys.argv[2]) if len(sys.argv)>2 else 1500):
    nseq = rng.randint(1,4); L = rng.randint(1,12)
    alpha = rng.choice(["ACGT-","ACGT---","ACGTRYN-?","ACGT"])
    data = {f"s{i}": "".join(rng.choice(alpha) for _ in range(L)) for i in range(nseq)}
    mt="dna"
    alns = {"arr": make_aligned_seqs(data, moltype="dna", array_align=True), "ann": make_aligned_seqs(data, moltype="dna", array_align=False)}
    model = dict(data)
    chain=[]
    dead=False
    for d in range(rng.randint(1,5)):
        if dead: break
        names = list(model); Lc = len(next(iter(model.values())))
        op = rng.choice(["slice","slice","rc","take_positions","take_seqs","omit_gap_pos","no_degenerates","degap_rel","to_type","to_rna_dna","add","filtered","int_index", "take_positions_neg", "step_slice", "sample_all", "deepcopy"])
        args=None
        try:
            if op=="slice":
                a,b = sorted([rng.randint(-Lc-2,Lc+2), rng.randint(-Lc-2,Lc+2)]) if rng.random()<.5 else (rng.randint(0,Lc), rng.randint(0,Lc))
                a = rng.choice([a,None]) if rng.random()<.2 else a
                b = rng.choice([b,None]) if rng.random()<.2 else b
                args=(a,b)
                f = lambda x: x[a:b]; mf = lambda s: s[a:b]
            elif op=="step_slice":
                st = rng.choice([2,3]); a=rng.randint(0,Lc); args=(a,st)
                f = lambda x: x[a::st]; mf = lambda s: s[a::st]
            elif op=="int_index":
                if Lc==0: continue
                i = rng.randrange(0,Lc); args=i
                f = lambda x: x[i]; mf = lambda s: s[i]
            elif op=="rc":
                f = lambda x: x.rc(); mf = lambda s: s.translate(C[mt])[::-1]
            elif op in("take_positions","take_positions_neg"):
                if Lc==0: continue
                cols = [rng.randrange(Lc) for _ in range(rng.randint(1,Lc))]
                if rng.random()<.5: cols = sorted(set(cols))
                neg = op.endswith("neg"); args=(cols,neg)
                f = lambda x: x.take_positions(cols, negate=neg)
                if neg: mf = lambda s: "".join(c for i,c in enumerate(s) if i not in cols)
                else: mf = lambda s: "".join(s[i] for i in cols)
            elif op=="take_seqs":
                k = rng.randint(1,len(names)); sel = rng.sample(names,k); args=sel
                f = lambda x: x.take_seqs(sel); mf=None
            elif op=="omit_gap_pos":
                frac = rng.choice([0,0.3,0.5,None]); args=frac
                f = (lambda x: x.omit_gap_pos()) if frac is None else (lambda x: x.omit_gap_pos(allowed_gap_frac=frac)); mf="omit"
            elif op=="no_degenerates":
                ag = rng.random()<.5; args=ag
                f = lambda x: x.no_degenerates(allow_gap=ag); mf="nodegen"
            elif op=="degap_rel":
                nm = rng.choice(names); args=nm
                f = lambda x: x.get_degapped_relative_to(nm); mf="degaprel"
            elif op=="to_type":
                f = None; mf=None
            elif op=="to_rna_dna":
                f = (lambda x: x.to_rna()) if mt=="dna" else (lambda x: x.to_dna()); mf="conv"
            elif op=="add":
                L2 = rng.randint(1,5); extra = {n: "".join(rng.choice("ACGT-") for _ in range(L2)) for n in names}
                if mt=="rna": extra = {n:v.replace("T","U") for n,v in extra.items()}
                args=extra
                f = lambda x: x + make_aligned_seqs(extra, moltype=mt, array_align=isinstance(x, __import__("cogent3").core.alignment.ArrayAlignment)); mf = "add"
            elif op=="filtered":
                f = lambda x: x.filtered(lambda col: "-" not in "".join(map(str,col)) if not isinstance(col, numpy.ndarray) else True); mf=None
                continue
            elif op=="sample_all":
                perm = list(range(Lc)); rng.shuffle(perm); args=perm
                f = lambda x: x.sample(permutation=lambda n: numpy.array(perm)); mf = lambda s: "".join(s[i] for i in perm)
            elif op=="deepcopy":
                f = lambda x: x.deepcopy(); mf = lambda s: s
            chain.append((op,args))
            # model
            if op=="take_seqs": model = {n: model[n] for n in sel}
            elif mf=="omit":
                fr = 1-1e-9 if frac is None else frac
                keep = [i for i in range(Lc) if sum(model[n][i] in "-?" for n in names)/len(names) <= fr]
                model = {n: "".join(model[n][i] for i in keep) for n in names}
            elif mf=="nodegen":
                ok = set("ACGTU") | (set("-") if ag else set())
                keep = [i for i in range(Lc) if all(model[n][i] in ok for n in names)]
                model = {n: "".join(model[n][i] for i in keep) for n in names}
            elif mf=="degaprel":
                keep = [i for i in range(Lc) if model[nm][i] not in "-"]
                model = {n: "".join(model[n][i] for i in keep) for n in names}
            elif mf=="add":
                model = {n: model[n]+extra[n] for n in names}
            elif mf=="conv":
                if mt=="dna": model={n:s.replace("T","U") for n,s in model.items()}; mt="rna"
                else: model={n:s.replace("U","T") for n,s in model.items()}; mt="dna"
            elif op=="to_type":
                alns = {"arr": alns["ann"].to_type(array_align=True), "ann": alns["arr"].to_type(array_align=False)}
            else:
                model = {n: mf(s) for n,s in model.items()}
            res = {}
            for k in alns:
                if op=="to_type": res[k]=("ok", alns[k]); continue
                try:
                    r = f(alns[k]); res[k] = ("ok", r)
                except Exception as e:
                    res[k] = ("exc", type(e).__name__+":"+str(e)[:80])
            N+=1
            outs = {}
            for k,(st,r) in res.items():
                if st=="exc": outs[k]=r
                elif r is None: outs[k]=None
                else:
                    try: outs[k]=todict(r)
                    except Exception as e: outs[k] = "todict-exc "+type(e).__name__+str(e)[:60]
            mlen = len(next(iter(model.values())))
            exp = model if mlen>0 else "EMPTY"
            for k in outs:
                o = outs[k]
                if o != exp and not (exp=="EMPTY" and (o is None or isinstance(o,str) or all(len(v)==0 for v in o.values()))):
                    fails.setdefault((k, op, tuple(c[0] for c in chain[:-1])[-2:]), (data, chain, o, model))
                    dead=True
            if dead: break
            if mlen==0: break
            alns = {k: r for k,(st,r) in res.items()}
            if any(st=="exc" or r is None for st,r in res.values()): break
        except Exception as e:
            fails.setdefault(("HARNESS",op,type(e).__name__), traceback.format_exc()[-400:]); break
print(N, len(fails))
for k,v in sorted(fails.items(), key=lambda kv: str(kv[0]))[:40]:
    print(k, v); print()
print("=====SUMMARY")
from collections import Counter
c = Counter()
for k,v in fails.items():
    o = v[2] if isinstance(v, tuple) else "harness"
    kind = o.split(":")[0] if isinstance(o,str) else "WRONG"
    c[(k[0],k[1],kind)]+=1
for k,n in sorted(c.items()): print(k,n)
