import sys, warnings; warnings.filterwarnings("ignore")
from cogent3 import get_app, open_data_store
from apps19 import tag
kill = int(sys.argv[1]) if sys.argv[1] != "none" else None
out = sys.argv[2]
dstore = open_data_store("in", suffix="fasta", mode="r")
outds = open_data_store(out, suffix="fasta", mode="a")
app = get_app("load_unaligned", moltype="dna", format="fasta") + tag(kill_at=kill, counter_file=out + ".count") + get_app("write_seqs", data_store=outds, format="fasta")
r = app.apply_to(dstore, show_progress=False, logger=False) if False else app.apply_to(dstore, show_progress=False)
print("completed", sorted(m.unique_id for m in r.completed), "nc", sorted(m.unique_id for m in r.not_completed))
