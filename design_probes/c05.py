import random, sys, warnings, numpy as np, traceback
warnings.filterwarnings("ignore")
from scipy.linalg import expm
from cogent3 import make_tree, make_aligned_seqs, get_model
from cogent3.maths.matrix_exponentiation import FastExponentiator, CheckedExponentiator, PadeExponentiator, TaylorExponentiator
rng=random.Random(1)
fails={}; stats={}
def rec(k,*v): fails.setdefault(k,v)
tree=make_tree("((a:0.1,b:0.2)ab:0.05,c:0.3,(d:0.15,e:0.4)de:0.2);")
names="abcde"
def rand_codon_aln(L):
    from cogent3 import get_code
    sense=[c for c in get_code(1).sense_codons] if hasattr(get_code(1),"sense_codons") else None
    import itertools
    gc=get_code(1)
    sense=[a+b+c for a in "TCAG" for b in "TCAG" for c in "TCAG" if gc[a+b+c]!="*"]
    return {n:"".join(rng.choice(sense) for _ in range(L)) for n in names}
aa="ACDEFGHIKLMNPQRSTVWY"
for model in ["JC69","F81","K80","HKY85","TN93","GTR","GN","ssGN","MG94HKY","MG94GTR","GY94","Y98","CNFHKY","CNFGTR","H04G","H04GK","H04GGK","GNC","JTT92","WG01","DSO78","AH96"]:
  for rep in range(3):
    try:
        sm=get_model(model)
        kind = "codon" if len(sm.get_alphabet())>40 else ("protein" if len(sm.get_alphabet())==20 else "nuc")
        if kind=="codon": data=rand_codon_aln(20); mt="dna"
        elif kind=="protein": data={n:"".join(rng.choice(aa) for _ in range(30)) for n in names}; mt="protein"
        else: data={n:"".join(rng.choice("ACGT") for _ in range(40)) for n in names}; mt="dna"
        aln=make_aligned_seqs(data,moltype=mt)
        lf=sm.make_likelihood_function(tree); lf.set_alignment(aln)
        for p in lf.get_param_names():
            if p in ("length","mprobs","bprobs","rate"): continue
            try: lf.set_param_rule(p, init=rng.uniform(0.2,5))
            except Exception as e: rec(("set_param",model,p),repr(e)[:100])
        pi=np.array(lf.get_motif_probs().to_array() if hasattr(lf.get_motif_probs(),"to_array") else lf.get_motif_probs().array)
        for e in ("a","ab","de"):
            Q=lf.get_rate_matrix_for_edge(e,calibrated=True).to_array()
            P=lf.get_psub_for_edge(e).to_array()
            t=lf.get_param_value("length",edge=e)
            n=len(Q)
            rs=np.abs(Q.sum(1)).max()
            if rs>1e-9: rec(("Q rowsum",model),rs)
            off=Q-np.diag(np.diag(Q))
            if off.min()<0: rec(("Q offdiag neg",model),off.min())
            wp = pi
            if len(pi)!=n:
                # monomer probs -> word probs
                wp=None
            if wp is not None:
                rate=-(wp*np.diag(Q)).sum()
                if abs(rate-1)>1e-8: rec(("calibration",model),rate)
                stat=np.abs(wp@Q).max()
                stats.setdefault(model,[]).append(stat)
            E=expm(Q*t)
            d=np.abs(E-P).max()
            if d>1e-8: rec(("P != expm(Qt)",model),d)
            if np.abs(P.sum(1)-1).max()>1e-9: rec(("P rowsum",model),np.abs(P.sum(1)-1).max())
            if P.min()<-1e-12: rec(("P neg",model),P.min())
            for nm,ex in (("fast",FastExponentiator),("checked",CheckedExponentiator),("pade",PadeExponentiator),("taylor",TaylorExponentiator)):
                try:
                    Pe=ex(Q)(t); dd=np.abs(Pe-E).max()
                    if dd>1e-8: rec(("backend",nm,model),dd)
                except Exception as ex_: rec(("backend exc",nm,model,type(ex_).__name__),repr(ex_)[:100])
    except Exception as e: rec(("exc",model,type(e).__name__),traceback.format_exc()[-300:])
for m,v in stats.items(): print(m, "max |piQ|", max(v))
print(len(fails))
for k,v in fails.items(): print(k,str(v)[:300])
