import random, sys, warnings, shutil, os, traceback, pathlib
warnings.filterwarnings("ignore")
from cogent3.app.data_store import DataStoreDirectory, get_text_hexdigest
from cogent3.app.sqlite_data_store import DataStoreSqlite
rng = random.Random(int(sys.argv[1]) if len(sys.argv)>1 else 0)
kind = sys.argv[2] if len(sys.argv)>2 else "dir"
fails={}
def rec(k,*v): fails.setdefault(k,v)
IDS=["a","ba","ab","a.b","fasta","afasta","x1","x11","1x","seq.fasta","aseq"]
base=pathlib.Path("/tmp/probe/ds"); 
N=0
def open_store(path, mode):
    if kind=="dir": return DataStoreDirectory(path, mode=mode, suffix="fasta")
    return DataStoreSqlite(path, mode=mode)
def norm(uid):
    n = pathlib.Path(uid).name
    for s in (".fasta",".json"):
        if n.endswith(s): n=n[:-len(s)]
    return n
def state(ds):
    comp={}; nc={}
    for m in ds.completed: comp[norm(m.unique_id)] = (m.read(), ds.md5(m.unique_id))
    for m in ds.not_completed: nc[norm(m.unique_id)] = (m.read(), ds.md5(m.unique_id))
    return comp,nc
for it in range(int(sys.argv[3]) if len(sys.argv)>3 else 300):
    shutil.rmtree(base, ignore_errors=True); base.mkdir()
    path = base/("store" if kind=="dir" else "store.sqlitedb")
    ds = open_store(path,"w"); mode="w"
    comp={}; nc={}; hist=[]
    ok=True
    for step in range(rng.randint(1,10)):
        op = rng.choice(["write","write","write_nc","write_nc","drop","drop_all","reopen","read_state"])
        uid = rng.choice(IDS); data=f"data-{it}-{step}"
        hist.append((op,uid,mode))
        try:
            if op=="write":
                wid = uid if kind!="dir" or rng.random()<.5 else uid+".fasta"
                if mode=="r":
                    try: ds.write(unique_id=wid,data=data); rec(("readonly write allowed",kind),hist[:])
                    except IOError: pass
                elif mode=="a" and uid in comp or (mode=="a" and uid in nc and False):
                    try:
                        ds.write(unique_id=wid,data=data)
                        # append must not overwrite
                        c,n=state(ds)
                        if c.get(uid,(None,))[0]!=comp[uid][0]: rec(("append overwrote",kind),hist[:])
                    except IOError: pass
                else:
                    ds.write(unique_id=wid,data=data); comp[uid]=(data,get_text_hexdigest(data)); nc.pop(uid,None)
            elif op=="write_nc":
                if mode=="r":
                    try: ds.write_not_completed(unique_id=uid,data=data); rec(("readonly write_nc allowed",kind),hist[:])
                    except IOError: pass
                elif uid in comp or uid in nc:
                    hist.pop(); continue   # semantics unclear; skip
                else:
                    ds.write_not_completed(unique_id=uid,data=data); nc[uid]=(data,get_text_hexdigest(data))
            elif op=="drop":
                if mode=="r": hist.pop(); continue
                ds.drop_not_completed(unique_id=uid); nc.pop(uid,None)
            elif op=="drop_all":
                if mode=="r": hist.pop(); continue
                ds.drop_not_completed(); nc.clear()
            elif op=="reopen":
                if hasattr(ds,"close"): ds.close()
                mode=rng.choice(["a","r","a"]); hist[-1]=(op,mode)
                ds=open_store(path,mode)
            N+=1
            for label,store in (("live",ds),("fresh",open_store(path,"r"))):
                c,n=state(store)
                if c!=comp or n!=nc:
                    rec(("state mismatch",kind,label,op, mode), hist[:], {"got_c":c,"exp_c":comp,"got_nc":n,"exp_nc":nc}); ok=False
                if label=="fresh" and hasattr(store,"close"): store.close()
            if not ok: break
        except Exception as e:
            rec(("EXC",kind,op,type(e).__name__), hist[:], traceback.format_exc()[-300:]); break
    if hasattr(ds,"close"): ds.close()
print(N,len(fails))
for k,v in sorted(fails.items(),key=str): print(k,v); print()
