import random, sys, warnings, itertools, traceback, math
import numpy as np
warnings.filterwarnings("ignore")
from cogent3 import make_tree, make_aligned_seqs
from cogent3.phylo.nj import nj, gnj
from cogent3.cluster.UPGMA import upgma
from cogent3.evolve.fast_distance import DistanceMatrix
rng=random.Random(int(sys.argv[1]) if len(sys.argv)>1 else 1)
fails={}
def rec(k,*v): fails.setdefault(k,v)
def rand_tree(n, ultra=False):
    names=[f"t{i}" for i in range(n)]
    rng.shuffle(names)
    if not ultra:
        items=[f"{x}:{rng.choice([0.1,0.25,0.5,1.0,2.0,0.0625,0.3])}" for x in names]
        while len(items)>3:
            sel=[items.pop(rng.randrange(len(items))) for _ in range(2)]
            items.append(f"({','.join(sel)}):{rng.choice([0.1,0.25,0.5,1.0,2.0,0.7])}")
        return make_tree("("+",".join(items)+");")
    # ultrametric: coalescent style
    nodes=[(x,0.0) for x in names]; h=0.0
    while len(nodes)>1:
        h+=rng.choice([0.1,0.25,0.5,1.0,0.3])
        a=nodes.pop(rng.randrange(len(nodes))); b=nodes.pop(rng.randrange(len(nodes)))
        s=f"({a[0]}:{h-a[1]},{b[0]}:{h-b[1]})"
        nodes.append((s,h))
    return make_tree(nodes[0][0]+";")
def splits(t):
    tips=frozenset(t.get_tip_names()); S=set()
    for n in t.postorder():
        if n.is_root(): continue
        a=frozenset(n.get_tip_names(includeself=True))
        if 1<len(a)<len(tips)-1: S.add(frozenset([a,tips-a]))
    return S
N=0
for it in range(300):
    n=rng.randint(3,9)
    t=rand_tree(n)
    d=t.get_distances()
    names=sorted(t.get_tip_names()); rng.shuffle(names)
    dm=DistanceMatrix({k:v for k,v in d.items()})
    try:
        r=nj(d)
        rd=r.get_distances()
        bad=[(k,d[k],rd[k]) for k in d if abs(d[k]-rd[k])>1e-9]
        if bad: rec(("nj distances",),t.get_newick(with_distances=True), r.get_newick(with_distances=True), bad[:2])
        if splits(r)!=splits(t): rec(("nj topology",),t.get_newick(), r.get_newick())
        N+=1
    except Exception as e: rec(("nj exc",type(e).__name__),t.get_newick(with_distances=True), traceback.format_exc()[-300:])
    u=rand_tree(n,ultra=True)
    ud=u.get_distances()
    try:
        r=upgma(DistanceMatrix(ud))
        rd=r.get_distances()
        bad=[(k,ud[k],rd[k]) for k in ud if abs(ud[k]-rd[k])>1e-9]
        if bad: rec(("upgma distances",),u.get_newick(with_distances=True), r.get_newick(with_distances=True), bad[:2])
        N+=1
    except Exception as e: rec(("upgma exc",type(e).__name__),u.get_newick(with_distances=True), traceback.format_exc()[-300:])
# distance estimators
def counts(s1,s2):
    M=np.zeros((4,4)); idx={c:i for i,c in enumerate("TCAG")}
    for a,b in zip(s1,s2):
        if a in idx and b in idx: M[idx[a],idx[b]]+=1
    return M
for it in range(300):
    n=rng.randint(2,5); L=rng.randint(5,60)
    base="".join(rng.choice("ACGT") for _ in range(L))
    data={}
    for i in range(n):
        mu=rng.choice([0,0.05,0.2,0.5])
        data[f"s{i}"]="".join((rng.choice("ACGT") if rng.random()<mu else c) if rng.random()>.05 else rng.choice("-NRY") for c in base)
    aln=make_aligned_seqs(data,moltype="dna")
    for calc in ("pdist","hamming","jc69","tn93","paralinear","logdet"):
        try:
            dm=aln.distance_matrix(calc=calc)
        except Exception as e:
            rec((calc,"exc",type(e).__name__), data, repr(e)[:150]); continue
        for a,b in itertools.combinations(data,2):
            M=counts(data[a],data[b]); tot=M.sum()
            if tot==0: continue
            p=(tot-np.trace(M))/tot
            exp=None
            if calc=="pdist": exp=p
            elif calc=="hamming": exp=tot-np.trace(M)
            elif calc=="jc69": exp = -0.75*math.log(1-4*p/3) if p<0.75 else None
            if exp is None: continue
            try:
                got=dm[a,b]
            except Exception as e:
                rec((calc,"missing pair"),data,a,b); continue
            if got!=dm[b,a]: rec((calc,"asym"),data)
            if abs(got-exp)>1e-9: rec((calc,"value"),data[a],data[b],got,exp)
            N+=1
print(N,len(fails))
for k,v in sorted(fails.items(),key=str)[:20]: print(k,v)
