import random, sys, warnings, numpy as np, itertools
warnings.filterwarnings("ignore")
from cogent3 import make_seq
from cogent3.align import pairwise, indel_model
from cogent3.align.align import make_dna_scoring_dict
from cogent3.evolve.likelihood_tree import make_likelihood_tree_leaf
rng=random.Random(1)
captured={}
orig=pairwise.PairEmissionProbs.dp
def dp(self, TM, dp_options, cells=None, backward=False):
    if cells is None and dp_options.viterbi and "TM" not in captured:
        captured["TM"]=TM; captured["opts"]=dp_options
        captured["em"]=self._getEmissionProbs(dp_options.use_logs, dp_options.use_cost_function)
        captured["uniq"]=[c.index for c in self.pair.children] if hasattr(self.pair.children[0],"index") else None
        captured["pair"]=self.pair
    return orig(self, TM, dp_options, cells=cells, backward=backward)
pairwise.PairEmissionProbs.dp=dp
def ref_viterbi(s1,s2,local=False):
    captured.clear()
    S=make_dna_scoring_dict(10,-1,-8)
    from cogent3.align.align import classic_align_pairwise
    aln,score=classic_align_pairwise(s1,s2,S,10,2,local,return_score=True)
    sd,T=captured["TM"]; (M,(X,Y))=captured["em"]; opts=captured["opts"]
    return aln,score,sd,T,M,X,Y,opts
s1=make_seq("ACGTTGCA",name="a",moltype="dna"); s2=make_seq("ACGTGCAA",name="b",moltype="dna")
aln,score,sd,T,M,X,Y,opts=ref_viterbi(s1,s2)
print(aln.to_dict(),score)
print("state_directions",sd.tolist()); print("T",np.round(T,4).tolist()); print("opts",opts)
print("M",M.shape,"X",X.shape,"Y",Y.shape)
pair=captured["pair"]
print("pair.size",pair.size, [type(c).__name__ for c in pair.children])
c0=pair.children[0]
print([a for a in dir(c0) if not a.startswith("__")][:40])

def ref_score(captured, n, m):
    sd,T=captured["TM"]; (M,(X,Y))=captured["em"]; pair=captured["pair"]
    i1=np.asarray(pair.children[0].index); i2=np.asarray(pair.children[1].index)
    lT=np.log(T)
    NEG=-np.inf
    ns=T.shape[0]
    V=np.full((n+1,m+1,ns),NEG); V[0,0,0]=0.0
    for i in range(n+1):
        for j in range(m+1):
            for (s,b,dx,dy) in sd:
                pi,pj=i-dx,j-dy
                if pi<0 or pj<0: continue
                if dx and dy: e=M[b,i1[i],i2[j]]
                elif dx: e=X[b,i1[i]]
                else: e=Y[b,i2[j]]
                best=max(V[pi,pj,p]+lT[p,s] for p in range(ns-1))
                if best>NEG: V[i,j,s]=max(V[i,j,s],best+e)
    return max(V[n,m,s]+lT[s,ns-1] for s in range(1,ns-1)), V
print("index arrays", list(pair.children[0].index), list(pair.children[1].index))
r,V=ref_score(captured,8,8)
print("ref",r,"reported",score)
bad=0
for it in range(200):
    a="".join(rng.choice("ACGT") for _ in range(rng.randint(1,12))); b="".join(rng.choice("ACGT") for _ in range(rng.randint(1,12)))
    if rng.random()<.5: b=a[:len(a)//2]+b[:3]+a[len(a)//2:]
    s1=make_seq(a,name="a",moltype="dna"); s2=make_seq(b,name="b",moltype="dna")
    aln,score,*_=ref_viterbi(s1,s2)
    r,_=ref_score(captured,len(a),len(b))
    if abs(r-score)>1e-9: bad+=1; print("MISMATCH",a,b,r,score)
print("bad",bad)
