import time, warnings, numpy as np, random, sys, itertools
warnings.filterwarnings("ignore")
from scipy.linalg import expm
from cogent3 import make_tree, make_aligned_seqs, get_model
rng = random.Random(1)
ORDER="TCAG"
PUR=set("AG"); PYR=set("CT")
def is_ts(a,b): return (a in PUR and b in PUR) or (a in PYR and b in PYR)
def Qind(model, pi, par):
    n=4; R=np.zeros((4,4))
    for i,a in enumerate(ORDER):
        for j,b in enumerate(ORDER):
            if i==j: continue
            r=1.0
            if model in("HKY85","K80"):
                if is_ts(a,b): r*=par["kappa"]
            elif model=="TN93":
                if is_ts(a,b): r*= par["kappa_r"] if a in PUR else par["kappa_y"]
            elif model=="GTR":
                key="/".join(sorted([a,b]))
                r*=par.get(key,1.0)
            R[i,j]=r*pi[j]
    R[np.diag_indices(4)] = -R.sum(1)
    scale = -(pi*np.diag(R)).sum()
    return R/scale
AMB={"A":"A","C":"C","G":"G","T":"T","R":"AG","Y":"CT","N":"ACGT","-":"ACGT","?":"ACGT","W":"AT","S":"CG","K":"GT","M":"AC","B":"CGT","D":"AGT","H":"ACT","V":"ACG"}
def prune(tree, aln, pi, Q):
    L=len(next(iter(aln.values())))
    tot=0.0
    def partial(node, col):
        if node.is_tip():
            v=np.zeros(4)
            for ch in AMB[aln[node.name][col]]: v[ORDER.index(ch)]=1
            return v
        out=np.ones(4)
        for ch in node.children:
            P=expm(Q*ch.length)
            out*= P@partial(ch,col)
        return out
    for c in range(L):
        tot+=np.log((pi*partial(tree,c)).sum())
    return tot
bad=0
for it in range(200):
    n=rng.randint(3,6)
    names=[f"t{i}" for i in range(n)]
    items=[f"{x}:{rng.uniform(0.01,1.5):.4f}" for x in names]
    while len(items)>rng.choice([2,3]):
        k=rng.choice([2,2,3]) if len(items)>3 else 2
        sel=[items.pop(rng.randrange(len(items))) for _ in range(k)]
        items.append(f"({','.join(sel)}):{rng.uniform(0.01,1):.4f}")
    nw="("+",".join(items)+");"
    tree=make_tree(nw)
    L=rng.randint(1,12)
    alpha="ACGT"*5+"RYN-?WSKM"
    data={nm:"".join(rng.choice(alpha) for _ in range(L)) for nm in names}
    aln=make_aligned_seqs(data,moltype="dna")
    model=rng.choice(["JC69","F81","K80","HKY85","TN93","GTR"])
    sm=get_model(model)
    lf=sm.make_likelihood_function(tree)
    try: lf.set_alignment(aln)
    except AssertionError: continue
    pi=np.array([rng.uniform(.05,1) for _ in range(4)]); pi/=pi.sum()
    if model in("JC69","K80"): pi=np.ones(4)/4
    else: lf.set_motif_probs(dict(zip(ORDER,pi)))
    par={}
    if model in("HKY85","K80"): par["kappa"]=rng.uniform(.2,8); lf.set_param_rule("kappa",init=par["kappa"])
    if model=="TN93":
        for p in ("kappa_r","kappa_y"): par[p]=rng.uniform(.2,8); lf.set_param_rule(p,init=par[p])
    if model=="GTR":
        for p in ("A/C","A/G","A/T","C/G","C/T"): par[p]=rng.uniform(.2,8); lf.set_param_rule(p,init=par[p])
    Q=Qind(model,pi,par)
    exp=prune(tree,data,pi,Q)
    got=lf.lnL
    if abs(exp-got)>1e-8*max(1,abs(exp)):
        bad+=1; print("MISMATCH",model,nw,data,par,pi,got,exp)
print("done bad=",bad)
