import random, sys, warnings, itertools, traceback
warnings.filterwarnings("ignore")
from cogent3 import make_unaligned_seqs, get_app, make_seq
from cogent3.align.align import global_pairwise, make_dna_scoring_dict
rng=random.Random(int(sys.argv[1]) if len(sys.argv)>1 else 1)
fails={}
def rec(k,*v): fails.setdefault(k,v)
def mutate(s):
    out=[]
    i=0
    while i<len(s):
        r=rng.random()
        if r<0.08: i+=rng.randint(1,3); continue      # deletion
        if r<0.16: out.append("".join(rng.choice("ACGT") for _ in range(rng.randint(1,3))))  # insertion
        out.append(s[i] if rng.random()>.1 else rng.choice("ACGT")); i+=1
    return "".join(out) or "A"
def proj(d, a, b):
    cols=[(x,y) for x,y in zip(d[a],d[b]) if not (x=="-" and y=="-")]
    return "".join(x for x,_ in cols), "".join(y for _,y in cols)
N=0
app=get_app("align_to_ref")
S=make_dna_scoring_dict(10,-1,-8)
for it in range(int(sys.argv[2]) if len(sys.argv)>2 else 200):
    L=rng.randint(5,25)
    ref="".join(rng.choice("ACGT") for _ in range(L))
    n=rng.randint(2,5)
    data={"ref":ref}
    for i in range(1,n): data[f"s{i}"]=mutate(ref)
    seqs=make_unaligned_seqs(data,moltype="dna")
    app=get_app("align_to_ref", ref_seq="ref")
    try:
        aln=app(seqs)
        if not hasattr(aln,"to_dict"): rec(("notcompleted",),data,str(aln)[:300]); continue
        d=aln.to_dict()
    except Exception as e: rec(("exc",type(e).__name__),data,traceback.format_exc()[-300:]); continue
    N+=1
    lens={len(v) for v in d.values()}
    if len(lens)!=1: rec(("ragged",),data,d)
    for k,v in d.items():
        if v.replace("-","")!=data[k]: rec(("degapped differs",),data,d,k)
    # pairwise preservation
    for k in data:
        if k=="ref": continue
        pw=global_pairwise(seqs.get_seq("ref"), seqs.get_seq(k), S, 10, 1).to_dict() if False else None
        two=make_unaligned_seqs({"ref":ref,k:data[k]},moltype="dna")
        pw=app(two).to_dict()
        a=proj(d,"ref",k); b=(pw["ref"],pw[k])
        if a!=b: rec(("pairwise not preserved",),data,k,a,b,d)
print(N,len(fails))
for k,v in sorted(fails.items(),key=str)[:10]: print(k,v); print()
