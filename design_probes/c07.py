import random, sys, warnings, numpy as np, traceback, copy
warnings.filterwarnings("ignore")
from cogent3 import make_tree, make_aligned_seqs, get_model
from cogent3.recalculation.calculation import Calculator, EvaluatedCell, OptPar, ConstCell
rng=random.Random(int(sys.argv[1]) if len(sys.argv)>1 else 1)
stats={"changes":0,"shadow_ok":0,"undo_taken":0}
fails={}
def rec(k,*v): fails.setdefault(k,v)
def shadow(calc):
    cur = calc.cell_values[calc._switch]
    fresh=[None]*len(cur)
    for cell in calc._cells:
        r=cell.rank
        if isinstance(cell,(OptPar,ConstCell)): fresh[r]=cur[r]; continue
        args=[]
        for a in cell.arg_ranks:
            if a==r:   # recycled self-arg
                v=cur[r]; args.append(v.copy() if hasattr(v,"copy") else copy.deepcopy(v))
            else: args.append(fresh[a])
        fresh[r]=cell.calc(*args)
    return fresh
orig_change=Calculator.change
def hooked(self, changes):
    before_undo=list(self.last_undo)
    res=orig_change(self, changes)
    stats["changes"]+=1
    try:
        fr=shadow(self)
        v=fr[-1]
        if not np.allclose(v,res,rtol=1e-10,atol=0): rec(("shadow mismatch",), changes, v, res)
        else: stats["shadow_ok"]+=1
    except Exception as e: rec(("shadow exc",type(e).__name__), traceback.format_exc()[-400:])
    return res
Calculator.change=hooked
Calculator.__call__=Calculator.testoptparvector
tree=make_tree("((a:0.1,b:0.2)ab:0.05,c:0.3,(d:0.15,e:0.4)de:0.2);")
data={n:"".join(rng.choice("ACGT") for _ in range(60)) for n in "abcde"}
aln=make_aligned_seqs(data,moltype="dna")
for model,kw in (("HKY85",{}),("GTR",{}),("HKY85",dict(bins=2)),("GN",{})):
    sm=get_model(model, **({"ordered_param":"rate","distribution":"gamma"} if kw else {}))
    lf=sm.make_likelihood_function(tree, **kw); lf.set_alignment(aln)
    if model=="HKY85": lf.set_param_rule("kappa", is_independent=True, edges=["a","b"]) 
    calc=lf.make_calculator()
    x0=np.array(calc.get_value_array()); lo,hi=calc.get_bounds_vectors()
    n=len(x0); prev=[x0.copy()]
    for step in range(300):
        r=rng.random(); x=np.array(calc.last_values,dtype=float)
        if r<.3:
            i=rng.randrange(n); x[i]=min(hi[i],max(lo[i],x[i]+rng.uniform(-.3,.3)))
        elif r<.5 and len(prev)>1:
            x=prev[-2].copy()    # exact revert
        elif r<.7:
            for i in rng.sample(range(n),min(n,3)): x[i]=min(hi[i],max(lo[i],x[i]+rng.uniform(-.3,.3)))
        elif r<.8:
            i=rng.randrange(n); x[i]=hi[i]+1.0  # out of bounds? calc itself doesn't check
        else:
            pass
        try:
            v=calc(x); prev.append(np.array(calc.last_values,dtype=float))
            fresh=lf.make_calculator() if False else None
        except Exception as e:
            rec(("calc exc",model,type(e).__name__), repr(e)[:100])
    # compare against fresh lf with values
    print(model,kw,"nopt",n, stats)
print(len(fails)); 
for k,v in fails.items(): print(k,str(v)[:500])
