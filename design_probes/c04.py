import random, sys, warnings, numpy, traceback
warnings.filterwarnings("ignore")
from cogent3 import make_seq
comp = str.maketrans("ACGT","TGCA")
def rc(s): return s.translate(comp)[::-1]
rng = random.Random(int(sys.argv[1]) if len(sys.argv)>1 else 0)
new_type = len(sys.argv)>2 and sys.argv[2]=="new"
fails={}
def rec(k,*v): fails.setdefault(k,v)
N=0
for it in range(int(sys.argv[3]) if len(sys.argv)>3 else 3000):
    L = rng.randint(4,24)
    s = "".join(rng.choice("ACGT") for _ in range(L))
    off = 0
    seq = make_seq(s, name="s1", moltype="dna", new_type=new_type, annotation_offset=off)
    feats={}
    for fi in range(rng.randint(1,3)):
        nsp = rng.choice([1,1,2,3])
        cuts = sorted(rng.sample(range(L+1), 2*nsp)) if L+1>=2*nsp else [0,L]
        spans = [(cuts[i],cuts[i+1]) for i in range(0,len(cuts),2)]
        strand = rng.choice(["+","-"])
        name=f"f{fi}"
        try:
            seq.add_feature(biotype="gene", name=name, spans=spans, strand=strand)
        except Exception as e:
            rec(("add_feature",type(e).__name__), s, spans, strand, repr(e)); continue
        feats[name]=(spans,strand)
    # history
    lo,hi=0,L; rev=False; view=seq; chain=[]
    try:
        for d in range(rng.randint(0,3)):
            n = hi-lo
            if rng.random()<.65 and n>0:
                a = rng.randint(0,n); b=rng.randint(a,n)
                if a==b: continue
                chain.append(("slice",a,b)); view = view[a:b]
                if not rev: lo,hi = lo+a, lo+b
                else: lo,hi = hi-b, hi-a
            elif rng.random()<.8:
                chain.append(("rc",)); view=view.rc(); rev=not rev
            else:
                chain.append(("copy",)); view=view.copy()
        expv = s[lo:hi] if not rev else rc(s[lo:hi])
        if str(view)!=expv: rec(("viewstr",), s, chain, str(view), expv); continue
        # all features, allow_partial
        for ap in (True, False):
            try:
                got = list(view.get_features(allow_partial=ap))
            except Exception as e:
                rec(("get_features",type(e).__name__, ap, rev), s, off, feats, chain, repr(e), traceback.format_exc()[-300:]); continue
            N+=1
            exp_names=set()
            for nm,(spans,strand) in feats.items():
                a0=min(a for a,b in spans); b0=max(b for a,b in spans)
                if ap:
                    if a0<hi and b0>lo: exp_names.add(nm)   # overlap of extent
                else:
                    if a0>=lo and b0<=hi: exp_names.add(nm)
            got_names={f.name for f in got}
            if got_names!=exp_names: rec(("membership",ap,rev, off!=0, any(c[0]=="copy" for c in chain)), s, off, feats, chain,(lo,hi), got_names, exp_names)
            for f in got:
                spans,strand = feats[f.name]
                parts=[s[max(a,lo):min(b,hi)] for a,b in spans if max(a,lo)<min(b,hi)]
                e = "".join(parts)
                if strand=="-": e = rc(e)
                try:
                    g = str(f.get_slice())
                except Exception as ex:
                    rec(("get_slice",type(ex).__name__,ap,rev), s, feats[f.name], chain, repr(ex)); continue
                if g!=e: rec(("slice_value",strand,rev,len(spans)>1, ap), s, off, feats[f.name], chain,(lo,hi), g, e)
        # window query
        n=hi-lo
        if n>0:
            a=rng.randint(0,n-1); b=rng.randint(a+1,n)
            for ap in (True,False):
                try: got={f.name for f in view.get_features(start=a, stop=b, allow_partial=ap)}
                except Exception as e: rec(("window",type(e).__name__,ap,rev), s, feats, chain,(a,b), repr(e)); continue
                if not rev: wlo,whi=lo+a,lo+b
                else: wlo,whi=hi-b,hi-a
                exp=set()
                for nm,(spans,strand) in feats.items():
                    a0=min(x for x,y in spans); b0=max(y for x,y in spans)
                    if ap and a0<whi and b0>wlo: exp.add(nm)
                    if not ap and a0>=wlo and b0<=whi: exp.add(nm)
                if got!=exp: rec(("window_membership",ap,rev,off!=0), s, off, feats, chain,(lo,hi),(a,b), got, exp)
    except Exception as e:
        rec(("EXC",type(e).__name__), s, chain, traceback.format_exc()[-400:])
print(N, len(fails))
for k,v in sorted(fails.items(), key=str): print(k, v); print()
