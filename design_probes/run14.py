import warnings, time; warnings.filterwarnings("ignore")
from apps14 import work, plus1
if __name__ == "__main__":
    delays = {0: .5, 1: .3, 2: .1, 3: 0, 4:0.2}
    fail = {1: "exc", 3: "none", 4:"nc"}
    app = work(delays=delays, fail=fail) + plus1()
    t0=time.time()
    r = list(app.as_completed([0,1,2,3,4,5], parallel=True, par_kw=dict(max_workers=4), show_progress=False))
    print(time.time()-t0)
    for x in r: print(type(x).__name__, repr(x)[:150], getattr(x,'source',None))
    print([type(x).__name__ for x in app.as_completed([0,1,2,3,4,5], parallel=False, show_progress=False)])
    print(app(1))
