import random, sys, warnings, itertools, traceback, pathlib, shutil, string
warnings.filterwarnings("ignore")
from cogent3 import make_aligned_seqs, make_unaligned_seqs, load_aligned_seqs, load_unaligned_seqs
from cogent3.parse.fasta import MinimalFastaParser, iter_fasta_records
from cogent3.util.io import iter_splitlines
rng=random.Random(int(sys.argv[1]) if len(sys.argv)>1 else 1)
fails={}
def rec(k,*v): fails.setdefault(k,v)
out=pathlib.Path("/tmp/probe/c06"); 
NAMECH = string.ascii_letters+string.digits+"_-.|>:;, ()[]/+=#"
N=0
for it in range(int(sys.argv[2]) if len(sys.argv)>2 else 150):
    n=rng.randint(1,5)
    L=rng.choice([1,2,9,10,11,49,50,51,59,60,61,119,120,121, rng.randint(1,130)])
    mt=rng.choice(["dna","rna","protein"])
    alpha={"dna":"ACGT-N","rna":"ACGU-N","protein":"ACDEFGHIKLMNPQRSTVWY-X"}[mt]
    names=[]
    while len(names)<n:
        style=rng.choice(["simple","simple","hostile","ten"])
        if style=="simple": nm="s"+"".join(rng.choice(string.ascii_lowercase+string.digits) for _ in range(rng.randint(1,8)))
        elif style=="ten": nm="".join(rng.choice(string.ascii_letters) for _ in range(rng.choice([9,10,11,12])))
        else: nm=rng.choice(string.ascii_letters)+"".join(rng.choice(NAMECH) for _ in range(rng.randint(1,12)))
        nm=nm.strip()
        if nm and nm not in names: names.append(nm)
    data={nm:"".join(rng.choice(alpha) for _ in range(L)) for nm in names}
    for aligned in (True,False):
        for fmt in (["fasta","phylip","paml","gde","json"] if aligned else ["fasta","json","gde"]):
            for cmp in ("",".gz",".bz2"):
                if cmp and rng.random()<.6: continue
                path=out/f"x.{fmt}{cmp}"
                try:
                    if aligned: obj=make_aligned_seqs(data,moltype=mt, array_align=rng.random()<.5)
                    else:
                        d2={k:v.replace("-","") or "A" for k,v in data.items()}
                        obj=make_unaligned_seqs(d2,moltype=mt)
                    exp=obj.to_dict()
                    obj.write(path)
                    loader=load_aligned_seqs if aligned else load_unaligned_seqs
                    got=loader(path,moltype=mt)
                    gd=got.to_dict(); N+=1
                    if fmt=="phylip":
                        expn=[k[:10].strip() if False else k for k in exp]
                    if list(gd.keys())!=list(exp.keys()) or gd!=exp:
                        kind="names" if list(gd.keys())!=list(exp.keys()) else "seqs"
                        style="hostile" if any(c in k for k in exp for c in " >|:;,()[]/+=#") else ("long" if any(len(k)>10 for k in exp) else "plain")
                        rec((fmt,aligned,kind,style), list(exp.items())[:2], list(gd.items())[:2])
                except Exception as e:
                    style="hostile" if any(c in k for k in data for c in " >|:;,()[]/+=#") else "plain"
                    rec((fmt,aligned,"exc",type(e).__name__,style), list(data.items())[:2], repr(e)[:200])
    # fasta parser agreement
    txt="".join(f">{k}\n"+"\n".join(v[i:i+60] for i in range(0,len(v),60))+"\n" for k,v in data.items())
    p=out/"p.fasta"; p.write_text(txt)
    a=[(k,str(v)) for k,v in MinimalFastaParser(str(p))] if False else None
    try:
        a=list(iter_fasta_records(p)); b=[(k,v) for k,v in MinimalFastaParser(iter_splitlines(p))]
        c=[(k,v) for k,v in MinimalFastaParser(iter_splitlines(p), strict=False)]
        if a!=b or a!=c or a!=list(data.items()): rec(("fasta parsers disagree",), a[:2],b[:2],c[:2],list(data.items())[:2])
        for cs in (1,2,3,5,7,16,61,62,63):
            lines=list(iter_splitlines(p,chunk_size=cs))
            if lines!=txt.splitlines(): rec(("iter_splitlines",cs), txt[:80], lines[:5])
            a2=list(iter_fasta_records(p, chunk_size=cs)) if "chunk_size" in iter_fasta_records.__code__.co_varnames else None
            if a2 is not None and a2!=a: rec(("iter_fasta_records chunk",cs), a[:2], a2[:2])
    except Exception as e: rec(("fasta parse exc",type(e).__name__), txt[:100], traceback.format_exc()[-300:])
print(N,len(fails))
for k,v in sorted(fails.items(),key=str)[:40]: print(k,v); print()
