"""Case runner, verdicts, evidence and replay files for the runtime monitors.

A monitor module (vmon/monitors/cNN.py) provides

    ID, LEVEL, RULE, ASSUMPTIONS          constants
    ENV                                   optional extra environment for worker processes
    gen_cases(rng, tier) -> list[dict]    JSON-serialisable cases (a case may be a batch descriptor)
    run_case(case) -> Result              run the real code, observe, decide
    required(counters, tier) -> list[str] optional: names of coverage requirements NOT met (-> inconclusive)
    TIMEOUT = {"quick": s, "thorough": s} optional per-worker wall-clock watchdog

Result is built with `Result()`; see below.  The parent process here forks
worker subprocesses (subprocess.run with timeout, never a Pool), merges their
JSONL output, classifies every witness against known_findings.json by
*mechanism*, writes evidence/<ID>.json and replay files, and sets the exit
status: 0 held / 1 VIOLATION / 2 INCONCLUSIVE.
"""

from __future__ import annotations

import hashlib
import importlib
import json
import os
import pathlib
import random
import shutil
import subprocess
import sys
import tempfile
import time
import traceback

ROOT = pathlib.Path(__file__).resolve().parent.parent
REPO = pathlib.Path(os.environ.get("VERIF_REPO", "/repo"))
PY = os.environ.get("VERIF_PYTHON", "/venv/bin/python")
DEPS = ROOT / ".deps"
SCRATCH = ROOT / ".scratch"
MAX_WITNESS_PER_MECH = 3
MAX_SIGS = 200000


class Result:
    """What one case observed."""

    def __init__(self):
        self.evals = 0  # oracle decisions made
        self.sigs = set()  # signatures of non-trivial decided cases
        self.witnesses = []  # [{"mechanism": str, "detail": {...}}]
        self.counters = {}
        self.refused = 0
        self.samples = []

    def count(self, key, n=1):
        self.counters[key] = self.counters.get(key, 0) + n

    def sig(self, *parts):
        if len(self.sigs) < 5000:
            self.sigs.add("|".join(str(p) for p in parts))

    def witness(self, mechanism, **detail):
        self.count("witness:" + mechanism)
        n = sum(1 for w in self.witnesses if w["mechanism"] == mechanism)
        if n < MAX_WITNESS_PER_MECH:
            self.witnesses.append({"mechanism": mechanism, "detail": _jsonable(detail)})

    def sample(self, obj):
        if len(self.samples) < 2:
            self.samples.append(_jsonable(obj))

    def to_json(self):
        return {
            "evals": self.evals,
            "sigs": sorted(self.sigs),
            "witnesses": self.witnesses,
            "counters": self.counters,
            "refused": self.refused,
            "samples": self.samples,
        }


def _jsonable(o, depth=0):
    if depth > 60:
        return repr(o)[:200]
    if isinstance(o, (str, int, float, bool)) or o is None:
        if isinstance(o, float) and (o != o or o in (float("inf"), float("-inf"))):
            return repr(o)
        if isinstance(o, str) and len(o) > 4000:
            return o[:4000] + "…"
        return o
    if isinstance(o, dict):
        return {str(k): _jsonable(v, depth + 1) for k, v in list(o.items())[:200]}
    if isinstance(o, (list, tuple, set, frozenset)):
        seq = list(o)
        if isinstance(o, (set, frozenset)):
            try:
                seq = sorted(seq)
            except TypeError:
                seq = sorted(seq, key=repr)
        return [_jsonable(v, depth + 1) for v in seq[:400]]
    if isinstance(o, slice):
        return ["slice", o.start, o.stop, o.step]
    try:
        import numpy

        if isinstance(o, numpy.ndarray):
            return _jsonable(o.tolist(), depth + 1)
        if isinstance(o, numpy.generic):
            return _jsonable(o.item(), depth + 1)
    except Exception:
        pass
    return repr(o)[:400]


def jsonable(o):
    return _jsonable(o)


# ---------------------------------------------------------------------------
# exception classification


def origin_of(exc):
    """innermost traceback frame inside the repository's package, as 'file.py:func'"""
    tb = exc.__traceback__
    best = None
    while tb is not None:
        fn = tb.tb_frame.f_code.co_filename
        if "/cogent3/" in fn and "/vmon/" not in fn:
            best = f"{pathlib.Path(fn).name}:{tb.tb_frame.f_code.co_name}"
        tb = tb.tb_next
    return best


def exc_mechanism(prefix, exc):
    o = origin_of(exc)
    return f"{prefix}/raises-{type(exc).__name__}@{o or 'harness'}"


# ---------------------------------------------------------------------------
# worker side


def worker_main(argv):
    import faulthandler

    mod_name, case_file, out_file, timeout = argv[0], argv[1], argv[2], float(argv[3])
    faulthandler.enable()
    faulthandler.dump_traceback_later(timeout, exit=True)
    import warnings

    warnings.filterwarnings("ignore")
    mod = importlib.import_module(f"vmon.monitors.{mod_name}")
    cases = json.load(open(case_file))
    with open(out_file, "a") as out:
        if hasattr(mod, "worker_init"):
            mod.worker_init()
        for idx, case in cases:
            t0 = time.monotonic()
            try:
                res = mod.run_case(case)
                rec = res.to_json()
            except BaseException as e:  # noqa: BLE001
                if isinstance(e, KeyboardInterrupt):
                    raise
                o = origin_of(e)
                tbs = traceback.format_exc()[-1500:]
                if o is not None:
                    # raised inside cogent3 and not anticipated by the monitor
                    r = Result()
                    r.evals = 1
                    r.witness(
                        f"{mod.ID}/unanticipated-{type(e).__name__}@{o}",
                        error=repr(e)[:300],
                        traceback=tbs,
                    )
                    rec = r.to_json()
                else:
                    rec = {"harness_error": tbs}
            rec["idx"] = idx
            rec["t"] = round(time.monotonic() - t0, 4)
            out.write(json.dumps(rec) + "\n")
            out.flush()
        if hasattr(mod, "worker_fini"):
            extra = mod.worker_fini()
            if extra is not None:
                rec = extra.to_json()
                rec["idx"] = -1
                rec["t"] = 0
                out.write(json.dumps(rec) + "\n")
        out.write(json.dumps({"done": True}) + "\n")
    faulthandler.cancel_dump_traceback_later()


# ---------------------------------------------------------------------------
# parent side


def ensure_deps():
    """icontract beside the repository's interpreter (offline wheelhouse)"""
    if (DEPS / "icontract").exists():
        return
    DEPS.mkdir(exist_ok=True)
    subprocess.run(
        [
            PY,
            "-m",
            "pip",
            "install",
            "--quiet",
            "--no-index",
            "--find-links",
            "/opt/veriftools/wheels",
            "--target",
            str(DEPS),
            "icontract",
        ],
        check=False,
        stdout=subprocess.DEVNULL,
        stderr=subprocess.DEVNULL,
    )


def load_known():
    p = ROOT / "known_findings.json"
    if not p.exists():
        return {}
    data = json.load(open(p))
    return {f["mechanism"]: f for f in data.get("findings", []) if f.get("status") == "known"}


def child_env(mod, tier):
    env = dict(os.environ)
    env["PYTHONHASHSEED"] = "0"
    env["DONT_USE_MPI"] = "1"
    # VERIF_SRC: development aid for mutation validation — a scratch copy of /repo/src that shadows the
    # editable install. Registered commands never set it, so they always run against /repo itself.
    alt = [env["VERIF_SRC"]] if env.get("VERIF_SRC") else []
    env["PYTHONPATH"] = os.pathsep.join(
        alt + [str(ROOT), str(DEPS)] + ([env["PYTHONPATH"]] if env.get("PYTHONPATH") else [])
    )
    env["PYTHONDONTWRITEBYTECODE"] = "1"
    # one BLAS/OpenMP/numba thread per worker: the parallelism is across worker processes
    for k in ("OMP_NUM_THREADS", "OPENBLAS_NUM_THREADS", "MKL_NUM_THREADS", "NUMBA_NUM_THREADS", "NUMEXPR_NUM_THREADS"):
        env[k] = "1"
    env["VERIF_TIER"] = tier
    env["COGENT3_VERIF"] = "1"
    extra = dict(getattr(mod, "ENV", {}))
    mode = "bc" if extra.get("NUMBA_BOUNDSCHECK") == "1" else "std"
    if extra.get("NUMBA_DISABLE_JIT") == "1":
        mode = "nojit"
    cache = SCRATCH / f"numba-{mode}"
    cache.mkdir(parents=True, exist_ok=True)
    env["NUMBA_CACHE_DIR"] = str(cache)
    env.update(extra)
    return env


def run_check(mod_name, tier, seed, jobs=None, replay=None, only=None):
    t_start = time.monotonic()
    ensure_deps()
    sys.path.insert(0, str(DEPS))
    mod = importlib.import_module(f"vmon.monitors.{mod_name}")
    pid = mod.ID
    known = load_known()
    jobs = jobs or int(os.environ.get("VERIF_JOBS", "0")) or min(16, os.cpu_count() or 4)
    jobs = min(jobs, getattr(mod, "MAX_JOBS", jobs))

    if replay:
        rp = json.load(open(replay))
        cases = [rp["case"]]
        jobs = 1
    else:
        rng = random.Random(f"{pid}:{seed}")
        cases = mod.gen_cases(rng, tier)
        if only is not None:
            cases = [cases[i] for i in only]
    indexed = list(enumerate(cases))
    jobs = max(1, min(jobs, len(indexed)))
    timeout = getattr(mod, "TIMEOUT", {"quick": 900, "thorough": 7200})[tier]

    work = pathlib.Path(tempfile.mkdtemp(prefix=f"vmon-{pid}-"))
    procs = []
    env = child_env(mod, tier)
    env["VERIF_WORK"] = str(work)
    try:
        for j in range(jobs):
            part = indexed[j::jobs]
            cf = work / f"cases{j}.json"
            of = work / f"out{j}.jsonl"
            json.dump(part, open(cf, "w"))
            wdir = work / f"w{j}"
            wdir.mkdir()
            p = subprocess.Popen(
                [PY, "-m", "vmon.worker", mod_name, str(cf), str(of), str(timeout)],
                env=env,
                cwd=str(wdir),
                stdout=open(work / f"stdout{j}", "w"),
                stderr=subprocess.STDOUT,
            )
            procs.append((p, of, len(part), j))
        inconclusive = []
        deadline = time.monotonic() + timeout + 60
        for p, of, n, j in procs:
            try:
                p.wait(timeout=max(1, deadline - time.monotonic()))
            except subprocess.TimeoutExpired:
                p.kill()
                inconclusive.append(f"worker {j} exceeded the {timeout}s watchdog")
        # merge
        total = Result()
        harness_errors = []
        witnesses = []
        slow = []
        done_cases = 0
        for p, of, n, j in procs:
            finished = False
            got = 0
            if of.exists():
                for line in open(of):
                    try:
                        rec = json.loads(line)
                    except json.JSONDecodeError:
                        continue
                    if rec.get("done"):
                        finished = True
                        continue
                    if rec.get("idx", 0) >= 0:
                        got += 1
                    if "harness_error" in rec:
                        harness_errors.append((rec["idx"], rec["harness_error"]))
                        continue
                    total.evals += rec["evals"]
                    total.refused += rec.get("refused", 0)
                    if len(total.sigs) < MAX_SIGS:
                        total.sigs.update(rec["sigs"])
                    for k, v in rec["counters"].items():
                        total.counters[k] = total.counters.get(k, 0) + v
                    for w in rec["witnesses"]:
                        w["case_idx"] = rec["idx"]
                        witnesses.append(w)
                    if len(total.samples) < 4:
                        total.samples.extend(rec["samples"][: 4 - len(total.samples)])
                    slow.append((rec["t"], rec["idx"]))
            done_cases += got
            if not finished or got < n:
                tail = ""
                so = work / f"stdout{j}"
                if so.exists():
                    tail = open(so).read()[-1200:]
                inconclusive.append(
                    f"worker {j} finished {got}/{n} cases (exit {p.returncode}): {tail}"
                )
        for idx, tb in harness_errors[:5]:
            inconclusive.append(f"harness error in case {idx}: {tb[-600:]}")
        if total.evals == 0 and not witnesses:
            inconclusive.append("no oracle decision was made")
        if hasattr(mod, "required") and not replay and only is None:
            for miss in mod.required(total.counters, tier):
                inconclusive.append(f"coverage requirement not met: {miss}")

        # classify
        violations = []
        known_hits = {}
        for w in witnesses:
            mech = w["mechanism"]
            if mech in known:
                known_hits.setdefault(mech, []).append(w)
            else:
                violations.append(w)
        replay_paths = []
        seen_mech = {}
        for w in violations:
            m = w["mechanism"]
            seen_mech[m] = seen_mech.get(m, 0) + 1
            if seen_mech[m] > 2 or len(replay_paths) >= 25:
                continue
            case = cases[w["case_idx"]] if w["case_idx"] >= 0 else None
            if isinstance(w["detail"], dict) and "replay_case" in w["detail"]:
                case = w["detail"]["replay_case"]
            body = {
                "property": pid,
                "tier": tier,
                "seed": seed,
                "mechanism": m,
                "case": case,
                "witness": w["detail"],
            }
            h = hashlib.sha1(json.dumps(body, sort_keys=True).encode()).hexdigest()[:12]
            d = ROOT / "replay" / pid
            d.mkdir(parents=True, exist_ok=True)
            path = d / f"{h}.json"
            json.dump(body, open(path, "w"), indent=1)
            replay_paths.append((m, path))

        wall = time.monotonic() - t_start
        nontrivial = len(total.sigs)
        if not replay and only is None:
            evidence = {
                "property_id": pid,
                "tier": tier,
                "seed": int(seed),
                "level": mod.LEVEL,
                "coverage": {
                    "evaluations": total.evals,
                    "distinct_nontrivial": nontrivial,
                    "rule": mod.RULE,
                    "samples": total.samples or [cases[0]],
                    "cases_run": done_cases,
                    "refused": total.refused,
                    "counters": dict(sorted(total.counters.items())),
                    "known_finding_hits": {k: len(v) for k, v in known_hits.items()},
                    "workers": jobs,
                    "slowest_case_s": max(slow)[0] if slow else 0,
                    "inconclusive": inconclusive,
                    "exhaustive": bool(getattr(mod, "EXHAUSTIVE", {}).get(tier, False)),
                },
                "assumptions": list(getattr(mod, "ASSUMPTIONS", [])),
                "wall_s": round(wall, 2),
                "violations": len(violations),
            }
            (ROOT / "evidence").mkdir(exist_ok=True)
            json.dump(evidence, open(ROOT / "evidence" / f"{pid}.json", "w"), indent=1)

        print(
            f"{pid} tier={tier} seed={seed} cases={done_cases} evaluations={total.evals} "
            f"distinct_nontrivial={nontrivial} refused={total.refused} wall={wall:.1f}s"
        )
        for k in sorted(total.counters):
            if not k.startswith("witness:"):
                print(f"  {k}={total.counters[k]}")
        for mech, ws in sorted(known_hits.items()):
            print(f"KNOWN-FINDING: property={pid} {mech} ({len(ws)} witnesses) — {known[mech].get('summary','')}")
        for m, path in replay_paths:
            print(f"VIOLATION property={pid} replay={path} mechanism={m}")
        if violations and not replay_paths:
            print(f"VIOLATION property={pid} replay=none")
        if violations:
            return 1
        if replay or only is not None:
            return 0
        if inconclusive or nontrivial < 2:
            for msg in inconclusive:
                print(f"INCONCLUSIVE property={pid} {msg}")
            if nontrivial < 2:
                print(f"INCONCLUSIVE property={pid} fewer than 2 distinct non-trivial cases")
            return 2
        return 0
    finally:
        for p, *_ in procs:
            if p.poll() is None:
                p.kill()
        shutil.rmtree(work, ignore_errors=True)


def main(argv=None):
    import argparse

    ap = argparse.ArgumentParser(prog="check")
    ap.add_argument("property")
    ap.add_argument("--tier", default=os.environ.get("VERIF_TIER", "quick"), choices=["quick", "thorough"])
    ap.add_argument("--seed", default=os.environ.get("VERIF_SEED", "0"))
    ap.add_argument("--jobs", type=int, default=None)
    ap.add_argument("--replay", default=None)
    ap.add_argument("--only", default=None, help="comma-separated case indices (debug)")
    a = ap.parse_args(argv)
    try:
        seed = int(a.seed)
    except ValueError:
        seed = int(hashlib.sha1(a.seed.encode()).hexdigest()[:8], 16)
    only = [int(x) for x in a.only.split(",")] if a.only else None
    return run_check(a.property.lower(), a.tier, seed, a.jobs, a.replay, only)
