"""Fault injectors that enumerate every file-system boundary of one operation.

Used by the C19 monitor, reusable for anything that can be expressed as an *op*:

    op.dest            name of the destination file inside the case directory
    op.setup(dirpath)  harness-side preparation (plain Python), e.g. writing the prior content
    op.run(dirpath)    the single call into the code under test

This module is a *driver*: `python -m vmon.faults spec.json out.json` imports `spec["module"]`, asks it for
`make_op(desc)` for every entry of `spec["ops"]`, and for each op

  * runs it once un-faulted in a forked child while recording the ordered list of file-system boundaries
    (audit events, or system calls seen by an attached strace),
  * then once per (boundary k, fault) in a fresh forked child: either an OSError(errno) is delivered at boundary k
    or the process dies there (os._exit(137) from the audit hook / SIGKILL from strace),
  * and after every run records what is left in the case directory (every entry, every file's bytes).

It only records.  Deciding (old/new/partial, stray entries) is the monitor's job.

Every run happens in its own process (os.fork of the driver, which has the library imported and the objects built):
audit hooks cannot be removed, so a hook is only ever installed in a child that exits after one run.
strace is attached to the already forked child (`strace -p`), so the per-process `when=` counter starts at the
operation and the driver itself is never traced.
"""

from __future__ import annotations

import base64
import errno as _errno
import importlib
import json
import os
import re
import shutil
import signal
import subprocess
import sys
import tempfile
import time

# audit events that are file-system call boundaries
FS_EVENTS = {
    "open", "os.mkdir", "os.rmdir", "os.remove", "os.rename", "os.link", "os.symlink", "os.truncate", "os.chmod",
    "os.chown", "os.scandir", "os.listdir", "os.utime", "os.mkfifo", "tempfile.mkdtemp", "tempfile.mkstemp",
    "shutil.rmtree", "shutil.move", "shutil.copyfile", "shutil.copymode", "shutil.copystat", "shutil.copytree",
    "shutil.make_archive", "shutil.unpack_archive", "glob.glob", "glob.glob/2", "pathlib.Path.glob",
}  # fmt: skip

# system calls numbered / injected by the strace injector
SYSCALLS = [
    "openat", "open", "creat", "write", "writev", "pwrite64", "close", "unlink", "unlinkat", "rename", "renameat",
    "renameat2", "mkdir", "mkdirat", "rmdir", "ftruncate", "truncate", "link", "linkat", "symlink", "symlinkat",
    "sendfile", "copy_file_range", "pwritev", "pwritev2", "fallocate", "fsync", "fdatasync", "chmod", "fchmod",
    "fchmodat",
]  # fmt: skip
SENTINEL_CALLS = ["access", "faccessat", "faccessat2"]
SENT_BEGIN = "/vmon-sentinel-begin"
SENT_END = "/vmon-sentinel-end"
CHILD_ALARM = 30


# ---------------------------------------------------------------------------
# observation


class Blobs:
    """distinct byte strings, referenced by index (keeps the JSON small)"""

    def __init__(self):
        self.index = {}
        self.items = []

    def add(self, b):
        if b not in self.index:
            self.index[b] = len(self.items)
            self.items.append(base64.b64encode(b).decode("ascii"))
        return self.index[b]


def snapshot(root, blobs):
    """every entry below root: relative path -> 'd' | blob index | 'unreadable'"""
    out = {}
    for dirpath, dirnames, filenames in os.walk(root):
        rel = os.path.relpath(dirpath, root)
        for d in dirnames:
            out[os.path.normpath(os.path.join(rel, d))] = "d"
        for f in filenames:
            p = os.path.join(dirpath, f)
            key = os.path.normpath(os.path.join(rel, f))
            try:
                with open(p, "rb") as fh:
                    out[key] = blobs.add(fh.read())
            except OSError:
                out[key] = "unreadable"
    return out


def _arg_summary(a):
    if isinstance(a, bytes):
        try:
            a = a.decode()
        except UnicodeDecodeError:
            return repr(a)[:80]
    if isinstance(a, os.PathLike):
        a = os.fspath(a)
        if isinstance(a, bytes):
            a = a.decode(errors="replace")
    if isinstance(a, (str, int)) or a is None:
        return a
    return repr(a)[:80]


def _event_in_scope(args, root):
    """boundaries that concern the case directory: absolute paths inside it, names relative to a dir fd, fds"""
    if not args:
        return True
    a = _arg_summary(args[0])
    if isinstance(a, str) and os.path.isabs(a):
        return a == root or a.startswith(root + os.sep)
    return True


# ---------------------------------------------------------------------------
# one run in a forked child


def _send(fd, obj):
    data = json.dumps(obj).encode()
    view = memoryview(data)
    while view:
        n = os.write(fd, view)
        view = view[n:]


def _describe_exc(e):
    tb = e.__traceback__
    origin = None
    while tb is not None:
        fn = tb.tb_frame.f_code.co_filename
        if "/cogent3/" in fn and "/vmon/" not in fn:
            origin = f"{os.path.basename(fn)}:{tb.tb_frame.f_code.co_name}"
        tb = tb.tb_next
    return {
        "type": type(e).__name__,
        "msg": str(e)[:300],
        "errno": getattr(e, "errno", None),
        "is_oserror": isinstance(e, OSError),
        "origin": origin,
    }


def _wait(pid):
    _, status = os.waitpid(pid, 0)
    if os.WIFSIGNALED(status):
        return {"signal": os.WTERMSIG(status)}
    return {"exit": os.WEXITSTATUS(status)}


def _read_all(fd):
    chunks = []
    while True:
        b = os.read(fd, 65536)
        if not b:
            break
        chunks.append(b)
    os.close(fd)
    raw = b"".join(chunks)
    if not raw:
        return None
    try:
        return json.loads(raw)
    except json.JSONDecodeError:
        return {"garbled": raw[:200].decode(errors="replace")}


def audit_run(op, root, k=None, fault=None, k2=None, fault2=None):
    """run op in a forked child with an audit hook that numbers the FS events of the call and faults event k.

    fault: None (record only) | "kill" | errno name.  Returns {"status", "report"}; report is None when the
    child died before reporting (the kill case)."""
    r, w = os.pipe()
    sys.stdout.flush()
    sys.stderr.flush()
    pid = os.fork()
    if pid == 0:
        code = 70
        try:
            os.close(r)
            signal.alarm(CHILD_ALARM)
            os.chdir("/")
            st = {"on": False, "n": 0, "events": [], "delivered": False, "delivered2": False, "other": 0}
            err = getattr(_errno, fault) if fault not in (None, "kill") else None
            err2 = getattr(_errno, fault2) if fault2 not in (None, "kill") else None

            def hook(event, args):
                if not st["on"]:
                    return
                if event not in FS_EVENTS:
                    return
                if not _event_in_scope(args, root):
                    st["other"] += 1
                    return
                st["n"] += 1
                st["events"].append([event] + [_arg_summary(a) for a in args[:4]])
                if st["n"] == k and not st["delivered"]:
                    st["delivered"] = True
                    if fault == "kill":
                        os._exit(137)
                    raise OSError(err, os.strerror(err) + " (injected)")
                if k2 is not None and st["n"] == k2 and not st["delivered2"]:
                    # second fault of a two-fault sequence
                    st["delivered2"] = True
                    if fault2 == "kill":
                        os._exit(137)
                    raise OSError(err2, os.strerror(err2) + " (injected, second)")

            sys.addaudithook(hook)
            rep = {"returned": False, "exc": None}
            st["on"] = True
            try:
                op.run(root)
                st["on"] = False
                rep["returned"] = True
            except BaseException as e:  # noqa: BLE001
                st["on"] = False
                rep["exc"] = _describe_exc(e)
            rep.update(events=st["events"], delivered=st["delivered"], delivered2=st["delivered2"], outside=st["other"])
            _send(w, rep)
            code = 0
        except BaseException:  # noqa: BLE001
            import traceback

            try:
                os.write(2, traceback.format_exc().encode())
            except OSError:
                pass
        finally:
            os._exit(code)
    os.close(w)
    report = _read_all(r)
    status = _wait(pid)
    return {"status": status, "report": report}


# ---------------------------------------------------------------------------
# strace

_LINE = re.compile(r"^(?:\d+\s+)?(\w+)\((.*)\)\s+=\s+(-?\d+|\?)(.*)$")
_STR = re.compile(r'"((?:[^"\\]|\\.)*)"')


def parse_trace(text):
    """[(syscall, args text, return text, rest)] for completed lines; plus flags"""
    calls = []
    killed = False
    for line in text.splitlines():
        if line.startswith("+++") or " +++ " in line or "+++ killed" in line:
            if "killed by" in line:
                killed = True
            continue
        if "--- SIG" in line:
            continue
        m = _LINE.match(line.strip())
        if not m:
            continue
        calls.append([m.group(1), m.group(2), m.group(3), m.group(4).strip()])
    return calls, killed


def _paths(argtext):
    return [s.encode().decode("unicode_escape", errors="replace") for s in _STR.findall(argtext)]


def bracketed(calls):
    """the calls between the two sentinels (None if a sentinel is missing), and how many traced calls preceded"""
    b = e = None
    for i, c in enumerate(calls):
        if c[0] in SENTINEL_CALLS:
            if SENT_BEGIN in c[1] and b is None:
                b = i
            elif SENT_END in c[1]:
                e = i
    if b is None:
        return None, None
    inner = [c for c in calls[b + 1 : e] if c[0] not in SENTINEL_CALLS]
    before = [c for c in calls[:b] if c[0] not in SENTINEL_CALLS]
    return inner, len(before)


def strace_run(op, root, inject=None, tracefile=None):
    """run op in a forked child to which strace is attached before the call starts.

    inject: strace inject expression without the 'inject=' prefix, e.g. 'write:error=EIO:when=2'."""
    go_r, go_w = os.pipe()
    rdy_r, rdy_w = os.pipe()
    r, w = os.pipe()
    sys.stdout.flush()
    sys.stderr.flush()
    pid = os.fork()
    if pid == 0:
        code = 70
        try:
            os.close(go_w)
            os.close(r)
            os.close(rdy_r)
            signal.alarm(CHILD_ALARM)
            os.chdir("/")
            # everything the child does outside the call is done; only now may the tracer attach
            os.write(rdy_w, b"r")
            os.read(go_r, 1)
            rep = {"returned": False, "exc": None}
            os.access(SENT_BEGIN, os.F_OK)
            try:
                op.run(root)
                os.access(SENT_END, os.F_OK)
                rep["returned"] = True
            except BaseException as e:  # noqa: BLE001
                os.access(SENT_END, os.F_OK)
                rep["exc"] = _describe_exc(e)
            try:
                _send(w, rep)
            except OSError:
                pass
            code = 0
        finally:
            os._exit(code)
    os.close(go_r)
    os.close(w)
    os.close(rdy_w)
    os.read(rdy_r, 1)
    os.close(rdy_r)
    args = ["strace", "-p", str(pid), "-o", tracefile, "-s", "64", "-e", "trace=" + ",".join("?" + c for c in SYSCALLS + SENTINEL_CALLS)]
    for spec in [inject] if isinstance(inject, str) else (inject or []):
        args += ["-e", "inject=" + spec]
    st = subprocess.Popen(args, stdout=subprocess.DEVNULL, stderr=subprocess.PIPE)
    # strace prints "Process N attached" once it has seized AND interrupted the tracee; the child is blocked in
    # read(), so from then on it cannot execute a system call unobserved.  (TracerPid alone flips at the seize.)
    import select

    attached = False
    msg = b""
    t0 = time.monotonic()
    while time.monotonic() - t0 < 20 and not attached:
        ready, _, _ = select.select([st.stderr], [], [], 0.05)
        if ready:
            chunk = os.read(st.stderr.fileno(), 4096)
            if not chunk:
                break
            msg += chunk
            if b"attached" in msg:
                try:
                    with open(f"/proc/{pid}/status") as fh:
                        m = re.search(r"^TracerPid:\s+(\d+)", fh.read(), re.M)
                    attached = bool(m and m.group(1) != "0")
                except OSError:
                    attached = False
                if not attached:
                    break
        elif st.poll() is not None:
            break
    if not attached:
        os.kill(pid, signal.SIGKILL)
        os.close(go_w)
        _read_all(r)
        _wait(pid)
        try:
            st.kill()
        except OSError:
            pass
        err = msg + (st.communicate()[1] or b"")
        return {"status": None, "report": None, "attach_failed": err.decode(errors="replace")[-300:] or "no attach message"}
    os.write(go_w, b"g")
    os.close(go_w)
    report = _read_all(r)
    status = _wait(pid)
    try:
        st.wait(timeout=20)
    except subprocess.TimeoutExpired:
        st.kill()
        st.wait()
    st.stderr.close()
    with open(tracefile, errors="replace") as fh:
        text = fh.read()
    calls, killed = parse_trace(text)
    return {"status": status, "report": report, "calls": calls, "killed": killed}


# ---------------------------------------------------------------------------
# enumeration of one op


def _fresh(base, op):
    d = tempfile.mkdtemp(dir=base, prefix="case-")
    op.setup(d)
    return d


def enumerate_audit(op, base, faults, blobs, max_boundaries=400, only=None, two_fault=None):
    out = {"injector": "audit", "runs": []}
    d = _fresh(base, op)
    before = snapshot(d, blobs)
    clean = audit_run(op, d)
    out["before"] = before
    rep = clean["report"]
    if rep and rep.get("events"):
        rep["events"] = [[a.replace(d, "<DIR>") if isinstance(a, str) else a for a in ev] for ev in rep["events"]]
    out["clean"] = {"status": clean["status"], "report": rep, "after": snapshot(d, blobs)}
    shutil.rmtree(d, ignore_errors=True)
    if not rep or not rep.get("returned"):
        return out
    n = len(rep["events"])
    out["boundaries"] = n
    for k in range(1, min(n, max_boundaries) + 1):
        for fault in faults:
            if only and [k, fault] != list(only):
                continue
            d = _fresh(base, op)
            res = audit_run(op, d, k=k, fault=fault)
            out["runs"].append(
                {"k": k, "fault": fault, "status": res["status"], "report": _slim(res["report"]), "after": snapshot(d, blobs)}
            )
            shutil.rmtree(d, ignore_errors=True)
    if two_fault and not only:
        out["two_fault"] = two_fault_audit(op, base, rep["events"], two_fault, faults, blobs)
    return out


def audit_commit(events, root, dest):
    """1-based number of the last event that renames / links / moves something onto the destination"""
    dpath = os.path.join(root, dest)
    c = None
    for i, ev in enumerate(events):
        if ev[0] in ("os.rename", "os.link", "shutil.move") and len(ev) > 2 and ev[2] in (dpath, "<DIR>/" + dest):
            c = i + 1
    return c


def strace_commit(calls, root, dest):
    """0-based position of the last rename*/link* call whose target is the destination"""
    c = None
    for i, call in enumerate(calls):
        if call[0] in ("rename", "renameat", "renameat2", "link", "linkat"):
            paths = _paths(call[1])
            if paths and paths[-1] in (os.path.join(root, dest), "<DIR>/" + dest):
                c = i
    return c


def two_fault_audit(op, base, clean_events, first_errnos, faults, blobs):
    """first fault: OSError at the commit boundary; second fault: at every boundary that follows in *that* run"""
    out = []
    c = audit_commit(clean_events, "<DIR>", op.dest)
    if c is None:
        return out
    for e1 in first_errnos:
        d = _fresh(base, op)
        rec = audit_run(op, d, k=c, fault=e1)
        rep = rec["report"]
        block = {"first": [c, e1], "record": {"status": rec["status"], "report": rep, "after": snapshot(d, blobs)}, "runs": []}
        if rep and rep.get("events"):
            rep["events"] = [[a.replace(d, "<DIR>") if isinstance(a, str) else a for a in ev] for ev in rep["events"]]
        shutil.rmtree(d, ignore_errors=True)
        out.append(block)
        if not rep or not rep.get("delivered"):
            continue
        n1 = len(rep["events"])
        block["boundaries"] = n1 - c
        for k2 in range(c + 1, n1 + 1):
            for f2 in faults:
                d = _fresh(base, op)
                res = audit_run(op, d, k=c, fault=e1, k2=k2, fault2=f2)
                block["runs"].append({"k2": k2, "fault2": f2, "status": res["status"], "report": _slim(res["report"]), "after": snapshot(d, blobs)})
                shutil.rmtree(d, ignore_errors=True)
    return out


def two_fault_strace(op, base, clean_calls, first_errnos, faults, blobs, tracefile):
    out = []
    c = strace_commit(clean_calls, "<DIR>", op.dest)
    if c is None:
        return out
    cname = clean_calls[c][0]
    cnth = sum(1 for x in clean_calls[: c + 1] if x[0] == cname)
    for e1 in first_errnos:
        spec1 = f"{cname}:error={e1}:when={cnth}"
        rec = inner1 = None
        for _attempt in range(3):
            d = _fresh(base, op)
            rec = strace_run(op, d, inject=spec1, tracefile=tracefile)
            if rec.get("attach_failed") is None:
                inner1, early = bracketed(rec["calls"])
                inj = [i for i, c2 in enumerate(inner1 or []) if "(INJECTED)" in c2[3]]
                if inner1 is not None and not early and inj == [c]:
                    break
            inner1 = None
            shutil.rmtree(d, ignore_errors=True)
        block = {"first": [c + 1, e1], "runs": []}
        out.append(block)
        if inner1 is None:
            block["record_failed"] = True
            continue
        block["record"] = {
            "status": rec["status"],
            "report": rec["report"],
            "after": snapshot(d, blobs),
            "calls": [[x[0], x[1].replace(d, "<DIR>"), x[2]] for x in inner1],
        }
        shutil.rmtree(d, ignore_errors=True)
        block["boundaries"] = len(inner1) - (c + 1)
        seen = {}
        for pos, call in enumerate(inner1):
            name = call[0]
            seen[name] = seen.get(name, 0) + 1
            if pos <= c:
                continue
            for f2 in faults:
                if name == cname:
                    # one strace expression per system call name: cannot fault the same call twice differently
                    block["runs"].append({"pos2": pos, "syscall": name, "fault2": f2, "skipped": "same-syscall-as-first-fault"})
                    continue
                spec2 = f"{name}:signal=KILL:when={seen[name]}" if f2 == "kill" else f"{name}:error={f2}:when={seen[name]}"
                run = None
                for _attempt in range(3):
                    d = _fresh(base, op)
                    res = strace_run(op, d, inject=[spec1, spec2], tracefile=tracefile)
                    run = {"pos2": pos, "syscall": name, "nth": seen[name], "fault2": f2, "status": res["status"], "report": res["report"], "attempts": _attempt + 1}
                    if res.get("attach_failed") is not None:
                        run["attach_failed"] = res["attach_failed"]
                        shutil.rmtree(d, ignore_errors=True)
                        continue
                    got, early = bracketed(res["calls"])
                    run["injected_at"] = [i for i, c2 in enumerate(got or []) if "(INJECTED)" in c2[3]]
                    run["killed"] = res["killed"]
                    run["prefix_same"] = got is not None and [c2[0] for c2 in got[:pos]] == [c2[0] for c2 in inner1[:pos]]
                    want = [c] if f2 == "kill" else [c, pos]
                    consistent = run["prefix_same"] and not early and run["injected_at"] == want and (run["killed"] or f2 != "kill")
                    run["consistent"] = bool(consistent)
                    if consistent or _attempt == 2:
                        break
                    shutil.rmtree(d, ignore_errors=True)
                if run.get("attach_failed") is None:
                    run["after"] = snapshot(d, blobs)
                    shutil.rmtree(d, ignore_errors=True)
                block["runs"].append(run)
    return out


def _slim(rep):
    """the injected runs need the outcome, not the full event list again (kept: the events from the fault on)"""
    if not rep:
        return rep
    rep = dict(rep)
    ev = rep.pop("events", None)
    if ev is not None:
        rep["n_events"] = len(ev)
    return rep


def enumerate_strace(op, base, faults, blobs, max_boundaries=400, only=None, two_fault=None):
    out = {"injector": "strace", "runs": []}
    tracefile = os.path.join(base, "trace.out")
    d = _fresh(base, op)
    before = snapshot(d, blobs)
    clean = strace_run(op, d, tracefile=tracefile)
    out["before"] = before
    out["root"] = None
    inner, n_before = (None, None)
    if clean.get("calls") is not None:
        inner, n_before = bracketed(clean["calls"])
    out["clean"] = {
        "status": clean["status"],
        "report": clean["report"],
        "after": snapshot(d, blobs),
        "calls": [[c[0], c[1].replace(d, "<DIR>"), c[2]] for c in inner] if inner is not None else None,
        "calls_before_sentinel": n_before,
        "attach_failed": clean.get("attach_failed"),
    }
    shutil.rmtree(d, ignore_errors=True)
    rep = clean["report"]
    if inner is None or not rep or not rep.get("returned") or n_before:
        return out
    out["boundaries"] = len(inner)
    seen = {}
    for pos, c in enumerate(inner[:max_boundaries]):
        name = c[0]
        seen[name] = seen.get(name, 0) + 1
        nth = seen[name]
        for fault in faults:
            if only and [pos + 1, fault] != list(only):
                continue
            spec = f"{name}:signal=KILL:when={nth}" if fault == "kill" else f"{name}:error={fault}:when={nth}"
            run = None
            for _attempt in range(3):
                d = _fresh(base, op)
                res = strace_run(op, d, inject=spec, tracefile=tracefile)
                run = {"pos": pos, "syscall": name, "nth": nth, "fault": fault, "status": res["status"], "report": res["report"], "attempts": _attempt + 1}
                if res.get("attach_failed") is not None:
                    run["attach_failed"] = res["attach_failed"]
                    shutil.rmtree(d, ignore_errors=True)
                    continue
                got, n_early = bracketed(res["calls"])
                run["calls_before_sentinel"] = n_early
                run["injected_at"] = [i for i, c2 in enumerate(got or []) if "(INJECTED)" in c2[3]]
                run["killed"] = res["killed"]
                run["n_calls"] = len(got) if got is not None else None
                run["prefix_same"] = got is not None and [c2[0] for c2 in got[:pos]] == [c2[0] for c2 in inner[:pos]]
                consistent = run["prefix_same"] and not n_early and (run["killed"] if fault == "kill" else run["injected_at"] == [pos])
                if consistent or _attempt == 2:
                    break
                shutil.rmtree(d, ignore_errors=True)
            if run.get("attach_failed") is not None:
                out["runs"].append(run)
                continue
            run["after"] = snapshot(d, blobs)
            out["runs"].append(run)
            shutil.rmtree(d, ignore_errors=True)
    if two_fault and not only:
        out["two_fault"] = two_fault_strace(op, base, out["clean"]["calls"], two_fault, faults, blobs, tracefile)
    try:
        os.remove(tracefile)
    except OSError:
        pass
    return out


def plain_run(op, base, blobs):
    """un-faulted run of an op that is expected to fail by itself (formatting failure): before/after only"""
    d = _fresh(base, op)
    before = snapshot(d, blobs)
    res = audit_run(op, d)
    out = {"injector": "none", "runs": [], "before": before, "clean": {"status": res["status"], "report": _slim(res["report"]), "after": snapshot(d, blobs)}}
    shutil.rmtree(d, ignore_errors=True)
    return out


def main(argv):
    import warnings

    warnings.filterwarnings("ignore")
    spec = json.load(open(argv[0]))
    mod = importlib.import_module(spec["module"])
    base = tempfile.mkdtemp(dir=os.getcwd(), prefix="faults-")
    blobs = Blobs()
    results = []
    try:
        for desc in spec["ops"]:
            op = mod.make_op(desc)
            if desc.get("warm", True):
                # lazy imports etc. happen here, not inside a numbered run
                d = _fresh(base, op)
                try:
                    op.run(d)
                except Exception:  # noqa: BLE001
                    pass
                shutil.rmtree(d, ignore_errors=True)
            inj = desc.get("injector", "audit")
            if inj == "audit":
                r = enumerate_audit(op, base, desc["faults"], blobs, only=desc.get("only"), two_fault=desc.get("two_fault"))
            elif inj == "strace":
                r = enumerate_strace(op, base, desc["faults"], blobs, only=desc.get("only"), two_fault=desc.get("two_fault"))
            else:
                r = plain_run(op, base, blobs)
            r["desc"] = desc
            r["dest"] = op.dest
            results.append(r)
    finally:
        shutil.rmtree(base, ignore_errors=True)
    json.dump({"results": results, "blobs": blobs.items}, open(argv[1], "w"))
    return 0


if __name__ == "__main__":
    sys.exit(main(sys.argv[1:]))
