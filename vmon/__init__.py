"""vmon — runtime monitors for cogent3 (see /verif/DESIGN.md)."""
