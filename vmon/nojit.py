"""Helper process for the NUMBA_DISABLE_JIT differential: evaluates likelihood problems with the numba kernels running
as plain Python (bounds-checked, arbitrary-precision integers) and prints the results as JSON.
usage (env NUMBA_DISABLE_JIT=1): python -m vmon.nojit problems.json out.json"""
import json
import sys
import warnings

warnings.filterwarnings("ignore")


def main():
    import numpy as np

    from vmon.models import lfmodel as M

    probs = json.load(open(sys.argv[1]))
    out = []
    for p in probs:
        try:
            lf = M.build_lf(p)
            out.append({"lnL": float(lf.lnL), "cols": [float(x) for x in np.asarray(lf.get_full_length_likelihoods(), dtype=float)]})
        except Exception as e:  # noqa: BLE001
            out.append({"error": repr(e)[:300]})
    json.dump(out, open(sys.argv[2], "w"))


if __name__ == "__main__":
    main()
