"""C07 — incrementally recalculated likelihoods equal a fresh calculation.

Two monitors:

H  invariant at a quiescent point: `Calculator.change` is wrapped from the harness (no edit of /repo). After every
   change the wrapper re-evaluates every cell from scratch from the calculator's *current* inputs (private copies for
   recycled buffers) and compares the returned value and every intermediate array with what the double-buffer /
   one-deep-undo / recycle logic left in the active buffer.  It also decides the exception path (state restored).
B  boundary: after every step of a history of rule / scope / motif-prob / alignment changes (incl. postponed blocks)
   the live lnL is compared with (1) a new function built from the values the live one reports and (2) a new function
   given `get_param_rules()`, which must also reproduce the number of free parameters.
"""

import copy
import math
import random

import numpy as np

from vmon.core import Result, exc_mechanism
from vmon.models import lfmodel as M

ID = "C07"
LEVEL = "exploration"
RULE = (
    "(B) seeded histories of 3-25 steps over HKY85/GTR/TN93/GN/MG94HKY (+gamma bins) of set_param_rule "
    "(init/value+is_constant/is_independent/edge subsets/clade scopes/bounds), set_motif_probs, set_alignment, "
    "updates_postponed blocks; after every step live lnL vs fresh function from reported values and vs "
    "apply_param_rules(get_param_rules()) incl. nfp. (H) calculator change-vectors: single, multiple, A-B-revertB-A, "
    "exact reverts (undo branch), partial reverts (no undo), values at bounds, injected ParameterOutOfBounds/"
    "ArithmeticError at a random cell (exception path), with_undo on/off, and real optimise() runs (Powell, simulated "
    "annealing) whose every evaluation passes the wrapper; each change is shadow-evaluated from scratch. Non-trivial = "
    "history with a scope change, a postponed block or an undo-branch hit; distinct = (model, kinds of the last 4 "
    "operations / change-key pattern, undo taken?)."
)
LEVEL_TEXT = (
    "Every evaluation any optimiser or history makes is checked against a from-scratch evaluation at the point where "
    "the calculator is quiescent, so the caching logic is decided directly rather than through end results. Sampled "
    "histories; held = held on the changes counted in the evidence."
    " Histories include refused calls, batches that end in a refusal followed by the repair, a second likelihood function worked on inside the first one's batches, and functions queried before their alignment was given."
    " Tied edges are also re-grouped inside one batch."
)
LEVEL_NOTE = "trusted: the cells' own calc functions (C02/C05 decide those); the wrapper only reads calculator state and works on copies"
TECHNIQUE = "runtime monitoring: invariant at a wrapped quiescent point (shadow re-evaluation of Calculator.change) + history vs fresh-object comparison"
ASSUMPTIONS = ["shadow evaluation never mutates calculator buffers (private copies of recycled arrays)", "identical arithmetic => rtol 1e-10"]
ENV = {"NUMBA_BOUNDSCHECK": "1"}
TIMEOUT = {"quick": 1200, "thorough": 7200}

MODELS = ["HKY85", "GTR", "TN93", "GN", "MG94HKY"]

# ---------------------------------------------------------------------------
# H: the wrapper

_STATE = {"res": None, "installed": False, "orig": None, "ctx": None, "inject": None}
_ORIG_CALC = {}  # id(cell) -> real calc while a fault is injected (cells use __slots__)


def shadow_values(calc):
    """evaluate every cell from scratch from the current inputs; returns list by rank"""
    from cogent3.recalculation.calculation import ConstCell, OptPar

    cur = calc.cell_values[calc._switch]
    fresh = [None] * len(cur)
    for cell in calc._cells:
        r = cell.rank
        if isinstance(cell, (OptPar, ConstCell)):
            fresh[r] = cur[r]
            continue
        args = []
        for a in cell.arg_ranks:
            if a == r:  # recycled: gets its own previous output as first argument; give it a private copy
                v = cur[r]
                args.append(v.copy() if hasattr(v, "copy") else copy.deepcopy(v))
            else:
                args.append(fresh[a])
        calcf = _ORIG_CALC.get(id(cell), cell.calc)
        fresh[r] = calcf(*args)
    return fresh


def _same(a, b):
    if isinstance(a, np.ndarray) and isinstance(b, np.ndarray):
        if a.shape != b.shape:
            return False
        if a.dtype.kind not in "fiuc":
            return True
        with np.errstate(all="ignore"):
            return bool(np.all((a == b) | np.isclose(a, b, rtol=1e-10, atol=0) | (np.isnan(a) & np.isnan(b))))
    if isinstance(a, float) and isinstance(b, float):
        return a == b or math.isclose(a, b, rel_tol=1e-10) or (math.isnan(a) and math.isnan(b))
    return True  # opaque objects (exponentiators, leaves) are not compared


def monitored_change(self, changes):
    res = _STATE["res"]
    orig = _STATE["orig"]
    if res is None:
        return orig(self, changes)
    changes = list(changes)
    undo_expected = bool(self.with_undo and self.last_undo and all(ch in changes for ch in self.last_undo))
    before_vals = list(self.last_values)
    before_out = self.cell_values[self._switch][-1]
    before_switch = self._switch
    ctx = _STATE["ctx"] or {}
    try:
        out = orig(self, changes)
    except Exception as e:  # noqa: BLE001 - the exception path: state must be as before the call
        res.evals += 1
        res.count("change:exception-path")
        ok = list(self.last_values) == before_vals and self._switch == before_switch
        now = self.cell_values[self._switch][-1]
        if not ok or not _same(now, before_out):
            res.witness("C07/calculator/state-not-restored-after-interrupted-change", error=repr(e)[:200], ctx=ctx, changes=changes[:6])
        else:
            try:
                fr = shadow_values(self)
                if not _same(fr[-1], now):
                    res.witness("C07/calculator/stale-value-after-interrupted-change", ctx=ctx, got=now, fresh=fr[-1])
            except Exception:  # noqa: BLE001
                pass
        raise
    res.evals += 1
    res.count("change:evaluated")
    res.count("change:undo-branch" if undo_expected else "change:no-undo-branch")
    if not self.with_undo:
        res.count("change:without-undo-buffer")
    try:
        fr = shadow_values(self)
    except Exception as e:  # noqa: BLE001
        # the real evaluation succeeded but a from-scratch evaluation of the same inputs fails
        res.witness("C07/calculator/from-scratch-evaluation-raises", error=repr(e)[:200], ctx=ctx)
        return out
    pattern = (len(changes), undo_expected, bool(self.with_undo))
    if not _same(fr[-1], out):
        res.witness(
            f"C07/calculator/returned-value-differs-from-fresh/{'undo-branch' if undo_expected else 'no-undo'}",
            got=out, fresh=fr[-1], nchanges=len(changes), ctx=ctx,
        )
    else:
        cur = self.cell_values[self._switch]
        for cell in self._cells:
            r = cell.rank
            if not _same(cur[r], fr[r]):
                res.witness(
                    f"C07/calculator/intermediate-cell-stale/{'undo-branch' if undo_expected else 'no-undo'}",
                    cell=getattr(cell, "name", "?"), recycled=bool(getattr(cell, "recycled", False)), ctx=ctx,
                )
                break
    if undo_expected or len(changes) > 1:
        res.sig(ctx.get("model", "?"), "calc", *pattern, ctx.get("driver", "?"))
    return out


def install(res, ctx):
    from cogent3.recalculation.calculation import Calculator

    if not _STATE["installed"]:
        _STATE["orig"] = Calculator.change
        Calculator.change = monitored_change
        _STATE["installed"] = True
    _STATE["res"] = res
    _STATE["ctx"] = ctx


def uninstall():
    _STATE["res"] = None


# ---------------------------------------------------------------------------
# workload


def gen_cases(rng, tier):
    cases = []
    nh = 4 if tier == "quick" else 60
    nc = 3 if tier == "quick" else 60
    no = 2 if tier == "quick" else 16
    for model in MODELS:
        for _ in range(nh):
            cases.append({"kind": "history", "model": model, "seed": rng.randrange(2**32), "n": 1 if model == "MG94HKY" else 4})
        for ci in range(nc):
            # with_undo is fixed per case (not drawn), so the 'without undo buffer' class is reached on every seed
            cases.append({"kind": "calc", "model": model, "with_undo": ci != 1, "seed": rng.randrange(2**32), "steps": (40 if model == "MG94HKY" else 200) if tier == "quick" else (80 if model == "MG94HKY" else 300)})
        for _ in range(no):
            cases.append({"kind": "optimise", "model": model, "seed": rng.randrange(2**32)})
    return cases


def base_problem(rng, model, bins=1):
    big = M.kind_of(model) == "codon"
    prob = M.gen_problem(rng, model, ntips=rng.randint(3, 4 if big else 6), ncols=rng.randint(5, 10 if big else 40), ambig=rng.choice([0.0, 0.1]), scoped=False, bins=bins, zero_frac=0.0)
    for e in M.edges(prob["tree"]):
        e["length"] = round(rng.uniform(0.02, 0.8), 4)
    return prob


# ----- B: histories ---------------------------------------------------------


def read_settings(lf, prob):
    """problem spec from the values the live function REPORTS (per edge), for the fresh rebuild"""
    p = copy.deepcopy(prob)
    tree = p["tree"]
    names = [e["name"] for e in M.edges(tree)]
    for e in M.edges(tree):
        e["length"] = float(lf.get_param_value("length", edge=e["name"]))
    p["params"] = {}
    p["edge_params"] = {}
    bins = p.get("bins", 1)
    bnames = [f"bin{i}" for i in range(bins)] if bins > 1 else [None]
    for par in M.rate_param_names(p["model"]):
        vals = {}
        for nm in names:
            per_bin = []
            for b in bnames:
                kw = {"edge": nm}
                if b:
                    kw["bin"] = b
                try:
                    per_bin.append(float(lf.get_param_value(par, **kw)))
                except Exception:  # noqa: BLE001 - dimension not used by this parameter
                    kw.pop("bin", None)
                    try:
                        per_bin.append(float(lf.get_param_value(par, **kw)))
                    except Exception:  # noqa: BLE001
                        per_bin.append(float(lf.get_param_value(par)))
            if len(set(per_bin)) > 1:
                return None  # parameter differs between bins: outside what the rebuild helper can express
            vals[nm] = per_bin[0]
        p["params"][par] = vals[names[0]]
        p["edge_params"][par] = [[[nm], v] for nm, v in vals.items()]
    if M.mprob_kind(p["model"]) != "fixed-equal":
        mp = lf.get_motif_probs()
        p["mprobs"] = {str(k): float(mp[k]) for k in mp.keys()}
    if p.get("bins", 1) > 1:
        p["rate_shape"] = float(lf.get_param_value("rate_shape"))
    return p


def run_history(res, rng, model):
    from cogent3 import make_aligned_seqs

    bins = rng.choice([1, 1, 2, 3]) if M.kind_of(model) == "nuc" else 1
    prob = base_problem(rng, model, bins=bins)
    tree = prob["tree"]
    enames = [e["name"] for e in M.edges(tree)]
    tipn = M.tips(tree)
    pars = M.rate_param_names(model)
    ops_done = []
    history = []
    early = rng.random() < 0.3
    try:
        lf = M.build_lf(dict(prob, early_queries=True) if early else prob)
        if early:
            res.count("function-queried-before-alignment")
            history.append(["queried-before-alignment"])
    except Exception as e:  # noqa: BLE001
        res.evals += 1
        res.witness(exc_mechanism("C07/history/build", e), model=model)
        return
    install(res, {"model": model, "driver": "history"})
    nsteps = rng.randint(3, 25 if M.kind_of(model) == "nuc" else 8)
    known_bounds = {}
    tight_ever = set()
    # a second, unrelated likelihood function living in the same process: work on it (also while a batch of the first
    # is open, and the other way round) must not leak into the first
    other = None
    other_edges = []
    failed_before = False

    def use_other(op_rng):
        nonlocal other
        if other is None:
            oprob = base_problem(random.Random(op_rng.randrange(2**32)), "HKY85")
            other = M.build_lf(oprob)
            other_edges.extend(e["name"] for e in M.edges(oprob["tree"]))
        other.set_param_rule("kappa", init=round(op_rng.uniform(0.3, 6.0), 3))
        if op_rng.random() < 0.5:
            other.set_param_rule("length", edge=op_rng.choice(other_edges), init=round(op_rng.uniform(0.01, 1.0), 3))
        float(other.lnL)

    def bad_alignment(op_rng):
        """an alignment the function must refuse: an in-frame stop codon for codon models (refused when the leaf
        likelihoods are next computed), a non-nucleotide character otherwise (refused at once)"""
        d = {k: v for k, v in prob["aln"].items()}
        nm = op_rng.choice(sorted(d))
        if M.kind_of(model) == "codon":
            table = M.codon_table(prob.get("gc", 1))
            stop = sorted(c for c, a in table.items() if a == "*")[0]
            k = 3 * op_rng.randrange(len(d[nm]) // 3)
            d[nm] = d[nm][:k] + stop + d[nm][k + 3 :]
            return make_aligned_seqs(d, moltype="dna")
        k = op_rng.randrange(len(d[nm]))
        d[nm] = d[nm][:k] + "E" + d[nm][k + 1 :]
        return make_aligned_seqs(d, moltype="text")

    def failing_call(op_rng):
        """a call that is refused with an exception; returns its label (None if it was accepted)"""
        par = op_rng.choice(pars)
        calls = {
            "unknown-parameter": lambda: lf.set_param_rule("no_such_par", init=1.0),
            "unknown-edge": lambda: lf.set_param_rule(par, edge="no_such_edge", init=2.0),
            "unknown-psub-edge": lambda: lf.get_psub_for_edge("no_such_edge"),
            "unknown-locus": lambda: lf.reconstruct_ancestral_seqs(locus="no_such_locus"),
            "unknown-tip": lambda: lf.set_param_rule(par, tip_names=[tipn[0], "no_such_tip"], clade=True, init=2.0),
            "unknown-bin": lambda: lf.set_param_rule(par, bin="bin99", init=2.0),
            "mprobs-not-summing-to-one": lambda: lf.set_motif_probs({k: 0.5 for k in prob["mprobs"]}) if prob.get("mprobs") and "positions" not in prob["mprobs"] else (_ for _ in ()).throw(ValueError("n/a")),
            "alignment-with-other-names": lambda: lf.set_alignment(make_aligned_seqs({(k if i else "no_such_name"): v for i, (k, v) in enumerate(sorted(prob["aln"].items()))}, moltype="dna")),
        }
        label = op_rng.choice(sorted(calls))
        try:
            calls[label]()
        except Exception:  # noqa: BLE001 - the refusal is the expected outcome
            return label
        return None

    def one_op(op_rng):
        kind = op_rng.choice(["init", "init", "const", "indep", "edges", "clade", "bounds", "tight", "mprobs", "aln", "length", "unconst", "other"])
        if kind == "other":
            use_other(op_rng)
            return ("other",)
        par = op_rng.choice(pars)
        v = round(math.exp(op_rng.uniform(math.log(0.2), math.log(5))), 4)
        if kind == "init":
            lf.set_param_rule(par, init=v)
            return ("init", par, v)
        if kind == "const":
            lf.set_param_rule(par, is_constant=True, value=v)
            return ("const", par, v)
        if kind == "unconst":
            lf.set_param_rule(par, is_constant=False)
            return ("unconst", par)
        if kind == "indep":
            sub = op_rng.sample(enames, op_rng.randint(2, len(enames)))
            lf.set_param_rule(par, is_independent=True, edges=sub)
            return ("indep", par, sub)
        if kind == "edges":
            sub = op_rng.sample(enames, op_rng.randint(1, max(1, len(enames) - 1)))
            lf.set_param_rule(par, edges=sub, init=v, is_independent=op_rng.choice([None, False, True]))
            return ("edges", par, sub, v)
        if kind == "clade":
            if len(tipn) < 3:
                return None
            a, b = op_rng.sample(tipn, 2)
            out = op_rng.choice([t for t in tipn if t not in (a, b)])
            lf.set_param_rule(par, tip_names=[a, b], outgroup_name=out, clade=True, stem=op_rng.choice([False, True]), init=v)
            return ("clade", par, a, b, out, v)
        if kind == "bounds":
            lf.set_param_rule(par, lower=0.01, upper=50.0)
            return ("bounds", par)
        if kind == "tight":
            # an upper bound inside the range later inits are drawn from: a later init above it must be clipped to it
            # (and the exported rules must describe a function with the same likelihood)
            u = round(op_rng.uniform(1.2, 3.0), 3)
            lf.set_param_rule(par, upper=u)
            return ("tight", par, u)
        if kind == "mprobs":
            if M.mprob_kind(model) == "fixed-equal":
                return None
            keys = list(prob["mprobs"])
            vv = M.dirichlet(op_rng, len(keys), 0.05 if len(keys) <= 4 else 0.3)
            lf.set_motif_probs(dict(zip(keys, [float(x) for x in vv])))
            return ("mprobs",)
        if kind == "aln":
            ml = {"nuc": 1, "codon": 3}[M.kind_of(model)]
            newaln = M.random_alignment(op_rng, list(prob["aln"]), "codon" if ml == 3 else "nuc", op_rng.randint(3, 20 if ml == 1 else 8), op_rng.choice([0.0, 0.1]), motif_len=1, gc=prob.get("gc", 1))
            prob["aln"] = newaln
            lf.set_alignment(make_aligned_seqs(newaln, moltype="dna"))
            return ("aln", len(next(iter(newaln.values()))))
        if kind == "length":
            e = op_rng.choice(enames)
            t = 0.0 if op_rng.random() < 0.25 else round(op_rng.uniform(0.01, 1.2), 4)  # exact zero is in bounds
            lf.set_param_rule("length", edge=e, init=t)
            return ("length", e, t)
        return None

    for step in range(nsteps):
        u_ = rng.random()
        postponed = u_ < 0.25
        try:
            if 0.25 <= u_ < 0.33:
                # a refused call between steps: the function must be exactly what it was
                before_ = float(lf.lnL)
                label = failing_call(rng)
                if label is None:
                    continue
                after_ = float(lf.lnL)
                res.evals += 1
                res.count("refused-call:" + label)
                if not close(before_, after_, 1e-12):
                    res.witness(f"C07/history/refused-call-changed-lnL/{label}", model=model, before=before_, after=after_, history=history, base=prob_brief(prob))
                    break
                history.append(["refused-call", label])
                ops_done.append("refused-call")
            elif 0.33 <= u_ < 0.43:
                # a batch that ends in a refusal (bad alignment), then the repair: the settings accepted inside the
                # batch are in force and the function must be what a new one with those settings is
                failed_before = True
                done = []
                refused = False
                try:
                    with lf.updates_postponed():
                        done = [one_op(rng) for _ in range(rng.randint(1, 3))]
                        if rng.random() < 0.3:
                            use_other(rng)
                        if rng.random() < 0.5:
                            lf.set_alignment(bad_alignment(rng))  # refused when the batch is applied
                        else:  # refused at once, inside the batch
                            lf.set_alignment(make_aligned_seqs({(k if i else "no_such_name"): v for i, (k, v) in enumerate(sorted(prob["aln"].items()))}, moltype="dna"))
                except (ValueError, AssertionError):
                    refused = True
                if not refused:
                    res.count("bad-alignment-accepted")
                lf.set_alignment(make_aligned_seqs(prob["aln"], moltype="dna"))
                done = [d for d in done if d]
                history.append(["failed-batch", done])
                ops_done.append("failed-batch")
                res.count("failed-batch-then-repair")
            elif 0.43 <= u_ < 0.5:
                # batches of the two functions open at the same time
                use_other(rng)
                with lf.updates_postponed(), other.updates_postponed():
                    done = [one_op(rng) for _ in range(rng.randint(1, 3))]
                    other.set_param_rule("kappa", init=round(rng.uniform(0.3, 6.0), 3))
                float(other.lnL)
                done = [d for d in done if d]
                history.append(["postponed", done])
                ops_done.append("postponed")
                res.count("overlapping-batches-of-two-functions")
            elif 0.5 <= u_ < 0.6 and len(enames) >= 4:
                # re-grouping inside ONE batch that keeps the number of groups: tie a pair of edges, then in a single
                # batch untie it and tie a disjoint pair instead
                rpar = rng.choice(pars + ["length"])
                e4 = rng.sample(enames, 4)
                v1, v2 = round(rng.uniform(0.05, 0.9), 4), round(rng.uniform(0.05, 0.9), 4)
                lf.set_param_rule(rpar, edges=e4[:2], is_independent=False, init=v1)
                float(lf.lnL)
                with lf.updates_postponed():
                    lf.set_param_rule(rpar, edge=e4[0], init=round(rng.uniform(0.05, 0.9), 4))
                    lf.set_param_rule(rpar, edge=e4[1], init=round(rng.uniform(0.05, 0.9), 4))
                    lf.set_param_rule(rpar, edges=e4[2:], is_independent=False, init=v2)
                history.append(["regroup-in-batch", rpar, e4[:2], e4[2:]])
                ops_done.append("regroup-in-batch")
                known_bounds.pop(rpar, None)
                res.count("regroup-in-one-batch")
            elif postponed:
                with lf.updates_postponed():
                    done = [one_op(rng) for _ in range(rng.randint(2, 4))]
                done = [d for d in done if d]
                history.append(["postponed", done])
                ops_done.append("postponed")
            else:
                d = one_op(rng)
                if d is None:
                    continue
                history.append(list(d))
                ops_done.append(d[0])
        except Exception as e:  # noqa: BLE001
            res.evals += 1
            res.witness(exc_mechanism(f"C07/history/{ops_done[-1] if ops_done else 'op'}", e), model=model, history=history, error=repr(e)[:300], base=prob_brief(prob))
            break
        # a rule that names a value must be reflected by the value the function reports for that scope
        # bounds the harness knows for a parameter (same on every edge): set by 'bounds'/'tight', forgotten on any
        # scope-changing rule; once a tight bound was applied and then forgotten, values of that parameter are no
        # longer predicted (they may legitimately be clipped)
        for d_ in (history[-1][1] if history[-1][0] in ("postponed", "failed-batch") else [history[-1]]):
            if d_[0] == "bounds":
                known_bounds[d_[1]] = (0.01, 50.0)
            elif d_[0] == "tight":
                known_bounds[d_[1]] = (known_bounds.get(d_[1], (1e-6, 1e6))[0], d_[2])
                tight_ever.add(d_[1])
            elif d_[0] in ("indep", "edges", "clade", "unconst", "const") and len(d_) > 1:
                known_bounds.pop(d_[1], None)
        binding = {}  # (par, edge) -> (value, op kind); later rules override earlier ones, other rule kinds unbind
        for d_ in (history[-1][1] if history[-1][0] in ("postponed", "failed-batch") else [history[-1]]):
            if d_[0] == "length":
                binding[("length", d_[1])] = (d_[2], "length")
            elif d_[0] == "edges":
                for e_ in d_[2]:
                    binding[(d_[1], e_)] = (d_[3], "edges")
            elif d_[0] in ("init", "const"):
                for e_ in enames:
                    binding[(d_[1], e_)] = (d_[2], d_[0])
            elif len(d_) > 1:  # any other rule on that parameter (independent/clade/bounds/unconst) may move values
                for k_ in [k_ for k_ in binding if k_[0] == d_[1]]:
                    del binding[k_]
        for (par_, e_), (v_, kind_) in binding.items():
            if par_ in tight_ever and par_ not in known_bounds:
                continue
            if par_ in known_bounds and kind_ != "const":
                v_ = min(max(v_, known_bounds[par_][0]), known_bounds[par_][1])  # documented: values are clipped into bounds
            elif par_ in known_bounds:
                continue
            try:
                got_ = float(lf.get_param_value(par_, edge=e_))
            except Exception:  # noqa: BLE001 - value differs across bins/loci: not expressible by one scope
                continue
            res.evals += 1
            res.count("reported-value-checked")
            if abs(got_ - v_) > 1e-12 * max(1.0, abs(v_)):
                res.witness(f"C07/history/rule-value-not-applied/{kind_}" + ("/after-failed-batch" if failed_before else ""), model=model, par=par_, edge=e_, requested=v_, reported=got_, history=history, base=prob_brief(prob))
                break
        # observe + decide
        try:
            live = float(lf.lnL)
            nfp = lf.get_num_free_params()
            settings = read_settings(lf, prob)
            rules = lf.get_param_rules()
        except Exception as e:  # noqa: BLE001
            res.evals += 1
            res.witness(exc_mechanism("C07/history/observe", e), model=model, history=history, error=repr(e)[:300], base=prob_brief(prob))
            break
        last = history[-1][0]
        res.count("history-step")
        res.count("history-op:" + last)
        if settings is None:
            res.count("fresh-from-values-skipped(per-bin values)")
            fresh = live
        else:
            try:
                uninstall()
                fresh = float(M.build_lf(settings).lnL)
            finally:
                install(res, {"model": model, "driver": "history"})
            res.evals += 1
            res.count("fresh-from-reported-values")
        if not close(live, fresh):
            res.witness(f"C07/history/live-lnL-differs-from-fresh-function/after-{last}" + ("/after-failed-batch" if failed_before and last != "failed-batch" else ""), model=model, live=live, fresh=fresh, history=history, base=prob_brief(prob))
            break
        # exported rules reproduce lnL and nfp
        try:
            uninstall()
            p0 = copy.deepcopy(prob)
            p0["params"] = {}
            p0["edge_params"] = {}
            lf2 = M.build_lf(p0)
            lf2.apply_param_rules(rules)
            l2 = float(lf2.lnL)
            n2 = lf2.get_num_free_params()
        except Exception as e:  # noqa: BLE001
            res.evals += 1
            res.witness(exc_mechanism(f"C07/history/apply_param_rules/after-{last}", e), model=model, history=history, error=repr(e)[:300], base=prob_brief(prob))
            break
        finally:
            install(res, {"model": model, "driver": "history"})
        res.evals += 1
        res.count("rules-roundtrip")
        if not close(live, l2):
            res.witness(f"C07/history/exported-rules-give-different-lnL/after-{last}", model=model, live=live, from_rules=l2, history=history, base=prob_brief(prob))
            break
        if nfp != n2:
            res.witness(f"C07/history/exported-rules-give-different-nfp/after-{last}", model=model, nfp=nfp, from_rules=n2, history=history, base=prob_brief(prob))
            break
        if any(o in ("postponed", "indep", "edges", "clade") for o in ops_done):
            res.sig(model, f"bins{bins}", "hist", *ops_done[-4:])
    uninstall()
    res.sample({"model": model, "history": history[:6]})


def prob_brief(prob):
    return {"tree": M.newick(prob["tree"]), "aln": prob["aln"], "bins": prob.get("bins", 1)}


def close(a, b, rtol=1e-9):
    if math.isinf(a) and math.isinf(b):
        return a == b
    return abs(a - b) <= rtol * max(1.0, abs(a), abs(b))


# ----- H: calculator change vectors ----------------------------------------


def run_calc(res, rng, model, steps, with_undo_fixed=None):
    bins = rng.choice([1, 1, 2]) if M.kind_of(model) == "nuc" else 1
    prob = base_problem(rng, model, bins=bins)
    try:
        lf = M.build_lf(prob)
        # free some structure so there are many optimisable parameters
        pars = M.rate_param_names(model)
        if pars and rng.random() < 0.6:
            lf.set_param_rule(rng.choice(pars), is_independent=True)
        if M.mprob_kind(model) != "fixed-equal" and rng.random() < 0.3:
            lf.set_motif_probs(prob["mprobs"], is_constant=False)
        with_undo = (rng.random() < 0.85) if with_undo_fixed is None else with_undo_fixed
        calc = lf.make_calculator(with_undo=with_undo)
    except Exception as e:  # noqa: BLE001
        res.evals += 1
        res.witness(exc_mechanism("C07/calculator/build", e), model=model)
        return
    ctx = {"model": model, "driver": "vectors", "bins": bins}
    install(res, ctx)
    from cogent3.maths.optimisers import ParameterOutOfBoundsError
    from cogent3.recalculation.calculation import EvaluatedCell

    lo, hi = calc.get_bounds_vectors()
    n = len(lo)
    prev = [np.array(calc.last_values, dtype=float)]
    ev_cells = [c for c in calc._cells if isinstance(c, EvaluatedCell)]

    def clamp(i, v):
        return float(min(hi[i], max(lo[i], v)))

    for step in range(steps):
        x = np.array(calc.last_values, dtype=float)
        r = rng.random()
        inject = None
        if r < 0.25:
            i = rng.randrange(n)
            x[i] = clamp(i, x[i] + rng.uniform(-0.3, 0.3))
        elif r < 0.45 and len(prev) > 1:
            x = prev[-2].copy()  # exact revert of the last step: undo branch
        elif r < 0.55 and len(prev) > 1:
            # partial revert: revert some of the last changes and change another (must NOT take the undo shortcut)
            diff = [i for i in range(n) if prev[-1][i] != prev[-2][i]]
            if diff:
                for i in diff[: max(1, len(diff) // 2)]:
                    x[i] = prev[-2][i]
            j = rng.randrange(n)
            x[j] = clamp(j, x[j] + rng.uniform(-0.2, 0.2))
        elif r < 0.7:
            for i in rng.sample(range(n), min(n, rng.randint(2, 4))):
                x[i] = clamp(i, x[i] + rng.uniform(-0.3, 0.3))
        elif r < 0.78:
            i = rng.randrange(n)
            # G: rate_shape's declared upper bound is 1e10, where the library's inverse incomplete gamma does not
            # terminate in reasonable time (incidental observation, see DESIGN.md); bound probing stays <= 1e6
            cands = [b for b in (lo[i], hi[i]) if np.isfinite(b) and abs(b) <= 1e6]
            x[i] = float(rng.choice(cands)) if cands else x[i]
        elif r < 0.9 and len(prev) > 2:
            # A, B, revert B, A again
            x = prev[-3].copy()
        elif not with_undo:
            # G: a calculator built with_undo=False has a single buffer and by construction cannot roll an interrupted
            # change back; likelihood functions never build one, so faults are only injected with the undo buffer on
            i = rng.randrange(n)
            x[i] = clamp(i, x[i] + rng.uniform(-0.3, 0.3))
        else:
            # injected fault at a random evaluated cell: exception path must restore the state
            cell = rng.choice(ev_cells)
            exc = rng.choice([ParameterOutOfBoundsError, ArithmeticError])
            inject = (cell, exc)
            i = rng.randrange(n)
            x[i] = clamp(i, x[i] + rng.uniform(-0.3, 0.3))
        if inject:
            cell, exc = inject
            orig_calc = cell.calc
            _ORIG_CALC[id(cell)] = orig_calc

            def boom(*a, _e=exc, **k):
                raise _e("injected by harness")

            cell.calc = boom
            # report_error prints diagnostics for the first few ArithmeticErrors; silence it
            old_fc = cell.failure_count
            cell.failure_count = 1000
        try:
            calc(x)
            if inject:
                res.count("injected-fault-not-reached")
        except (ParameterOutOfBoundsError, ArithmeticError):
            if not inject:
                res.count("natural-calculation-exception")
        except Exception as e:  # noqa: BLE001
            res.witness(exc_mechanism("C07/calculator/change", e), model=model, ctx=ctx)
            break
        finally:
            if inject:
                cell.calc = orig_calc
                _ORIG_CALC.pop(id(cell), None)
                cell.failure_count = old_fc
        prev.append(np.array(calc.last_values, dtype=float))
        if len(prev) > 6:
            prev.pop(0)
    # the long-lived calculator must agree with one built now from the same point
    try:
        # G: with parameters parked at the 1e-6/1e6 bounds some state frequencies fall to ~1e-18 and the likelihood is
        # dominated by rounding-level transition probabilities (see C02), so two correct evaluations that differ in
        # the last bit of an input can differ by many log units. The shadow check above is immune (identical
        # arithmetic); this cross-calculator comparison is made at a moderate point reached by one more change.
        xm = []
        for i, v in enumerate(calc.last_values):
            if lo[i] < 0:  # log-scaled ratio parameters
                xm.append(float(min(3.0, max(-3.0, v))))
            elif hi[i] <= 10:  # lengths
                xm.append(float(min(2.0, max(0.01, v))))
            else:
                xm.append(float(min(5.0, max(0.2, v))))
        calc(xm)
        lf.update_from_calculator(calc)
        uninstall()
        v_long = calc.testfunction()
        newc = lf.make_calculator()
        # G: evaluate the new calculator at exactly the long-lived one's optimiser vector. Its own starting vector is
        # re-derived from the stored probabilities/values and may differ in the last bit, and with parameters parked
        # at the 1e-6/1e6 bounds the likelihood surface is steep enough (d lnL/dx ~ 1e7) for that to matter.
        same_layout = [p.name for p in newc.opt_pars] == [p.name for p in calc.opt_pars]
        v_new = newc.testoptparvector(list(calc.last_values)) if same_layout else newc.testfunction()
        v_lf = float(lf.lnL)
        res.evals += 1
        res.count("long-lived-vs-new-calculator")
        # inputs of the new calculator are re-derived (exp/log round trip), i.e. equal to ~1 ulp, not bit-identical
        if not (close(v_long, v_new, 1e-8) and close(v_long, v_lf, 1e-8)):
            res.witness("C07/calculator/long-lived-calculator-differs-from-new-one", model=model, long=v_long, new=v_new, lf=v_lf)
    except Exception as e:  # noqa: BLE001
        res.witness(exc_mechanism("C07/calculator/update_from_calculator", e), model=model)
    uninstall()
    res.sample({"model": model, "driver": "vectors", "n_optpars": n, "with_undo": with_undo})


def run_optimise(res, rng, model):
    prob = base_problem(rng, model)
    if M.kind_of(model) == "codon":
        prob["aln"] = {k: v[:15] for k, v in prob["aln"].items()}
    try:
        lf = M.build_lf(prob)
    except Exception as e:  # noqa: BLE001
        res.evals += 1
        res.witness(exc_mechanism("C07/optimise/build", e), model=model)
        return
    local = rng.random() < 0.6
    ctx = {"model": model, "driver": "optimise-local" if local else "optimise-global"}
    install(res, ctx)
    try:
        kw = dict(local=True, max_evaluations=rng.choice([20, 60, 150]), limit_action="ignore", show_progress=False)
        if not local:
            kw = dict(local=False, max_evaluations=rng.choice([60, 150]), limit_action="ignore", show_progress=False, seed=rng.randrange(10**6), global_tolerance=1.0)
        lf.optimise(**kw)
        res.count("optimise-runs")
    except Exception as e:  # noqa: BLE001
        res.witness(exc_mechanism(f"C07/optimise/{ctx['driver']}", e), model=model, base=prob_brief(prob), error=repr(e)[:300])
        uninstall()
        return
    uninstall()
    # after optimisation the live value equals a fresh function from reported settings
    try:
        live = float(lf.lnL)
        st = read_settings(lf, prob)
        fresh = float(M.build_lf(st).lnL) if st is not None else live
        res.evals += 1
        if not close(live, fresh):
            res.witness("C07/optimise/live-lnL-differs-from-fresh-function", model=model, live=live, fresh=fresh, base=prob_brief(prob))
    except Exception as e:  # noqa: BLE001
        res.witness(exc_mechanism("C07/optimise/observe", e), model=model)
    res.sample({"model": model, "driver": ctx["driver"]})


def run_case(case):
    res = Result()
    rng = random.Random(case["seed"])
    if case["kind"] == "history":
        for _ in range(case["n"]):
            run_history(res, rng, case["model"])
    elif case["kind"] == "calc":
        run_calc(res, rng, case["model"], case["steps"], case.get("with_undo"))
    elif case["kind"] == "optimise":
        run_optimise(res, rng, case["model"])
    return res


def required(counters, tier):
    need = ["regroup-in-one-batch", "change:undo-branch", "change:no-undo-branch", "change:exception-path", "change:without-undo-buffer", "history-op:postponed", "history-op:aln", "history-op:mprobs", "history-op:indep", "history-op:clade", "rules-roundtrip", "optimise-runs", "long-lived-vs-new-calculator"]
    return [n for n in need if not counters.get(n)]
