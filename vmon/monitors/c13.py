"""C13 — data stores hold exactly what was written, record by record.

Shape B (history vs dict model) + C (icontract class invariants on the live stores).

A history is an explicit list of operations (write / write_not_completed / write_log /
drop_not_completed(id) / drop_not_completed() / close+reopen(mode)) that is driven against a
real DataStoreDirectory or DataStoreSqlite.  After *every* operation the live store and a
freshly opened read-only store over the same source are observed (member ids, contents, md5,
validate(); raw listing for the read-only rule) and compared with a plain dict model.

The model is the *expected observation*: {completed uid -> [content, md5]},
{not-completed uid -> [content, md5]}, {log uid -> content}; logical identifiers are mapped
to uids by the documented normalisation only (directory store: `<id>.<suffix>` /
`not_completed/<id>.json` / `logs/<name>`; sqlite: the identifier itself).
"""

import hashlib
import os
import re
import pathlib
import random
import shutil
import sqlite3
import tempfile

from vmon.core import Result, exc_mechanism

ID = "C13"
LEVEL = "exploration"
RULE = (
    "Histories of write / write_not_completed / write_log / drop_not_completed(id) / drop_not_completed() / "
    "close+reopen(r|a|w) over DataStoreDirectory(suffix=fasta) and DataStoreSqlite, identifiers drawn from the entangled "
    "set {a, ba, ab, a.b, x1, x11, 1x, seq, aseq, fasta, afasta, json, not_completed} rendered with and without the "
    "format suffix, plus store-specific hostile names (directory: catalog, blog, geojson, xlog, ajson — last letters are a "
    "special suffix without the dot; sqlite: 0042, 7.10, 1e3, ' 12', 007, 7, a 20-digit string — text that parses as a "
    "number), one unique payload per write; `id in store` is asked for every identifier of the history, bare and as "
    "stored, on the live and on the fresh store. Further configurations: directory stores with the multi-part suffixes "
    "fa.gz / aln.fasta / tar.gz over {a, ba, a.<first part>, a.b}; the writer apps write_db (sqlite), write_json, "
    "write_seqs, write_tabular (directory, suffix json / fasta / tsv) as front end, writer.main(value | NotCompleted, "
    "identifier=I) with I in {ENSG1, ENSG1.1, ENSG1.2, sample, sample.fasta, sample.json} minus those ending in the "
    "store's suffix, model keyed by I as given, content identified by a payload token inside the serialised record. (1) 'pairs': every ordered pair (x, y) of the set x 10 short templates "
    "(write retires exactly its own not-completed record, drop(id), rewrite of a completed id, not-completed over "
    "completed / over not-completed, read-only rejection of every mutation, drop-all, logs, read-only open after drop-all) x {same session, reopen a, "
    "reopen w} (thorough: all three sessions for every (x, y, template); quick: one session per (x, y, template), rotated so "
    "that every (x, template, session) and (y, template, session) occurs for every seed, the long read-only template for a "
    "rotating third of the pairs); (2) 'random': seeded histories of 1-15 (quick) / 1-25 (thorough) operations over 2-6 identifiers taken "
    "from one or two families of related names. After every operation the live store and a fresh read-only store are "
    "compared with the dict model; the member objects first handed out by the live store's listings are kept and their "
    "read() / md5 / names re-read after every later step. A step is non-trivial when its target identifier is related (suffix / prefix / "
    "substring / same id in the other record kind) to another identifier held by the store, or the history has "
    "re-opened the store; distinct = (store class, mode, operation, target context, id-relation class, previous operation)."
)
LEVEL_TEXT = (
    "Every step of every generated history is decided: membership, content, md5 and validate() of the live store and "
    "of a freshly opened read-only store against a dict model; read-only sessions additionally against a byte-for-byte "
    "listing of the source. icontract invariants on both store classes compare the cached member lists with a re-scan "
    "of the directory / the rows at every outermost public-method boundary. All ordered identifier pairs x short "
    "templates are enumerated; longer histories are sampled."
)
LEVEL_NOTE = (
    "held = held on the histories listed in the evidence; trusted: hashlib.md5, pathlib/os listing, sqlite3 SELECT for "
    "the re-scan, dict semantics"
)
TECHNIQUE = "runtime monitoring: operation histories vs dict model after every step + icontract cache invariants"
ASSUMPTIONS = [
    "a dict keyed by logical identifier (one record kind per identifier) is the reference semantics; `seq` and "
    "`seq.fasta` (completed) / `seq.json` (not-completed, as the writer apps pass it) name the same record in a "
    "directory store with suffix fasta, and nothing else is normalised",
    "where the property is silent the model follows the store: in append mode a write over an existing NOT-completed id "
    "may either succeed or be refused with IOError; an append-mode write over an existing completed id may be refused "
    "with IOError or be silently ignored, but must leave everything unchanged; a read-only store may reject a mutation "
    "with any exception as long as nothing changes",
    "one log record per sqlite session (a second write_log in the same session replaces the first by design); log names "
    "are unique",
    "payloads are ASCII text with \\n line ends; store sources are created with tempfile.mkdtemp on /dev/shm when it "
    "is writable (sqlite commits fsync), else under the worker's directory",
    "sqlite stores locked by an earlier writer session refuse mode=w with the documented IOError; the history then "
    "continues in append mode",
]
TIMEOUT = {"quick": 900, "thorough": 7200}

IDS = ["a", "ba", "ab", "a.b", "x1", "x11", "1x", "seq", "aseq", "fasta", "afasta", "json", "not_completed"]
FAMILIES = [
    ["a", "ba", "ab", "a.b"],
    ["x1", "x11", "1x"],
    ["seq", "aseq", "a"],
    ["fasta", "afasta", "json", "a"],
    ["not_completed", "a", "ba"],
]
PLAIN_FAMILIES = [["a", "ba", "ab"], ["x1", "x11", "1x"], ["seq", "aseq", "a"]]
# store-specific hostile identifiers, paired among themselves and with two of the base set (see gen_cases):
#   directory store — names whose last letters are a special suffix without the dot ("catalog" vs "cata.log");
#   sqlite store — text that parses as a number in non-canonical form (column affinity must stay TEXT)
EXTRA_IDS = {
    "dir": ["catalog", "blog", "geojson", "xlog", "ajson"],
    "sqlite": ["0042", "7.10", "1e3", " 12", "007", "7", "12345678901234567890"],
}
EXTRA_PARTNERS = {"dir": ["a", "json"], "sqlite": ["a", "x1"]}
EXTRA_FAMILIES = {
    "dir": [["catalog", "blog", "geojson", "a"], ["xlog", "ajson", "json", "blog"]],
    "sqlite": [["0042", "007", "7", "7.10"], ["1e3", " 12", "12345678901234567890", "7"]],
}
SUFFIX = "fasta"  # suffix of the directory store of the current history (see _configure)
FRONT = None  # None: the store's own write methods; or the writer app driven with explicit identifiers
MULTI_SUFFIXES = ["fa.gz", "aln.fasta", "tar.gz"]
# writer app front ends: (store, suffix, app). Rule established on the unchanged tree: writer.main(data, identifier=I)
# stores a completed value under I (sqlite) / I.<suffix> (directory) and a NotCompleted under I (sqlite) /
# not_completed/I.json (directory), I exactly as given — nothing is stripped from an explicit identifier.
# Not generated: identifiers that already end in the store's own suffix (for the directory store `x.<suffix>` IS `x`,
# covered by the raw front end) and identifiers with a path separator (sqlite read() takes the part before `/` as a
# table name — pinned by test_read_unknown_table; the directory store takes it as a sub-directory).
APP_FRONTS = [("sqlite", None, "write_db"), ("dir", "json", "write_json"), ("dir", "fasta", "write_seqs"), ("dir", "tsv", "write_tabular")]
APP_IDS = ["ENSG1", "ENSG1.1", "ENSG1.2", "sample", "sample.fasta", "sample.json"]


def _configure(suffix=None, front=None):
    global SUFFIX, FRONT
    SUFFIX = suffix or "fasta"
    FRONT = front


def _make_writer(ds):
    from cogent3.app import io as io_app

    if FRONT == "write_db":
        return io_app.write_db(data_store=ds)
    if FRONT == "write_json":
        return io_app.write_json(data_store=ds)
    if FRONT == "write_seqs":
        return io_app.write_seqs(data_store=ds, format="fasta")
    if FRONT == "write_tabular":
        return io_app.write_tabular(data_store=ds, format="tsv")
    raise ValueError(FRONT)


def _encode(token, completed):
    """a value of the type the writer app takes whose serialised form carries the payload token"""
    if not completed:
        from cogent3.app.composable import NotCompleted

        return NotCompleted("ERROR", "c13", token, source="c13-source")
    if FRONT in ("write_db", "write_json"):
        return {"payload": token}
    if FRONT == "write_seqs":
        from cogent3 import make_unaligned_seqs

        return make_unaligned_seqs({token: "ACGT"}, moltype="dna")
    from cogent3 import make_table

    return make_table(header=["payload"], data=[[token]])


_TOKEN = re.compile(r"PAY_[A-Za-z0-9_]+?_YAP")


def _row(uid, raw, md5):
    """[uid, content, md5]; behind a writer app the content is the payload token found in the serialised record and
    the md5 is mapped to the token's md5 iff it is the md5 of the record as stored"""
    if FRONT is None:
        return [uid, raw, md5]
    as_bytes = raw if isinstance(raw, bytes) else str(raw).encode("utf-8")
    found = sorted(set(_TOKEN.findall(as_bytes.decode("latin-1"))))
    token = found[0] if len(found) == 1 else f"<{len(found)} payload tokens in {as_bytes[:60]!r}>"
    return [uid, token, md5hex(token) if md5 == hashlib.md5(as_bytes).hexdigest() else md5]


# ---------------------------------------------------------------------------
# icontract invariants on the live classes


class CacheInvariantError(Exception):
    """cached member list of a store differs from a re-scan of its source"""


_INV = {"dir": 0, "sqlite": 0}
_INV_FLUSHED = {"dir": 0, "sqlite": 0}
_INV_HARNESS_ERRORS = []
_INSTALLED = False


def _multiset_problem(kind, cached, scanned):
    """None or a structural class naming how a non-empty cached id list differs from the re-scan"""
    if not cached:  # empty cache == not loaded yet (filled lazily from the source)
        return None
    if len(set(cached)) != len(cached):
        return f"{kind}-cache-duplicate-member"
    if set(cached) - set(scanned):
        return f"{kind}-cache-stale-member"
    if set(scanned) - set(cached):
        return f"{kind}-cache-missing-member"
    return None


def _dir_cache_problem(self):
    try:
        d = self.__dict__
        cached_c = d.get("_completed")
        cached_n = d.get("_not_completed")
        if (not cached_c and not cached_n) or d.get("_limit"):
            return None
        src = str(d["_source"])
        sfx = d.get("suffix", "")
        want = f".{sfx}" if sfx and sfx != "*" else ""
        prob = None
        if cached_c:
            scan_c = [n for n in os.listdir(src) if n.endswith(want)] if os.path.isdir(src) else []
            if not want:
                scan_c = [n for n in scan_c if os.path.isfile(os.path.join(src, n))]
            prob = _multiset_problem("completed", [str(m.unique_id) for m in cached_c], scan_c)
        if prob is None and cached_n:
            ncd = os.path.join(src, "not_completed")
            scan_n = [f"not_completed/{n}" for n in os.listdir(ncd) if n.endswith(".json")] if os.path.isdir(ncd) else []
            prob = _multiset_problem("not_completed", [str(m.unique_id) for m in cached_n], scan_n)
        return prob
    except Exception as e:  # noqa: BLE001 — a bug of the monitor, surfaced at the end of the case
        _INV_HARNESS_ERRORS.append(repr(e))
        return None


def _sql_cache_problem(self):
    try:
        db = self.__dict__.get("_db")
        if db is None or not self.__dict__.get("_open") or self.__dict__.get("_limit"):
            return None
        cached_c = [str(m.unique_id) for m in self.__dict__.get("_completed", [])]
        cached_n = [str(m.unique_id) for m in self.__dict__.get("_not_completed", [])]
        if not cached_c and not cached_n:
            return None
        rows = db.execute("SELECT record_id, is_completed FROM results").fetchall()
        scan_c = [str(r[0]) for r in rows if r[1]]  # (str: what the member list is built from, whatever the column type)
        scan_n = [str(r[0]) for r in rows if not r[1]]
        return _multiset_problem("completed", cached_c, scan_c) or _multiset_problem("not_completed", cached_n, scan_n)
    except sqlite3.ProgrammingError:
        return None  # connection already closed
    except Exception as e:  # noqa: BLE001
        _INV_HARNESS_ERRORS.append(repr(e))
        return None


def dir_cached_members_equal_rescan(self):
    _INV["dir"] += 1
    return _dir_cache_problem(self) is None


def dir_cache_error(self):
    return CacheInvariantError(_dir_cache_problem(self) or "unknown")


def sqlite_cached_members_equal_rescan(self):
    _INV["sqlite"] += 1
    return _sql_cache_problem(self) is None


def sqlite_cache_error(self):
    return CacheInvariantError(_sql_cache_problem(self) or "unknown")


def _install():
    """attach the invariants to the real classes (once per process); icontract checks them before and after every
    outermost public method / property access of an instance (nested calls on the same instance are not re-checked)"""
    global _INSTALLED
    if _INSTALLED:
        return
    import icontract
    from cogent3.app.data_store import DataStoreDirectory
    from cogent3.app.sqlite_data_store import DataStoreSqlite

    icontract.invariant(dir_cached_members_equal_rescan, error=dir_cache_error)(DataStoreDirectory)
    icontract.invariant(sqlite_cached_members_equal_rescan, error=sqlite_cache_error)(DataStoreSqlite)
    _INSTALLED = True


# ---------------------------------------------------------------------------
# identifiers


def md5hex(data):
    return hashlib.md5(data.encode("utf-8")).hexdigest()


def strip_render(store, rid):
    """logical identifier of a rendered identifier (the only normalisation the model knows)"""
    if store == "dir" and FRONT is None:
        for s in (f".{SUFFIX}", ".json"):
            if rid.endswith(s) and len(rid) > len(s):
                return rid[: -len(s)]
    return rid


def id_class(store, kind, lid, rendered=None):
    """structural class of a target identifier (directory store: the classes its suffix handling could care about)"""
    if store != "dir" or lid is None or kind in ("drop", "drop_all"):
        return "plain"  # (dropping never creates a name, so the identifier class cannot be what fails)
    if kind == "write_log":
        return "id-contains-store-suffix" if SUFFIX in lid else "plain"
    if "." in lid and (rendered is None or rendered == lid):
        return "bare-id-has-dot"  # rendered with its format suffix a dotted id is an ordinary file name
    if SUFFIX in lid:
        return "id-contains-store-suffix"
    if kind == "write_not_completed" and "json" in lid:
        return "id-contains-json"
    return "plain"


def relation(other, target):
    """structural relation of another identifier to the target identifier"""
    if other is None or target is None:
        return None
    if other == target:
        return "same-id"
    if other.endswith(target):
        return "other-id-endswith-target-id"
    if target.endswith(other):
        return "target-id-endswith-other-id"
    if other.startswith(target):
        return "other-id-startswith-target-id"
    if target.startswith(other):
        return "target-id-startswith-other-id"
    if target in other or other in target:
        return "substring"
    return "unrelated"


REL_ORDER = [
    "same-id",
    "other-id-endswith-target-id",
    "target-id-endswith-other-id",
    "other-id-startswith-target-id",
    "target-id-startswith-other-id",
    "substring",
]


class Adapter:
    def __init__(self, store, root):
        self.store = store
        self.root = pathlib.Path(root)
        self.path = self.root / ("store" if store == "dir" else "store.sqlitedb")
        self.probes = []
        self.excused = set()

    def open(self, mode):
        if self.store == "dir":
            from cogent3.app.data_store import DataStoreDirectory

            return DataStoreDirectory(self.path, mode=mode, suffix=SUFFIX)
        from cogent3.app.sqlite_data_store import DataStoreSqlite

        return DataStoreSqlite(self.path, mode=mode)

    # expected uid of a logical id
    def cuid(self, lid):
        return f"{lid}.{SUFFIX}" if self.store == "dir" else lid

    def nuid(self, lid):
        return f"not_completed/{lid}.json" if self.store == "dir" else lid

    def luid(self, name):
        return f"logs/{name}"

    def expect_contains(self, model, q):
        """`q in store`: a record (either kind) is stored under that relative identifier; the directory store adds its
        suffix to a name that has neither the store suffix nor a special (.json / .log) one. None = not demanded: a
        name ending in .json / .log that is not a stored name could be a not-completed / log file name or an
        identifier with such a tail (`sample.json` -> sample.json.tsv); the store's API cannot tell them apart"""
        if q in model.C or q in model.N:
            return True
        if self.store == "dir" and not q.endswith(f".{SUFFIX}"):
            if q.endswith(".json") or q.endswith(".log"):
                return None
            return f"{q}.{SUFFIX}" in model.C
        return False

    def logical(self, uid):
        """logical id of an observed uid (used for relation classes only)"""
        n = uid.split("/", 1)[1] if "/" in uid else uid
        return strip_render(self.store, n)

    def listing(self):
        """every directory and every file (with a content digest) below the history's root"""
        out = {}
        for p in sorted(self.root.rglob("*")):
            rel = str(p.relative_to(self.root))
            if p.is_dir():
                out[rel] = "<dir>"
            else:
                try:
                    out[rel] = hashlib.sha1(p.read_bytes()).hexdigest()
                except OSError as e:
                    out[rel] = f"<unreadable {type(e).__name__}>"
        return out

    def raw(self):
        """human-readable listing for witnesses (directory store only)"""
        if self.store != "dir":
            return None
        out = {}
        for p in sorted(self.path.rglob("*")):
            if p.is_file():
                try:
                    out[str(p.relative_to(self.path))] = p.read_text()[:80]
                except Exception as e:  # noqa: BLE001
                    out[str(p.relative_to(self.path))] = f"<{type(e).__name__}>"
        return out


class Model:
    def __init__(self):
        self.C = {}
        self.N = {}
        self.L = {}

    def copy(self):
        m = Model()
        m.C = {k: list(v) for k, v in self.C.items()}
        m.N = {k: list(v) for k, v in self.N.items()}
        m.L = dict(self.L)
        return m

    def validate(self):
        recs = list(self.C.values()) + list(self.N.values())
        missing = sum(1 for c, m in recs if m is None)
        correct = sum(1 for c, m in recs if m is not None and m == md5hex(c))
        return {"correct": correct, "incorrect": len(recs) - correct - missing, "missing": missing, "has_log": bool(self.L)}

    def as_obs(self):
        return {
            "completed": sorted([k, v[0], v[1]] for k, v in self.C.items()),
            "not_completed": sorted([k, v[0], v[1]] for k, v in self.N.items()),
            "logs": sorted([k, v] for k, v in self.L.items()),
            "validate": self.validate(),
        }

    @classmethod
    def from_obs(cls, obs):
        m = cls()
        for uid, c, h in obs["completed"]:
            m.C[uid] = [c, h]
        for uid, c, h in obs["not_completed"]:
            m.N[uid] = [c, h]
        for uid, c in obs["logs"]:
            m.L[uid] = c
        return m


def observe(ds, probes=()):
    """what a client can see of a store; raises whatever the store raises"""
    comp = sorted(_row(str(m.unique_id), m.read(), ds.md5(str(m.unique_id))) for m in ds.completed)
    nc = sorted(_row(str(m.unique_id), m.read(), ds.md5(str(m.unique_id))) for m in ds.not_completed)
    logs = sorted([str(m.unique_id), m.read()] for m in ds.logs)
    v = ds.validate()
    vd = {str(r[0]): r[1] for r in v.to_list()}
    val = {
        "correct": int(vd["Num md5sum correct"]),
        "incorrect": int(vd["Num md5sum incorrect"]),
        "missing": int(vd["Num md5sum missing"]),
        "has_log": bool(vd["Has log"]),
    }
    asked = sorted(set(probes) | {r[0] for r in comp} | {r[0] for r in nc})
    contains = [[q, bool(q in ds)] for q in asked]
    return {"completed": comp, "not_completed": nc, "logs": logs, "validate": val, "contains": contains}


def observe_held(ds, held):
    """what the member OBJECTS a client got from the listings say now.

    `held` keeps the first member object seen for every (kind, uid) of this live store object; every step reads
    read() / .md5 / unique_id / str() / repr() through those same objects again, so anything a member caches at first
    use is compared with the store after later writes to the same identifier. Returns {kind: [[uid, content, md5]…]}
    built from the held objects for the members that are listed now, plus a list of identity problems."""
    out = {}
    odd = []
    for K, members in (("completed", list(ds.completed)), ("not_completed", list(ds.not_completed))):
        listed = set()
        for m in members:
            uid = str(m.unique_id)
            listed.add(uid)
            held.setdefault((K, uid), m)
        for key in [k for k in held if k[0] == K and k[1] not in listed]:
            del held[key]  # the record is gone; a later record of that name is a new member
        rows = []
        for (k, uid), m in held.items():
            if k != K:
                continue
            rows.append(_row(uid, m.read(), m.md5))
            if str(m.unique_id) != uid or str(m) != uid or uid not in repr(m):
                odd.append([K, uid, str(m.unique_id), str(m), repr(m)])
        out[K] = sorted(rows)
    return out, odd


# ---------------------------------------------------------------------------
# comparison: expected observation vs observation -> structural difference classes


def differences(exp, got, A, target, payload, prev, no_change_expected=False):
    """list of (priority, class) — smaller priority = more telling; exp/prev are Models, got an observation.

    target: {"lid":…, "completed": uid|None, "not_completed": uid|None, "logs": uid|None} or None
    """
    out = []
    tl = target["lid"] if target else None
    all_contents = [r[1] for r in got["completed"]] + [r[1] for r in got["not_completed"]]

    def rel_of(uid):
        r = relation(A.logical(uid), tl)
        return f"/{r}" if r else ""

    for K, expK, prevK in (("completed", exp.C, prev.C), ("not_completed", exp.N, prev.N)):
        rows = got[K]
        gotK = {}
        for uid, c, h in rows:
            if uid in gotK:
                out.append((6, f"{K}-member-duplicated"))
            gotK[uid] = [c, h]
        t_uid = target.get(K) if target else None
        K2 = "not_completed" if K == "completed" else "completed"
        t_uid2 = target.get(K2) if target else None
        for uid in expK:
            if uid not in gotK:
                if uid == t_uid and uid not in prevK:
                    if payload is not None and any(r[0] == t_uid2 and r[1] == payload for r in got[K2]):
                        out.append((2, f"{K}-target-stored-as-{K2}-record"))
                    elif payload is not None and payload in all_contents:
                        out.append((2, f"{K}-target-stored-under-other-name"))
                    else:
                        out.append((3, f"{K}-target-missing"))
                elif uid == t_uid:
                    out.append((3, f"{K}-target-record-lost"))
                else:
                    out.append((1, f"{K}-other-record-lost{rel_of(uid)}"))
        for uid in gotK:
            if uid not in expK:
                if uid == t_uid and uid in prevK:
                    out.append((3, f"{K}-target-not-retired"))
                elif uid == t_uid:
                    out.append((3, f"{K}-target-written-but-not-expected"))
                elif uid in prevK:
                    out.append((1, f"{K}-other-record-not-removed{rel_of(uid)}"))
                elif payload is not None and gotK[uid][0] == payload:
                    if t_uid in gotK or t_uid not in expK:
                        out.append((2, f"{K}-payload-under-alien-name"))
                    # else: reported once, as target-stored-under-other-name
                else:
                    out.append((2, f"{K}-alien-member"))
        for uid in gotK:
            if uid in expK:
                ec, eh = expK[uid]
                gc, gh = gotK[uid]
                is_t = uid == t_uid
                if gc != ec:
                    if is_t:
                        if uid in prevK and gc == prevK[uid][0] and not no_change_expected:
                            out.append((3, f"{K}-target-not-overwritten"))
                        elif no_change_expected:
                            out.append((3, f"{K}-target-overwritten"))
                        else:
                            out.append((3, f"{K}-target-wrong-content"))
                    elif payload is not None and gc == payload:
                        out.append((1, f"{K}-other-record-overwritten{rel_of(uid)}"))
                    else:
                        out.append((1, f"{K}-other-record-content-changed{rel_of(uid)}"))
                if gh != eh:
                    what = "md5-missing" if gh is None else "md5-wrong"
                    if is_t:
                        out.append((5, f"{K}-target-{what}"))
                    else:
                        out.append((4, f"{K}-other-record-{what}{rel_of(uid)}"))
    gotL = {}
    for uid, c in got["logs"]:
        if uid in gotL:
            out.append((6, "logs-member-duplicated"))
        gotL[uid] = c
    t_uid = target.get("logs") if target else None
    for uid in exp.L:
        if uid not in gotL:
            if uid == t_uid:
                if payload is not None and payload in gotL.values():
                    out.append((2, "log-stored-under-other-name"))
                else:
                    out.append((3, "log-missing"))
            else:
                out.append((1, "other-log-lost"))
        elif gotL[uid] != exp.L[uid]:
            out.append((3 if uid == t_uid else 1, "log-wrong-content" if uid == t_uid else "other-log-changed"))
    for uid in gotL:
        if uid not in exp.L:
            if payload is not None and gotL[uid] == payload:
                if t_uid in gotL:
                    out.append((2, "log-payload-under-alien-name"))
                # else: already reported as log-stored-under-other-name
            else:
                out.append((2, "alien-log"))
    if not out and got["validate"] != exp.validate():
        out.append((7, "validate-disagrees"))
    wrong = [q for q, ans in got.get("contains", []) if q not in A.excused and A.expect_contains(exp, q) not in (None, ans)]
    if not out and wrong:
        out.append((7, "contains-disagrees"))
        # `in` is a function of the state, not something a resync can adopt: report an identifier once per history
        A.excused.update(wrong)
    seen = []
    for d in sorted(out):
        if d not in seen:
            seen.append(d)
    return seen


# ---------------------------------------------------------------------------
# the history engine

MUTATORS = ("write", "write_not_completed", "write_log", "drop", "drop_all")
# difference classes that say "the record is not where its identifier says" (one mechanism per operation and id class)
MISPLACED = {
    "target-missing",
    "target-stored-under-other-name",
    "target-stored-as-completed-record",
    "target-stored-as-not_completed-record",
    "payload-under-alien-name",
    "other-record-overwritten",
    "alien-member",
    "log-missing",
    "log-stored-under-other-name",
    "log-payload-under-alien-name",
    "alien-log",
}


def _short(op):
    k = op["op"]
    if k == "reopen":
        return f"reopen({op['mode']}{',unlock' if op.get('unlock') else ''})"
    if k == "drop_all":
        return "drop_not_completed()"
    if k == "drop":
        return f"drop_not_completed({op['id']!r})"
    return f"{k}({op['id']!r})"


def _scratch_parent():
    """memory-backed scratch when there is one (sqlite commits fsync; on a disk that dominates the run time)"""
    shm = "/dev/shm"
    if os.path.isdir(shm) and os.access(shm, os.W_OK | os.X_OK):
        return shm
    return os.getcwd()


def run_history(res, store, ops, tag="h"):
    _install()
    root = tempfile.mkdtemp(prefix="c13-", dir=_scratch_parent())
    A = Adapter(store, root)
    state = {"live": None, "held": {}}
    try:
        _run(res, A, ops, tag, state)
    finally:
        ds = state["live"]
        if ds is not None and hasattr(ds, "close"):
            try:
                ds.close()
            except Exception:  # noqa: BLE001
                pass
        shutil.rmtree(root, ignore_errors=True)


def _close(ds, unlock=False, force=False):
    if hasattr(ds, "unlock") and unlock:
        ds.unlock(force=force)
    if hasattr(ds, "close"):
        ds.close()


def _run(res, A, ops, tag, state):
    store = A.store
    label = store if FRONT is None else f"{store}.{FRONT}"
    res.count(f"config:{label}:{SUFFIX if store == 'dir' else '-'}")
    A.probes = _probes(A, ops)
    model = Model()
    mode = None
    reopened = False
    prev_kind = "start"
    payload_n = 0

    def witness(mech, i, op, **detail):
        res.witness(
            mech,
            store=store,
            suffix=SUFFIX if store == "dir" else None,
            mode=mode,
            step=i,
            operation=_short(op),
            history=[_short(o) for o in ops[: i + 1]],
            raw_listing=A.raw(),
            front=FRONT,
            replay_case={"kind": "script", "store": store, "suffix": SUFFIX, "front": FRONT, "ops": ops[: i + 1]},
            **detail,
        )

    def open_live(m, i, op):
        """open the live store in mode m; sqlite mode w on a locked db is a documented refusal -> append"""
        nonlocal mode
        try:
            ds = A.open(m)
            ds.completed  # forces the sqlite connection (and its lock check)
        except OSError as e:
            if store == "sqlite" and m == "w" and "locked" in str(e) and type(e) is OSError:
                res.refused += 1
                res.count("sqlite-open-w-refused-locked")
                ds = A.open("a")
                ds.completed
                m = "a"
            else:
                raise
        state["live"] = ds
        state["held"] = {}
        state["writer"] = _make_writer(ds) if FRONT else None
        mode = m
        return ds

    def resync(i, op, fresh):
        """after a witness: adopt what the source really holds and start from a clean live object"""
        nonlocal model
        res.count("resync-after-witness")
        model = Model.from_obs(fresh)
        ds = state["live"]
        try:
            _close(ds, unlock=(mode == "w"), force=True)
        except Exception:  # noqa: BLE001
            pass
        state["live"] = None
        open_live(mode, i, op)

    for i, op in enumerate(ops):
        kind = op["op"]
        if state["live"] is None and kind != "reopen":
            open_live("w", i, op)
        ds = state["live"]
        target = None
        payload = None
        ctx = kind
        expected = model
        no_change = False
        inv_err = None
        flagged = False
        lid = None
        pre_listing = None

        if kind == "reopen":
            ctx = f"reopen-{op['mode']}"
            try:
                if ds is not None:
                    _close(ds, unlock=bool(op.get("unlock")))
                state["live"] = None
                if op["mode"] == "r":
                    pre_listing = A.listing()  # after the previous (possibly writing) session is closed
                open_live(op["mode"], i, op)
            except CacheInvariantError as e:
                inv_err = e
                if state["live"] is None:
                    open_live(op["mode"], i, op)
            except Exception as e:  # noqa: BLE001
                res.evals += 1
                witness(exc_mechanism(f"C13/{label}/reopen@{op['mode']}", e), i, op, error=repr(e)[:300])
                return
            reopened = True
            res.count(f"op:{store}:reopen-{mode}")
        else:
            # pre-state of the live cache must be clean, so that an invariant error during the call is a post-state one
            prob = (_dir_cache_problem if store == "dir" else _sql_cache_problem)(ds)
            if prob is not None:
                res.evals += 1
                witness(f"C13/{label}/before-{kind}/invariant/{prob}", i, op)
                try:
                    fresh0 = _observe_fresh(A)
                except Exception:  # noqa: BLE001
                    return
                resync(i, op, fresh0)
                ds = state["live"]
            if mode == "r":
                pre_listing = A.listing()
            # ---- what the model says
            if kind in ("write", "write_not_completed", "drop"):
                lid = strip_render(store, op["id"])
                target = {"lid": lid, "completed": A.cuid(lid), "not_completed": A.nuid(lid)}
                in_c, in_n = target["completed"] in model.C, target["not_completed"] in model.N
                if kind == "drop":
                    ctx = "has-not-completed" if in_n else ("has-completed-only" if in_c else "absent")
                else:
                    ctx = "over-completed" if in_c else "over-not-completed" if in_n else "new-id"
            elif kind == "drop_all":
                ctx = "some-not-completed" if model.N else "no-not-completed"
            elif kind == "write_log":
                target = {"lid": None, "logs": A.luid(op["id"])}
                ctx = "log"
            if kind in ("write", "write_not_completed", "write_log"):
                payload_n += 1
                payload = op.get("data") or f">{tag}.{i} {kind} {op['id']}\nACGT{payload_n}\n"
                if FRONT is not None and kind != "write_log":
                    payload = "PAY_" + re.sub(r"[^A-Za-z0-9]", "_", f"{tag}_{i}_{payload_n}") + "_YAP"
            applied = model.copy()
            if kind == "write":
                applied.C[target["completed"]] = [payload, md5hex(payload)]
                applied.N.pop(target["not_completed"], None)
            elif kind == "write_not_completed":
                applied.N[target["not_completed"]] = [payload, md5hex(payload)]
                applied.C.pop(target["completed"], None)
            elif kind == "write_log":
                applied.L[target["logs"]] = payload
            elif kind == "drop":
                applied.N.pop(target["not_completed"], None)
            elif kind == "drop_all":
                applied.N.clear()
            over = ctx in ("over-completed", "over-not-completed")
            refusal_ok = (
                mode == "r"
                or (mode == "a" and kind in ("write", "write_not_completed") and over)
                or (mode == "w" and kind == "write_not_completed" and ctx == "over-completed")
            )
            must_not_change = mode == "r" or (mode == "a" and kind in ("write", "write_not_completed") and ctx == "over-completed")
            # ---- the real call
            outcome = "returned"
            exc = None
            ret = None
            try:
                if kind == "write" and FRONT is not None:
                    ret = state["writer"].main(_encode(payload, True), identifier=op["id"])
                elif kind == "write_not_completed" and FRONT is not None:
                    ret = state["writer"].main(_encode(payload, False), identifier=op["id"])
                elif kind == "write":
                    ret = ds.write(unique_id=op["id"], data=payload)
                elif kind == "write_not_completed":
                    ret = ds.write_not_completed(unique_id=op["id"], data=payload)
                elif kind == "write_log":
                    ds.write_log(unique_id=op["id"], data=payload)
                elif kind == "drop":
                    ds.drop_not_completed(unique_id=op["id"])
                elif kind == "drop_all":
                    ds.drop_not_completed()
                else:
                    raise ValueError(f"unknown op {kind}")
            except CacheInvariantError as e:
                inv_err = e  # raised by the post-call check: the body ran to completion
            except Exception as e:  # noqa: BLE001
                if kind not in MUTATORS:
                    raise
                outcome = "raised"
                exc = e
            res.count(f"op:{store}:{kind}@{mode}")
            res.count(f"ctx:{store}:{kind}:{ctx}")
            if outcome == "raised":
                documented = type(exc) is OSError and ("readonly" in str(exc) or "append mode" in str(exc))
                if mode == "r":
                    # any rejection is fine as long as nothing changes (checked below)
                    res.refused += 1
                    res.count(f"r-rejected:{store}:{kind}:{type(exc).__name__}")
                    no_change = True
                elif refusal_ok and documented:
                    res.refused += 1
                    res.count(f"refused:{store}:{kind}@{mode}:{ctx}")
                    no_change = True
                else:
                    res.evals += 1
                    flagged = True
                    witness(exc_mechanism(f"C13/{label}/{kind}" + (f"/{ctx}" if kind == "drop_all" else ""), exc), i, op, context=ctx, error=repr(exc)[:300], id_class=id_class(store, kind, lid, op.get("id")))
            else:
                if must_not_change:
                    no_change = True
                    res.count(f"silent-no-op-allowed:{store}:{kind}@{mode}:{ctx}")
                if ret is None and kind == "write" and mode != "r":
                    res.count(f"write-returned-None:{store}@{mode}:{ctx}")
            expected = model if no_change else applied

        # ---- observe: fresh read-only store, then the live store
        modepart = "@r" if mode == "r" else (f"@{mode}" if ctx == "over-completed" and kind in ("write", "write_not_completed") else "")
        idc = id_class(store, kind, op["id"] if kind == "write_log" else lid, op.get("id"))
        idpart = "" if idc == "plain" else f"/{idc}"
        base = f"C13/{label}/{kind}{modepart}/{ctx}"
        try:
            fresh = _observe_fresh(A)
        except Exception as e:  # noqa: BLE001
            res.evals += 1
            if isinstance(e, CacheInvariantError):
                witness(f"{base}/fresh-store/invariant/{e}", i, op, expected=expected.as_obs())
            else:
                witness(exc_mechanism(f"{base}/observe-fresh", e), i, op, error=repr(e)[:300], expected=expected.as_obs())
            res.count("history-aborted")
            return
        if flagged:
            # unexpected exception: nothing to compare against; continue from what is really there
            resync(i, op, fresh)
            prev_kind = kind
            continue
        res.evals += 1
        diffs = differences(expected, fresh, A, target, payload, model, no_change_expected=no_change)
        if diffs:
            flagged = True
            cls = diffs[0][1]
            stem = cls.split("/")[0]
            for k_ in ("completed-", "not_completed-"):
                if stem.startswith(k_):
                    stem = stem[len(k_):]
            if mode == "r":
                mech = f"C13/{label}/{kind}@r/mutated-in-read-only"
            elif no_change and kind in MUTATORS and mode == "a":
                mech = f"{base}/changed-despite-append-mode{idpart}"
            elif stem in ("other-record-lost", "other-record-not-removed"):
                mech = f"C13/{label}/{kind}/{cls}"  # the relation class says it all
            elif idc != "plain" and stem in MISPLACED:
                mech = f"C13/{label}/{kind}/identifier-mangled/{idc}"
            elif stem in ("target-not-overwritten", "target-not-retired"):
                mech = f"{base}/{cls}"
            else:
                mech = f"{base}/{cls}{idpart}"
            witness(mech, i, op, differences=[d[1] for d in diffs], expected=expected.as_obs(), got_fresh=fresh, payload=payload)
        # live
        live = None
        live_exc = None
        try:
            live = observe(state["live"], A.probes)
        except CacheInvariantError as e:
            inv_err = inv_err or e
        except Exception as e:  # noqa: BLE001
            live_exc = e
        res.evals += 1
        if flagged:
            # the persisted state is already wrong at this step: one witness per step, the live view goes into the resync
            if inv_err is not None or live_exc is not None or live != fresh:
                res.count("live-view-also-wrong-at-flagged-step")
        elif inv_err is not None:
            flagged = True
            witness(f"{base}/invariant/{inv_err}", i, op, expected=expected.as_obs(), got_fresh=fresh, got_live=live)
        elif live_exc is not None:
            flagged = True
            witness(exc_mechanism(f"{base}/observe-live", live_exc), i, op, error=repr(live_exc)[:300], got_fresh=fresh)
        elif live != fresh:
            ld = differences(Model.from_obs(fresh), live, A, target, payload, model)
            flagged = True
            cls = ld[0][1] if ld else "order-or-duplicates"
            witness(f"{base}/live-differs-from-fresh/{cls}", i, op, differences=[d[1] for d in ld], got_fresh=fresh, got_live=live)
        # member objects handed out earlier must still tell the truth (read / md5 / names are not to be cached stale)
        if not flagged and live is not None:
            held_view = held_odd = held_exc = None
            try:
                held_view, held_odd = observe_held(state["live"], state["held"])
            except Exception as e:  # noqa: BLE001
                held_exc = e
            res.evals += 1
            res.count(f"held-member-checks:{store}")
            if kind in ("write", "write_not_completed") and ctx in ("over-completed", "over-not-completed") and not no_change:
                res.count(f"held-member-rechecked-after-rewrite:{store}")
            if held_exc is not None:
                flagged = True
                if isinstance(held_exc, CacheInvariantError):
                    witness(f"{base}/invariant/{held_exc}", i, op, got_fresh=fresh)
                else:
                    witness(exc_mechanism(f"{base}/held-member", held_exc), i, op, error=repr(held_exc)[:300], got_fresh=fresh)
            elif held_odd:
                flagged = True
                witness(f"{base}/held-member/name-differs-from-listing", i, op, odd=held_odd)
            else:
                for K in ("completed", "not_completed"):
                    if held_view[K] != fresh[K] and not flagged:
                        flagged = True
                        want = {r[0]: r for r in fresh[K]}
                        bad = [r for r in held_view[K] if want.get(r[0]) != r]
                        what = (
                            "md5-stale"
                            if bad and all(want.get(r[0]) and want[r[0]][1] == r[1] for r in bad)
                            else "content-stale"
                            if bad
                            else "membership"
                        )
                        witness(f"{base}/held-member/{K}-{what}", i, op, held_member_view=held_view[K], got_fresh=fresh[K])
        if pre_listing is not None:
            res.evals += 1
            post = A.listing()
            if post != pre_listing and not flagged:
                flagged = True
                changed = sorted(k for k in set(pre_listing) | set(post) if pre_listing.get(k) != post.get(k))
                witness(f"C13/{label}/{kind}@r/listing-changed-in-read-only", i, op, changed=changed)
        # ---- signature / bookkeeping
        rel = None
        if lid is not None:
            others = {A.logical(u) for u in list(model.C) + list(model.N)}
            rels = {relation(o, lid) for o in others if o != lid}
            if target["completed"] in model.C or target["not_completed"] in model.N:
                rels.add("same-id")
            rel = next((r for r in REL_ORDER if r in rels), None)
        if rel is not None or reopened:
            res.sig(store, mode, kind, ctx, rel or "none", prev_kind)
            res.count("nontrivial-steps")
        if rel is not None:
            res.count(f"related:{store}:{rel}")
        res.count("steps")
        if flagged:
            resync(i, op, fresh)
        else:
            model = expected
        prev_kind = kind


def _probes(A, ops):
    """relative identifiers to ask `in store` about: every identifier of the history, bare and as stored"""
    out = set()
    for op in ops:
        if op["op"] in ("write", "write_not_completed", "drop"):
            lid = strip_render(A.store, op["id"])
            out.update({lid, A.cuid(lid), A.nuid(lid)})
    return sorted(out)


def _observe_fresh(A):
    # the observer passes the Mode member: DataStoreDirectory(mode="r") (a str) creates missing sub-directories, which
    # would repair the very state under observation
    from cogent3.app.data_store import READONLY

    ro = A.open(READONLY)
    try:
        return observe(ro, A.probes)
    finally:
        if hasattr(ro, "close"):
            ro.close()


# ---------------------------------------------------------------------------
# generators


def render(rng, store, kind, lid):
    """identifier as a caller might pass it"""
    r = rng.random()
    if FRONT is not None:
        return lid  # explicit identifiers go to the writer app exactly as they are
    if kind == "write":
        return f"{lid}.{SUFFIX}" if r < 0.4 else lid
    if kind == "write_not_completed":
        return f"{lid}.json" if r < 0.4 else lid
    # drop: bare or with the store suffix (what DataStoreDirectory.write itself passes)
    return f"{lid}.{SUFFIX}" if r < 0.3 else lid


def random_history(rng, store, maxlen, profile, given=None):
    fams = [given] if given else PLAIN_FAMILIES if profile == "plain" else FAMILIES + EXTRA_FAMILIES[store]
    ids = list(rng.choice(fams))
    if rng.random() < 0.4:
        ids += rng.choice(fams)
    if rng.random() < 0.3:
        ids.append(rng.choice(given or (IDS + EXTRA_IDS[store] if profile != "plain" else ["a", "ba", "x1", "seq"])))
    ids = sorted(set(ids))
    if profile == "tight":
        ids = rng.sample(ids, min(len(ids), 2))
    mode = rng.choice(["w", "w", "a"])
    ops = [{"op": "reopen", "mode": mode}]
    logged = False
    nlog = 0
    n = rng.randint(1, maxlen)
    while len(ops) < n + 1:
        if mode == "r" and rng.random() < 0.45:
            kind = "reopen"
        else:
            kind = rng.choices(
                ["write", "write_not_completed", "drop", "drop_all", "write_log", "reopen"],
                [28, 28, 10, 5, 6, 17],
            )[0]
        if kind == "reopen":
            m = rng.choices(["r", "a", "w"], [3, 4, 3])[0] if mode != "r" else rng.choice(["a", "w"])
            op = {"op": "reopen", "mode": m}
            if store == "sqlite" and rng.random() < (0.7 if m == "w" else 0.2):
                op["unlock"] = True
            ops.append(op)
            mode = m
            logged = False
            continue
        if kind == "write_log":
            if store == "sqlite" and logged:
                continue
            nlog += 1
            base = "fasta" if ("fasta" in ids and rng.random() < 0.5) else "blog" if ("blog" in ids and rng.random() < 0.5) else "run"
            ops.append({"op": "write_log", "id": f"{base}-{nlog}.log"})
            logged = True
            continue
        if kind == "drop_all":
            ops.append({"op": "drop_all"})
            continue
        lid = rng.choice(ids)
        ops.append({"op": kind, "id": render(rng, store, kind, lid)})
    return ops


TEMPLATES = ["retire", "drop", "rewrite", "nc-over-c", "nc-over-nc", "readonly", "drop-all", "logs", "c-over-nc-other", "ro-open"]
SESSIONS = ["same", "reopen-a", "reopen-w"]


def pair_script(rng, store, x, y, template, session, pool=None):
    """short directed history over the ordered identifier pair (x, y); the last block runs in `session`"""

    def W(i):
        return {"op": "write", "id": render(rng, store, "write", i)}

    def N(i):
        return {"op": "write_not_completed", "id": render(rng, store, "write_not_completed", i)}

    def D(i):
        return {"op": "drop", "id": render(rng, store, "drop", i)}

    sw = []
    if session == "reopen-a":
        sw = [{"op": "reopen", "mode": "a"}]
    elif session == "reopen-w":
        sw = [{"op": "reopen", "mode": "w", "unlock": True}]
    first = {"op": "reopen", "mode": "w"}
    log1 = {"op": "write_log", "id": "run-1.log"}
    log2 = {"op": "write_log", "id": "fasta-2.log" if x in IDS else "blog.log"}
    if template == "retire":
        return [first, N(x), N(y)] + sw + [W(x)]
    if template == "drop":
        return [first, N(x), N(y)] + sw + [D(x), D(x)]
    if template == "rewrite":
        return [first, W(x), W(y)] + sw + [W(x)]
    if template == "nc-over-c":
        return [first, W(x), N(y)] + sw + [N(x)]
    if template == "nc-over-nc":
        return [first, N(x), W(y)] + sw + [N(x)]
    if template == "c-over-nc-other":
        return [first, W(x), N(y)] + sw + [W(y), W(x)]
    if template == "drop-all":
        return [first, N(x), N(y), W(y)] + sw + [{"op": "drop_all"}, {"op": "drop_all"}]
    if template == "logs":
        return [first, W(x), N(y), log1] + sw + ([log2] if (sw or store == "dir") else []) + [W(y)]
    if template == "ro-open":
        # a read-only open of a store whose not_completed directory is gone
        return [first, N(x), W(y)] + sw + [{"op": "drop_all"}, {"op": "reopen", "mode": "r"}, {"op": "drop_all"}]
    if template == "readonly":
        unlock = {"unlock": True} if session == "reopen-w" else {}
        pool = pool or IDS
        z = next(i for i in pool[pool.index(y) + 1 :] + pool if i not in (x, y))  # a second not-completed record, for drop-all
        return [first, W(x), N(y), N(z), {"op": "reopen", "mode": "r"}, W(x), W(y), N(x), N(y), log1, D(y), {"op": "drop_all"}, {"op": "drop_all"}] + (
            [{"op": "reopen", "mode": "a" if session != "reopen-w" else "w", **unlock}, D(y)]
        )
    raise ValueError(template)


def gen_cases(rng, tier):
    cases = []
    for store in ("dir", "sqlite"):
        for x in IDS:
            if tier == "quick":
                # every (x, y, template) once; the session rotates over (x, y, template) with a seed-dependent offset,
                # so every (x, template, session) and every (y, template, session) still occurs for every seed
                cases.append({"kind": "pairs", "store": store, "x": x, "session": "rotate", "rot": rng.randrange(3), "seed": rng.randrange(2**32)})
            else:
                for s in SESSIONS:
                    cases.append({"kind": "pairs", "store": store, "x": x, "session": s, "seed": rng.randrange(2**32)})
        ys = EXTRA_IDS[store] + EXTRA_PARTNERS[store]
        for x in EXTRA_IDS[store]:
            sessions = ["rotate"] if tier == "quick" else SESSIONS
            for s in sessions:
                cases.append({"kind": "pairs", "store": store, "x": x, "ys": ys, "session": s, "rot": rng.randrange(3), "seed": rng.randrange(2**32)})
    # further store configurations: multi-part suffixes (raw front end) and the four writer apps as front end
    configs = [("dir", sfx, None, ["a", "ba", f"a.{sfx.split('.')[0]}", "a.b"]) for sfx in MULTI_SUFFIXES]
    configs += [(st, sfx, app, [i for i in APP_IDS if not (sfx and i.endswith(f".{sfx}"))]) for st, sfx, app in APP_FRONTS]
    for st, sfx, app, ids in configs:
        for x in ids:
            c = {"kind": "pairs", "store": st, "suffix": sfx, "front": app, "x": x, "ys": ids, "seed": rng.randrange(2**32)}
            if tier == "quick":
                cases.append({**c, "session": "rotate", "rot": rng.randrange(3), "every": 3})
            else:
                cases.extend({**c, "session": s_} for s_ in SESSIONS)
        for _ in range(1 if tier == "quick" else 6):
            c = {"kind": "random", "store": st, "suffix": sfx, "front": app, "ids": ids, "seed": rng.randrange(2**32), "profile": "given"}
            cases.append({**c, "n": 12, "maxlen": 15} if tier == "quick" else {**c, "n": 50, "maxlen": 25})
    nrand = 32 if tier == "quick" else 480
    per = 20 if tier == "quick" else 50
    maxlen = 15 if tier == "quick" else 25
    profiles = ["full", "full", "plain", "tight"]
    for i in range(nrand):
        cases.append(
            {
                "kind": "random",
                "store": "dir" if i % 2 == 0 else "sqlite",
                "seed": rng.randrange(2**32),
                "n": per,
                "maxlen": maxlen,
                "profile": profiles[(i // 2) % len(profiles)],
            }
        )
    return cases


def run_case(case):
    res = Result()
    kind = case["kind"]
    store = case["store"]
    _configure(case.get("suffix"), case.get("front"))
    if kind == "pairs":
        rng = random.Random(case["seed"])
        x = case["x"]
        ys = case.get("ys", IDS)
        ix = ys.index(x)
        for iy, y in enumerate(ys):
            for it, t in enumerate(TEMPLATES):
                if t not in case.get("templates", TEMPLATES):
                    continue
                session = case["session"]
                if case.get("every") and (ix + iy + it + case.get("rot", 0)) % case["every"]:
                    continue  # quick tier, extra configurations: a rotating third of the templates per pair
                if session == "rotate":
                    k = ix + iy + it + case.get("rot", 0)
                    session = SESSIONS[k % len(SESSIONS)]
                    if t == "readonly" and (ix + 2 * iy + case.get("rot", 0)) % 3:
                        continue  # the long read-only template: a rotating third of the y's per x (quick tier)
                ops = pair_script(rng, store, x, y, t, session, pool=ys)
                run_history(res, store, ops, tag=f"p.{t}")
                res.count(f"histories:{store}")
        res.sample({"store": store, "ops": [_short(o) for o in ops]})
    elif kind == "random":
        rng = random.Random(case["seed"])
        for h in range(case["n"]):
            ops = random_history(rng, store, case["maxlen"], case["profile"], case.get("ids"))
            run_history(res, store, ops, tag=f"r{h}")
            res.count(f"histories:{store}")
        res.sample({"store": store, "ops": [_short(o) for o in ops]})
    elif kind == "script":
        run_history(res, store, case["ops"], tag="s")
        res.count(f"histories:{store}")
    else:
        raise ValueError(kind)
    for k in ("dir", "sqlite"):
        d = _INV[k] - _INV_FLUSHED[k]
        _INV_FLUSHED[k] = _INV[k]
        if d:
            res.count(f"invariant-evaluations:{k}", d)
    if _INV_HARNESS_ERRORS:
        msg = "; ".join(_INV_HARNESS_ERRORS[:3])
        del _INV_HARNESS_ERRORS[:]
        raise RuntimeError(f"invariant re-scan failed inside the monitor: {msg}")
    return res


def required(counters, tier):
    need = []
    for sfx in MULTI_SUFFIXES:
        if counters.get(f"config:dir:{sfx}", 0) == 0:
            need.append(f"no history on a directory store with suffix {sfx}")
    for st, sfx, app in APP_FRONTS:
        if counters.get(f"config:{st}.{app}:{sfx or '-'}", 0) == 0:
            need.append(f"no history driven through the {app} app")
    for store in ("dir", "sqlite"):
        if counters.get(f"invariant-evaluations:{store}", 0) == 0:
            need.append(f"icontract invariant on the {store} store was never evaluated")
        if counters.get(f"held-member-rechecked-after-rewrite:{store}", 0) == 0:
            need.append(f"{store}: no member object held from an earlier listing was re-read after its record was rewritten")
        for op in ("write", "write_not_completed", "write_log", "drop", "drop_all"):
            for mode in ("r", "a", "w"):
                if counters.get(f"op:{store}:{op}@{mode}", 0) == 0:
                    need.append(f"{op} never executed on a {store} store in mode {mode}")
        for mode in ("r", "a", "w"):
            if counters.get(f"op:{store}:reopen-{mode}", 0) == 0:
                need.append(f"{store} store never re-opened in mode {mode}")
        for c in (
            "write:over-completed",
            "write:over-not-completed",
            "write:new-id",
            "write_not_completed:over-not-completed",
            "write_not_completed:over-completed",
            "drop:has-not-completed",
            "drop:absent",
            "drop_all:some-not-completed",
        ):
            if counters.get(f"ctx:{store}:{c}", 0) == 0:
                need.append(f"{store}: context {c} never reached")
        for r in ("other-id-endswith-target-id", "target-id-endswith-other-id", "other-id-startswith-target-id"):
            if counters.get(f"related:{store}:{r}", 0) == 0:
                need.append(f"{store}: no step whose target id has relation {r} to a stored id")
    return need
