"""C02 — log-likelihood equals the first-principles Felsenstein sum-product.

Shape B with a three-layer independent oracle (see vmon/models/lfmodel.py):
  L2  rate matrix rebuilt from the published definition          vs lf.get_rate_matrix_for_edge
  L3  scipy.linalg.expm(Q t)                                      vs lf.get_psub_for_edge
  L1  recursive pruning over the harness's own tree/leaf vectors  vs lf.get_full_length_likelihoods / lf.lnL
plus the "all columns sum to one" normalisation on the real lf.
"""

import itertools
import math
import random

import numpy as np

from vmon.core import Result, exc_mechanism
from vmon.models import lfmodel as M

ID = "C02"
LEVEL = "exploration"
RULE = (
    "seeded random problems: tree (2-7 tips, rooted/unrooted, polytomies, log-uniform lengths incl. exact zeros) x "
    "alignment (1-40 columns, 0-30% degenerate/gap symbols, duplicated columns) x model (nucleotide reversible and "
    "non-reversible, user-built dinucleotide, codon, empirical protein) x Dirichlet motif probs x log-uniform rate "
    "parameters x configuration (global / per-edge scoped parameters, 1-4 gamma rate bins, expm setting). Each "
    "problem is decided by comparing lnL, per-column likelihoods, every edge's Q and P with the independent stack. "
    "Non-trivial = >=3 taxa and (degenerate symbol or polytomy or non-uniform motif probs) and non-default rate "
    "parameters; distinct = (model, tree-shape class, scoping, bins, has-ambiguity)."
)
LEVEL_TEXT = (
    "Every generated likelihood function is re-derived outside cogent3.evolve (own IUPAC tables, own tree, Q from the "
    "published definition, scipy expm, 30-line pruning) and compared layer by layer, so a disagreement names the layer. "
    "Sampled, not exhaustive: continuous parameter spaces and tree space cannot be covered; held means held on the "
    "executions listed in the evidence."
    " Bin rates are recomputed from the discrete-gamma definition; scopes are also given by tip names with stem/clade flags; codon models are also run without gap recoding on data with partly missing words."
)
LEVEL_NOTE = (
    "trusted: numpy/scipy linear algebra; the order of model states; the empirical protein exchangeability tables and "
    "the CpG predicate masks of the H04 family are read from the model (data, not logic); standard genetic code table"
)
TECHNIQUE = "runtime monitoring: boundary recorder + independent executable model (Felsenstein pruning, Q from definition, scipy expm)"
ASSUMPTIONS = [
    "scipy.linalg.expm and numpy are correct",
    "model state order is layout, read from the model",
    "BH/DT discrete-time models: only the pruning layer applies (property says continuous-time for Q)",
]
ENV = {"NUMBA_BOUNDSCHECK": "1"}
TIMEOUT = {"quick": 1200, "thorough": 7200}

QUICK_MODELS = M.NUC_REV + M.NUC_NS + M.SOLVED + ["MG94HKY", "CNFGTR", "GY94", "JTT92", "DINUC_conditional", "DINUCGTR_monomer", "DINUCGN_tuple", "DINUC_monomers", "CODON_monomers"]
ALL_MODELS = M.NUC_REV + M.NUC_NS + M.SOLVED + M.CODON + M.USERCODON + M.PROTEIN + M.DINUC


def gen_cases(rng, tier):
    cases = []
    models = QUICK_MODELS if tier == "quick" else ALL_MODELS
    per = 4 if tier == "quick" else 24
    for model in models:
        big = M.kind_of(model) in ("codon", "protein", "dinuc")
        n = 6 if big else 14
        if tier == "thorough":
            n = 10 if big else 25
        for i in range(per if not big else max(2, per // 2)):
            cases.append({"kind": "problems", "model": model, "seed": rng.randrange(2**32), "n": n})
    # all-columns normalisation
    for model in ["F81", "HKY85", "GTR", "GN", "ssGN", "TN93"]:
        for i in range(1 if tier == "quick" else 6):
            cases.append({"kind": "allcols", "model": model, "seed": rng.randrange(2**32), "ntips": rng.choice([2, 3, 4])})
    cases.append({"kind": "allcols", "model": "DINUC_tuple", "seed": rng.randrange(2**32), "ntips": 2})
    if tier == "thorough":
        cases.append({"kind": "allcols", "model": "DINUC_conditional", "seed": rng.randrange(2**32), "ntips": 3})
        cases.append({"kind": "allcols", "model": "JTT92", "seed": rng.randrange(2**32), "ntips": 2})
    # compiled-vs-interpreted differential (thorough): the same problems evaluated with NUMBA_DISABLE_JIT=1
    if tier == "thorough":
        for _ in range(6):
            cases.append({"kind": "nojit", "seed": rng.randrange(2**32), "n": 12})
    # discrete-time models: pruning layer only
    for model in ["BH"]:
        for i in range(2 if tier == "quick" else 10):
            cases.append({"kind": "discrete", "model": model, "seed": rng.randrange(2**32), "n": 8})
    return cases


def close(a, b, rtol, atol=0.0):
    a = np.asarray(a, dtype=float)
    b = np.asarray(b, dtype=float)
    if a.shape != b.shape:
        return False
    both_inf = np.isinf(a) & np.isinf(b) & (np.sign(a) == np.sign(b))
    return bool(np.all(both_inf | (np.abs(a - b) <= atol + rtol * np.maximum(np.abs(a), np.abs(b)))))


def decide_problem(res, prob, replay_kind="one"):
    """build the real lf for `prob`, observe, compare with the oracle stack"""
    model = prob["model"]
    kind = M.kind_of(model)
    fam = {"nuc": "nucleotide", "codon": "codon", "protein": "protein", "dinuc": "dinucleotide"}[kind]
    rc = {"kind": "one", "prob": prob}
    try:
        lf = M.build_lf(prob)
        lnL = float(lf.lnL)
        col_lh = np.array(lf.get_full_length_likelihoods(), dtype=float)
    except Exception as e:  # noqa: BLE001
        res.evals += 1
        if prob.get("expm") == "checked" and isinstance(e, ArithmeticError) and "precision" in str(e):
            # expm="checked" is documented to refuse a rate matrix whose eigendecomposition fails its precision test
            res.refused += 1
            res.count("checked-exponentiator-refused")
            return None
        res.witness(exc_mechanism(f"C02/build-or-evaluate/{fam}", e), error=repr(e)[:300], replay_case=rc)
        return None
    sm = lf.model
    states = [str(s) for s in sm.get_alphabet()]
    ml = len(states[0])
    bins = prob.get("bins", 1)
    rtol = 1e-8 if len(states) <= 16 else 1e-6

    def bad(layer, **detail):
        res.witness(f"C02/{layer}", model=model, replay_case=rc, **detail)

    # motif probs as the lf reports them must be what was set
    wp_expected = None
    # L2 per edge
    tree = prob["tree"]
    edge_nodes = M.edges(tree)
    bin_names = [f"bin{i}" for i in range(bins)] if bins > 1 else [None]
    if bins > 1:
        bprobs = np.array(lf.get_param_value("bprobs"), dtype=float)
        rates = np.array([lf.get_param_value("rate", bin=b) for b in bin_names], dtype=float)
        res.evals += 1
        if not close((bprobs * rates).sum(), 1.0, 1e-9):
            bad("bins/rates-do-not-average-to-one", bprobs=bprobs, rates=rates)
        # the rates themselves from the definition of the discrete gamma, with the bin probabilities the harness set
        own_bp = np.array(prob["bprobs"], dtype=float) if prob.get("bprobs") else np.ones(bins) / bins
        own_rates = M.gamma_bin_rates(prob["rate_shape"], own_bp)
        res.evals += 1
        res.count("gamma-bin-rates-checked:" + ("unequal-bprobs" if prob.get("bprobs") else "equal-bprobs"))
        if not np.allclose(bprobs, own_bp / own_bp.sum(), rtol=1e-9, atol=1e-12):
            bad("bins/reported-bprobs-differ-from-those-set", reported=bprobs, set=own_bp)
        elif not np.allclose(rates, own_rates, rtol=1e-6, atol=1e-9):
            bad("bins/rates-differ-from-discrete-gamma-definition", reported=rates, expected=own_rates, bprobs=bprobs, shape=prob["rate_shape"])
        rates = own_rates
    else:
        bprobs = np.array([1.0])
        rates = np.array([1.0])
    P_lf = {}
    P_or = {}
    for e in edge_nodes:
        vals = M.edge_param_values(prob, e["name"])
        Q_or, wp = M.build_Q(model, states, vals, prob["mprobs"], sm=sm, gc=prob.get("gc", 1))
        wp_expected = wp
        if model in M.SOLVED:
            Q_lf = None  # closed-form P: the function has no Q to report (rate_matrix_required=False)
        else:
            try:
                Q_lf = lf.get_rate_matrix_for_edge(e["name"], calibrated=True).to_array()
            except Exception as ex:  # noqa: BLE001
                res.evals += 1
                res.witness(exc_mechanism("C02/get_rate_matrix_for_edge", ex), model=model, replay_case=rc)
                return None
            res.evals += 1
            res.count("L2-rate-matrix")
            if not close(Q_lf, Q_or, 1e-9, 1e-12):
                i, j = np.unravel_index(np.argmax(np.abs(Q_lf - Q_or)), Q_or.shape)
                bad(f"L2-rate-matrix/{fam}", edge=e["name"], cell=(states[i], states[j]), got=Q_lf[i, j], exp=Q_or[i, j], params=vals)
        for b, bn in enumerate(bin_names):
            kw = {"bin": bn} if bn else {}
            P = lf.get_psub_for_edge(e["name"], **kw).to_array()
            P_lf[(e["name"], b)] = P
            t = e["length"] * rates[b]
            P_or[(e["name"], b)] = M.expm(Q_or, t)
            res.evals += 1
            res.count("L3-exponential")
            if Q_lf is None:
                res.count("solved-P")
                if not close(P, P_or[(e["name"], b)], 1e-7, 1e-9):
                    bad("L3-closed-form-P/solved-nucleotide", edge=e["name"], bin=b, length=t, maxdiff=float(np.abs(P - P_or[(e["name"], b)]).max()))
            elif not close(P, M.expm(Q_lf, t), 1e-7, 1e-9):
                bad(f"L3-exponential/{prob.get('expm') or 'default'}", edge=e["name"], bin=b, length=t, maxdiff=float(np.abs(P - M.expm(Q_lf, t)).max()))
    # reported motif probs
    res.evals += 1
    if prob["mprobs"] is not None and "positions" not in prob["mprobs"]:
        mp = lf.get_motif_probs()
        mp_got = {str(k): float(mp[k]) for k in mp.keys()}
        if any(abs(mp_got.get(k, -1) - v) > 1e-9 for k, v in prob["mprobs"].items()):
            bad("motif-probs-not-as-set", got=mp_got, exp=prob["mprobs"])
    # L1 pruning with the lf's own P matrices
    leaves = M.leaf_vectors(prob["aln"], states, "protein" if kind == "protein" else "nuc", ml)
    if prob.get("hmm"):
        # phylo-HMM over rate classes: the likelihood is not a product over columns; decide lnL with the forward algorithm
        per_bin_l1 = [M.prune_columns(tree, leaves, lambda ch, b=b: P_lf[(ch["name"], b)], wp_expected) for b in range(len(bin_names))]
        per_bin_or = [M.prune_columns(tree, leaves, lambda ch, b=b: P_or[(ch["name"], b)], wp_expected) for b in range(len(bin_names))]
        sw = prob["hmm"]["switch"]
        l1 = M.hmm_forward_lnL(per_bin_l1, bprobs, sw)
        lor = M.hmm_forward_lnL(per_bin_or, bprobs, sw)
        res.evals += 1
        res.count("hmm-bins")
        pclass = "equal-patch-probs" if abs(sum(bprobs[: len(bprobs) // 2]) - 0.5) < 1e-9 else "unequal-patch-probs"
        if not (close(lnL, l1, 1e-8, 1e-8) and close(lnL, lor, 1e-7, 1e-7)):
            bad(f"hmm-bins/lnL-differs-from-forward-algorithm/{pclass}", got=lnL, exp=lor, exp_with_reported_P=l1, switch=sw, bprobs=bprobs)
        res.sig(model, "hmm", f"bins{bins}", pclass, "switch1" if sw == 1.0 else "switch<1")
        res.count("problems")
        res.count("model:" + model)
        return lf
    cols_l1 = sum(bprobs[b] * M.prune_columns(tree, leaves, lambda ch, b=b: P_lf[(ch["name"], b)], wp_expected) for b in range(len(bin_names)))
    cols_full = sum(bprobs[b] * M.prune_columns(tree, leaves, lambda ch, b=b: P_or[(ch["name"], b)], wp_expected) for b in range(len(bin_names)))
    # G: transition probabilities are only defined to double-precision *absolute* accuracy (~1e-16); columns whose
    # likelihood is built from entries that small (multiple-hit changes on near-zero branches) inherit a large relative
    # uncertainty. Bound it by monotonicity: every term is non-negative, so P+eps / max(P-eps,0) bracket the value.
    # The half-width is 2e-14, or twice the largest absolute deviation actually observed between the function's P
    # matrices and the oracle's when that is larger (61-state non-reversible models through the eigen route reach
    # ~4e-14), capped at 1e-12: beyond that the deviation is not rounding and the bracket does not absorb it.
    maxdev = max((float(np.abs(P_lf[k_] - P_or[k_]).max()) for k_ in P_or if k_ in P_lf and P_lf[k_].shape == P_or[k_].shape), default=0.0)
    EPS = min(1e-12, max(2e-14, 2 * maxdev))
    cols_hi = sum(bprobs[b] * M.prune_columns(tree, leaves, lambda ch, b=b: P_or[(ch["name"], b)] + EPS, wp_expected) for b in range(len(bin_names)))
    cols_lo = sum(bprobs[b] * M.prune_columns(tree, leaves, lambda ch, b=b: np.maximum(P_or[(ch["name"], b)] - EPS, 0.0), wp_expected) for b in range(len(bin_names)))
    res.evals += 1
    res.count("L1-pruning")
    tclass = M.shape_class(tree).split("-", 1)[1]
    if col_lh.shape != cols_l1.shape or not close(col_lh, cols_l1, 1e-7, 1e-300):
        k = int(np.argmax(np.abs(np.log(np.maximum(col_lh, 1e-300)) - np.log(np.maximum(cols_l1, 1e-300))))) if col_lh.shape == cols_l1.shape else -1
        bad(f"L1-pruning/{fam}", tree_class=tclass, column=k, got=col_lh[k] if k >= 0 else list(col_lh.shape), exp=cols_l1[k] if k >= 0 else list(cols_l1.shape))
    with np.errstate(divide="ignore"):
        lnL_or = float(np.log(cols_full).sum())
        lnL_l1 = float(np.log(cols_l1).sum())
    res.evals += 1
    res.count("lnL")
    if not close(lnL, lnL_l1, 1e-9, 1e-9):
        bad(f"lnL-vs-column-likelihoods/{fam}", got=lnL, exp=lnL_l1)
    with np.errstate(divide="ignore"):
        lnL_hi = float(np.log(cols_hi).sum())
        lnL_lo = float(np.log(cols_lo).sum())
    slack = rtol * max(1.0, abs(lnL_or)) if np.isfinite(lnL_or) else 0.0
    ok = close(lnL, lnL_or, rtol, 1e-8) or (lnL_lo - slack <= lnL <= lnL_hi + slack)
    if lnL_hi - lnL_or > 1e-6:
        res.count("rounding-dominated-problem")
    if not ok:
        bad(f"lnL-vs-independent-stack/{fam}", got=lnL, exp=lnL_or, bracket=(lnL_lo, lnL_hi), tree_class=tclass)
    # non-trivial?
    nt = len(M.tips(tree)) >= 3 and (M.has_ambiguity(prob) or "poly" in tclass or prob["mprobs"] is not None) and bool(prob["params"] or kind == "protein")
    if nt:
        res.sig(*M.sig_of(prob))
    res.count("problems")
    res.count("model:" + model)
    if "poly" in tclass:
        res.count("polytomy")
    if M.has_ambiguity(prob):
        res.count("with-ambiguity")
    if prob.get("edge_params"):
        res.count("scoped")
    if bins > 1:
        res.count("binned")
        if prob.get("bprobs"):
            res.count("binned-unequal-bprobs")
    if any(e["length"] == 0 for e in edge_nodes):
        res.count("zero-length-edge")
    if np.isinf(lnL):
        res.count("impossible-column(-inf)")
    return lf


def run_case(case):
    res = Result()
    kind = case["kind"]
    if kind == "one":
        decide_problem(res, case["prob"])
        return res
    if kind == "nojit":
        run_nojit(res, case)
        return res
    rng = random.Random(case["seed"])
    model = case["model"]
    if kind == "problems":
        for i in range(case["n"]):
            cfg = rng.random()
            bins = 1
            scoped = False
            expm_setting = None
            hmm = False
            if M.kind_of(model) == "nuc" and cfg < 0.3:
                bins = rng.choice([2, 3, 4])
                hmm = rng.random() < 0.4
            elif cfg < 0.55:
                scoped = True
            if rng.random() < 0.3 and model not in M.SOLVED:  # closed-form models have no expm setting
                expm_setting = rng.choice(["eigen", "pade", "either", "checked"])
            prob = M.gen_problem(rng, model, scoped=scoped, bins=bins, expm_setting=expm_setting, hmm=hmm, tip_scopes=True)
            if prob.get("edge_param_how"):
                how_ = next(iter(prob["edge_param_how"].values()))
                res.count("scope-by-tip-names:" + ("stem" if how_.get("stem") else "") + ("+clade" if how_.get("clade", not how_.get("stem", False)) else ""))
            if model in M.CODON and i % 3 == 2 and "-" not in "".join(prob["aln"].values()):
                prob["recode_gaps"] = False  # '?' inside a word goes through resolve_ambiguity, not through N
                res.count("codon-model-without-gap-recoding")
                table_ = M.codon_table(prob.get("gc", 1))
                inj = random.Random(i)
                for _try in range(40):  # one partly missing word ('A?C': compatible with up to 4 words, not with all)
                    nm_ = inj.choice(sorted(prob["aln"]))
                    k_ = 3 * inj.randrange(1, max(2, len(prob["aln"][nm_]) // 3))
                    w_ = prob["aln"][nm_][k_ : k_ + 3]
                    p_ = inj.randrange(3)
                    if len(w_) == 3 and set(w_) <= set("ACGT") and all(table_[w_[:p_] + x + w_[p_ + 1 :]] != "*" for x in "ACGT"):
                        prob["aln"][nm_] = prob["aln"][nm_][:k_] + w_[:p_] + "?" + w_[p_ + 1 :] + prob["aln"][nm_][k_ + 3 :]
                        res.count("partly-missing-word")
                        break
            if i % 4 == 1:
                prob["early_queries"] = True  # the function is queried (and refuses) before its alignment is given
                res.count("function-queried-before-alignment")
            decide_problem(res, prob)
            if i == 0:
                res.sample({"model": model, "tree": M.newick(prob["tree"]), "aln": prob["aln"], "params": prob["params"], "edge_params": prob["edge_params"], "bins": bins})
    elif kind == "allcols":
        ntips = case["ntips"]
        mkind = M.kind_of(model)
        ml = {"nuc": 1, "dinuc": 2, "protein": 1}[mkind]
        prob = M.gen_problem(rng, model, ntips=ntips, ncols=1, ambig=0.0, scoped=rng.random() < 0.5, zero_frac=0.0)
        names = M.tips(prob["tree"])
        alphabet = M.AA if mkind == "protein" else ["".join(x) for x in itertools.product("ACGT", repeat=ml)]
        cols = list(itertools.product(alphabet, repeat=len(names)))
        prob["aln"] = {nm: "".join(col[i] for col in cols) for i, nm in enumerate(names)}
        rc = {"kind": "one-allcols", "prob": prob}
        try:
            lf = M.build_lf(prob)
            lh = np.array(lf.get_full_length_likelihoods(), dtype=float)
            res.evals += 1
            res.count("all-columns-sum")
            if len(lh) != len(cols) or abs(lh.sum() - 1.0) > 1e-9:
                res.witness(f"C02/all-columns-do-not-sum-to-one/{mkind}", model=model, total=float(lh.sum()), ncols=len(cols), replay_case=rc)
            res.sig("allcols", model, ntips, "scoped" if prob["edge_params"] else "global")
        except Exception as e:  # noqa: BLE001
            res.evals += 1
            res.witness(exc_mechanism("C02/all-columns", e), model=model, replay_case=rc)
        res.sample({"allcols": model, "ntips": ntips, "ncols": len(cols)})
    elif kind == "one-allcols":
        prob = case["prob"]
        lf = M.build_lf(prob)
        lh = np.array(lf.get_full_length_likelihoods(), dtype=float)
        res.evals += 1
        if abs(lh.sum() - 1.0) > 1e-9:
            res.witness(f"C02/all-columns-do-not-sum-to-one/{M.kind_of(prob['model'])}", model=prob["model"], total=float(lh.sum()))
    elif kind == "discrete":
        for i in range(case["n"]):
            decide_discrete(res, rng, model)
    return res


def run_nojit(res, case):
    """the numba kernels compiled (this process) vs run as plain Python (helper process): same lnL, same columns"""
    import json as _json
    import os
    import subprocess
    import sys
    import tempfile

    rng = random.Random(case["seed"])
    probs = []
    for i in range(case["n"]):
        model = rng.choice(["HKY85", "GTR", "GN", "TN93_solved", "MG94HKY", "JTT92", "DINUC_conditional"])
        big = M.kind_of(model) != "nuc"
        probs.append(M.gen_problem(rng, model, ntips=rng.randint(3, 4 if big else 6), ncols=rng.randint(2, 5 if big else 25), scoped=rng.random() < 0.3, bins=rng.choice([1, 1, 3]) if M.kind_of(model) == "nuc" and model not in M.SOLVED else 1))
    here = []
    for p in probs:
        lf = M.build_lf(p)
        here.append((float(lf.lnL), np.asarray(lf.get_full_length_likelihoods(), dtype=float)))
    d = tempfile.mkdtemp(prefix="nojit-", dir=os.getcwd())
    pin, pout = os.path.join(d, "in.json"), os.path.join(d, "out.json")
    _json.dump(probs, open(pin, "w"))
    env = dict(os.environ, NUMBA_DISABLE_JIT="1")
    env.pop("NUMBA_BOUNDSCHECK", None)
    root = os.path.dirname(os.path.dirname(os.path.dirname(os.path.abspath(__file__))))
    env["PYTHONPATH"] = os.pathsep.join([p_ for p_ in (os.environ.get("VERIF_SRC"), root, env.get("PYTHONPATH")) if p_])
    r = subprocess.run([sys.executable, "-m", "vmon.nojit", pin, pout], env=env, capture_output=True, text=True, timeout=1500)
    if r.returncode != 0 or not os.path.exists(pout):
        raise RuntimeError("nojit helper failed: " + r.stderr[-500:])
    there = _json.load(open(pout))
    for p, (lnL, cols), o in zip(probs, here, there):
        res.evals += 1
        res.count("nojit-differential")
        rc = {"kind": "one", "prob": p}
        if "error" in o:
            res.witness("C02/nojit-differential/interpreted-kernel-raises", model=p["model"], error=o["error"], replay_case=rc)
            continue
        if not (close(lnL, o["lnL"], 1e-10, 1e-10) and close(cols, np.array(o["cols"]), 1e-10, 1e-300)):
            res.witness("C02/nojit-differential/compiled-and-interpreted-kernels-disagree", model=p["model"], compiled=lnL, interpreted=o["lnL"], replay_case=rc)
        res.sig("nojit", *M.sig_of(p))
    import shutil

    shutil.rmtree(d, ignore_errors=True)
    return res


def decide_discrete(res, rng, model):
    """BH: psubs are free parameters; only the pruning layer is decided"""
    from cogent3 import get_model, make_aligned_seqs, make_tree

    tree = M.random_tree(rng, rng.randint(3, 6), polytomy=0.25)
    names = M.tips(tree)
    aln = M.random_alignment(rng, names, "nuc", rng.randint(2, 20), rng.choice([0.0, 0.2]))
    # G: the discrete-time models neither model nor recode gaps ('-' is a documented ValueError); use N instead
    aln = {k: v.replace("-", "N") for k, v in aln.items()}
    rc = {"kind": "none"}
    try:
        sm = get_model(model)
        lf = sm.make_likelihood_function(make_tree(M.newick(tree, with_lengths=False)))
        lf.set_alignment(make_aligned_seqs(aln, moltype="dna"))
        states = [str(s) for s in sm.get_alphabet()]
        pi = M.dirichlet(rng, 4)
        lf.set_motif_probs(dict(zip(states, pi)))
        P = {}
        for e in M.edges(tree):
            mat = np.array([M.dirichlet(rng, 4, 0.01) for _ in range(4)])
            mat = 0.7 * np.eye(4) + 0.3 * mat
            P[e["name"]] = mat
            lf.set_param_rule("psubs", edge=e["name"], init=mat)
        col_lh = np.array(lf.get_full_length_likelihoods(), dtype=float)
        lnL = float(lf.lnL)
        got_P = {e["name"]: lf.get_psub_for_edge(e["name"]).to_array() for e in M.edges(tree)}
    except Exception as e:  # noqa: BLE001
        res.evals += 1
        res.witness(exc_mechanism("C02/discrete-build", e), model=model, tree=M.newick(tree), aln=aln)
        return
    leaves = M.leaf_vectors(aln, states, "nuc", 1)
    cols = M.prune_columns(tree, leaves, lambda ch: got_P[ch["name"]], pi)
    res.evals += 1
    res.count("discrete-problems")
    if not close(col_lh, cols, 1e-8) or not close(lnL, float(np.log(cols).sum()), 1e-9, 1e-9):
        res.witness("C02/L1-pruning/discrete-time", model=model, tree=M.newick(tree), aln=aln, got=lnL, exp=float(np.log(cols).sum()))
    if any(not close(got_P[k], P[k], 1e-9) for k in P):
        res.count("discrete-psubs-renormalised")
    res.sig("discrete", model, M.shape_class(tree), "ambig" if any(ch in "RYWSKMBDHVN-?" for s in aln.values() for ch in s) else "clean")


def required(counters, tier):
    need = ["hmm-bins", "gamma-bin-rates-checked:unequal-bprobs", "scope-by-tip-names:stem", "partly-missing-word", "scope-by-tip-names:+clade", "function-queried-before-alignment", "polytomy", "with-ambiguity", "scoped", "binned", "binned-unequal-bprobs", "solved-P", "zero-length-edge", "all-columns-sum", "L2-rate-matrix", "L3-exponential", "L1-pruning"]
    return [n for n in need if not counters.get(n)]
