"""C09 — tree transformations preserve tips, topology and path lengths.

Shape B + R.  The harness generates a *model tree* (nested lists
``[name, length, [children]]``), builds the real PhyloNode from it, applies real
transformations (single operations, fans on one source, chains of depth 2-4) and
after every step compares what it reads off the live result (own traversal of
``.children/.name/.length``) with what the model says must be invariant: the tip
multiset, every tip-to-tip path length, the set of non-trivial bipartitions, and
the source tree (and its ancestors) being left exactly as it was, and the node
names of a returned tree being unique when those of its source were.  The real
observers (``get_tip_names``, ``get_distances``, ``tip_to_tip_distances``) are
checked against the same traversal.  Tree-to-tree distances are compared with a
split/clade-set computation done here (set algebra + a bitmask assignment DP).
"""

import copy as _copy
import random
import re

from vmon.core import Result, exc_mechanism

ID = "C09"
LEVEL = "exploration"
RULE = (
    "Seeded random model trees with 3-10 (quick) / 3-12 (thorough) tips (rooted = root degree 2, unrooted = root degree >=3; random/ladder "
    "shapes, polytomies, dyadic branch lengths, some with zero or decimal lengths; plain names, or hostile printable "
    "names built through the node constructor; plain trees are parsed from newick with labelled internal nodes or, "
    "40 %, without labels so that the parser auto-names them edge.N). Per tree: a fan of every unary operation "
    "(incl. the DndParser newick route with and without unescape_name), rooted_with_tip for every "
    "tip, rooted_at for every internal node and random get_sub_tree variants on the same source, then random chains "
    "of depth 2-3 (quick) / 2-4 (thorough), and follow-ups: a re-building operation (midpoint, unrooted, bifurcating, "
    "rooted_at, rooted_with_tip, get_sub_tree, sorted) followed on its result by the name-keyed steps (JSON / "
    "rich-dict round trip, rooted_at for its internal names, get_sub_tree naming an internal node); every step is "
    "decided separately, including that the string names of a returned tree are unique when the source's were. "
    "Tree-distance cases: pairs on one tip "
    "set related by same-topology / NNI / edge collapse / independent draw, every method name and alias, both "
    "argument orders. A tree case is non-trivial when the tree has >=5 tips and the history contains an operation "
    "that moves the root or drops tips; distinct = (operation history, rootedness, has polytomy, root degree, "
    "name class, how the tree was built). A distance case is non-trivial when the trees have >=5 tips; distinct = (method, rootedness, "
    "relation, has polytomy, zero/non-zero)."
)
LEVEL_TEXT = (
    "Each transformation of the real tree classes is run on generated trees, for every tip / internal node as the new "
    "root and for sampled tip subsets and compositions, and its result is compared with the invariants computed from "
    "the generating model (tip set, all pairwise path lengths, bipartition set, source left untouched); tree distances "
    "are compared with an independent split-set computation. Sampled, not exhaustive."
)
LEVEL_NOTE = (
    "held = held on the executions listed in the evidence; trusted: reading .children/.name/.length/._parent off live "
    "nodes, Python set/dict/float semantics, TreeBuilder.create_edge as constructor for hostile names"
)
TECHNIQUE = "runtime monitoring: boundary recorder + model invariants (path-length matrix, bipartition set) + relational checks on tree distances"
ASSUMPTIONS = [
    "node attributes .children, .name, .length and ._parent read off a live tree describe that tree",
    "branch lengths are multiples of 2**-4 (exact float sums) except in the 'decimal' class, compared to 1e-9",
    "names that both start and end with a single quote are treated by get_newick as already quoted (explicit carve-out in the writer) and are not generated",
    "newick text whose names contain spaces is read back with underscore_unmunge=True (the documented inverse of the writer's space->underscore munging)",
    "DndParser without unescape_name keeps labels as written: expected tip names are the labels by the writer's documented quoting rule; uniqueness of names is not demanded of DndParser output (it does not name nodes)",
]
TIMEOUT = {"quick": 900, "thorough": 7200}

TOL = 1e-9
NAN = float("nan")

UNARY = [
    "newick_rt",
    "newick_rt_nodenames",
    "json_rt",
    "richdict_rt",
    "dnd_rt",
    "copy",
    "deepcopy",
    "copy_deepcopy",
    "unrooted",
    "unrooted_deepcopy",
    "sorted",
    "bifurcating",
    "root_at_midpoint",
]
PARAM = ["rooted_with_tip", "rooted_at", "get_sub_tree"]
ROUND_TRIPS = {"newick_rt", "newick_rt_nodenames", "json_rt", "richdict_rt", "dnd_rt"}
MOVES = {"unrooted", "rooted_with_tip", "rooted_at", "root_at_midpoint", "get_sub_tree"}

DYADIC = [0.0625, 0.125, 0.25, 0.5, 0.75, 1.0, 1.5, 2.0, 3.0]
DECIMAL = [0.1, 0.3, 0.01, 0.7, 1.1, 0.05, 2.3, 0.123456789, 3.3e-07]

# hostile name classes, highest hazard first (a tree is classified by the first class any of its names falls in)
NAME_CLASSES = [
    "quote-leading",
    "bare-metachar",
    "quote-then-punctuation",
    "dquote-leading",
    "metachar",
    "space-edge",
    "quote-inner",
    "dquote-inner",
    "underscore",
    "space-inner",
    "other-printable",
]


_AUTO_NAME = re.compile(r"^edge(\.\d+)*$")
# classes whose names cannot be written into newick text without quoting
ESCAPE_CLASSES = ("quote-leading", "bare-metachar", "quote-then-punctuation", "dquote-leading", "metachar", "space-edge")
# failure kinds the model attributes to a name class on a round-trip family (anything else is a different mechanism)
NAME_FAILURES = {
    ("newick_rt", "quote-leading"): ("TreeParseError",),
    ("newick_rt", "bare-metachar"): ("TreeParseError", "tip-set"),
    ("json_rt", "needing-newick-escape"): ("TreeParseError", "tip-set", "length-missing", "distances"),
    ("json_rt", "missing-or-duplicated"): ("length-missing", "distances"),
    ("json_rt", "duplicated"): ("length-missing", "distances"),
    # the Clustal-dnd style reader (cogent3.parse.tree.DndParser)
    ("newick_rt/dnd", "unbalanced-paren"): ("RecordError",),
    ("newick_rt/dnd-unescape", "apostrophe"): ("tip-set",),
}
PUNCT = "()[],:;"


def gen_cases(rng, tier):
    cases = []
    if tier == "quick":
        ntree, per, nname, ndist, chains, maxtips, maxdepth = 150, 6, 40, 50, 6, 10, 3
    else:
        ntree, per, nname, ndist, chains, maxtips, maxdepth = 600, 16, 150, 300, 14, 12, 4
    for _ in range(ntree):
        cases.append(
            {"kind": "trees", "seed": rng.randrange(2**32), "n": per, "chains": chains, "maxtips": maxtips, "maxdepth": maxdepth}
        )
    for _ in range(nname):
        cases.append({"kind": "names", "seed": rng.randrange(2**32), "n": per * 2, "maxtips": 7})
    for _ in range(ndist):
        cases.append({"kind": "dist", "seed": rng.randrange(2**32), "n": per * 4, "maxtips": maxtips})
    return cases


def required(counters, tier):
    need = ["op:" + o for o in UNARY + PARAM]
    need += [
        "midpoint:inside-branch",
        "midpoint:at-node",
        "unrooted:root-child-collapsed",
        "get_sub_tree:unrooted-source-root-collapsed",
        "get_sub_tree:keep_root",
        "get_sub_tree:tipsonly",
        "tree:rooted",
        "tree:unrooted",
        "tree:polytomy",
        "tree:zero-length",
        "chain-steps",
        "tree:auto-named-internal-nodes",
        "followup:root_at_midpoint",
        "followup:bifurcating",
        "followup:get_sub_tree",
        "names:dnd-quote-inner-then-punctuation",
        "dist:zero",
        "dist:nonzero",
        "dist:pair-mixed-rootedness",
        "dist:pair-unequal-edge-count",
    ]
    need += ["names:" + c for c in NAME_CLASSES]
    need += ["dist-method:" + m for m in ("rrf", "urf", "mc", "lrm")]
    return [k for k in need if not counters.get(k)]


# ---------------------------------------------------------------------------
# model trees: [name, length, [children]]


def gen_model(rng, ntips, rooted, poly, shape="random", lengths="dyadic", zero=0.0, names=None):
    names = list(names) if names else [f"t{i}" for i in range(ntips)]
    pool = DYADIC if lengths == "dyadic" else DECIMAL

    def L():
        if zero and rng.random() < zero:
            return 0.0
        return rng.choice(pool)

    items = [[nm, L(), []] for nm in names]
    rng.shuffle(items)
    target = 2 if rooted else 3
    if not rooted and ntips > 4 and rng.random() < 0.25:
        target = 4
    cnt = 0
    while len(items) > target:
        k = 2
        if rng.random() < poly and len(items) - target >= 2:
            k = 3 if rng.random() < 0.8 or len(items) - target < 3 else 4
        if shape == "ladder" and cnt:
            sel = [items.pop()] + [items.pop(rng.randrange(len(items))) for _ in range(k - 1)]
        else:
            sel = [items.pop(rng.randrange(len(items))) for _ in range(k)]
        cnt += 1
        items.append([f"n{cnt}", L(), sel])
    return ["root", None, items]


def m_newick(m, lengths=True, internal_names=True):
    def rec(n, root):
        name, ln, ch = n
        s = ""
        if ch:
            s = "(" + ",".join(rec(c, False) for c in ch) + ")"
        if not root:
            if internal_names or not ch:
                s += name
            if lengths and ln is not None:
                s += ":" + repr(float(ln))
        return s

    return rec(m, True) + ";"


class Info:
    __slots__ = ("tips", "tipset", "D", "splits", "clades", "missing", "rootdeg", "maxdeg", "internal", "unary", "badname", "nodes")


def analyse(m):
    """tips, pairwise path lengths, bipartitions, clades of a model / extracted tree"""
    info = Info()
    tips = []
    internal = []
    clade_sets = []
    D = {}
    state = {"missing": False, "maxdeg": 0, "unary": False, "bad": False, "nodes": 0}

    def rec(n, root):
        name, ln, ch = n
        state["nodes"] += 1
        if not ch:
            if not isinstance(name, str):
                state["bad"] = True
                name = repr(name)
            tips.append(name)
            return {name: 0.0}
        if not root:
            internal.append(name)
        state["maxdeg"] = max(state["maxdeg"], len(ch))
        if len(ch) == 1:
            state["unary"] = True
        parts = []
        for c in ch:
            sub = rec(c, False)
            cl = c[1]
            if cl is None:
                state["missing"] = True
                cl = NAN
            sub = {k: v + cl for k, v in sub.items()}
            if c[2]:
                clade_sets.append(frozenset(sub))
            parts.append(sub)
        for i in range(len(parts)):
            for j in range(i + 1, len(parts)):
                for a, da in parts[i].items():
                    for b, db in parts[j].items():
                        D[(a, b) if a < b else (b, a)] = da + db
        merged = {}
        for p in parts:
            merged.update(p)
        return merged

    rec(m, True)
    T = frozenset(tips)
    n = len(T)
    info.tips = sorted(tips)
    info.tipset = T
    info.D = D
    info.splits = {frozenset((A, T - A)) for A in clade_sets if 2 <= len(A) <= n - 2}
    info.clades = {A for A in clade_sets if len(A) >= 2}
    info.missing = state["missing"]
    info.rootdeg = len(m[2])
    info.maxdeg = state["maxdeg"]
    info.internal = internal
    info.unary = state["unary"]
    info.badname = state["bad"]
    info.nodes = state["nodes"]
    return info


def restrict_splits(splits, keep):
    out = set()
    n = len(keep)
    for sp in splits:
        A, B = tuple(sp)
        a, b = A & keep, B & keep
        if 2 <= len(a) <= n - 2 and len(b) >= 2:
            out.add(frozenset((a, b)))
    return out


def extract(t):
    """read a live tree into the model representation; also report broken parent links"""
    broken = []

    def rec(n, parent):
        if n._parent is not parent:
            broken.append(repr(n.name))
        ln = getattr(n, "length", None)
        if ln is not None:
            ln = float(ln)
        return [n.name, ln, [rec(c, n) for c in n.children]]

    return rec(t, None), broken


def build_real(model, build):
    if build == "newick":
        from cogent3 import make_tree

        return make_tree(m_newick(model))
    if build == "newick-auto":
        # no labels on internal nodes: the parser names them edge.0, edge.1, ...
        from cogent3 import make_tree

        return make_tree(m_newick(model, internal_names=False))
    from cogent3.core.tree import TreeBuilder

    tb = TreeBuilder().create_edge

    def rec(n, root):
        name, ln, ch = n
        kids = [rec(c, False) for c in ch]
        return tb(kids, name, {} if ln is None else {"length": ln})

    return rec(model, True)


def name_class(names):
    """hazard class of a collection of node names (None = all plain)"""
    found = set()
    for nm in names:
        if nm is None:
            found.add("unnamed")
            continue
        if not isinstance(nm, str):
            continue
        if nm.startswith("'"):
            found.add("quote-leading")
        elif "'" in nm:
            found.add("quote-then-punctuation" if any(c in PUNCT for c in nm[nm.index("'") :]) else "quote-inner")
        if nm.startswith('"'):
            found.add("dquote-leading")
        elif '"' in nm:
            found.add("dquote-inner")
        if nm in tuple("()[],:;"):
            found.add("bare-metachar")  # the whole name is one newick punctuation character
        elif any(c in nm for c in "()[],:;"):
            found.add("metachar")
        if nm != nm.strip(" "):
            found.add("space-edge")
        elif " " in nm:
            found.add("space-inner")
        if "_" in nm:
            found.add("underscore")
        if any(not (c.isalnum() and c.isascii()) and c not in "'\"()[],:;_ ." for c in nm):
            found.add("other-printable")
    for c in NAME_CLASSES:
        if c in found:
            return c
    return None


def all_names(m, out=None, root=True):
    out = [] if out is None else out
    if not root:
        out.append(m[0])
    for c in m[2]:
        all_names(c, out, False)
    return out


def newick_label(name):
    """the text a node name takes in newick output, by the writer's documented rule: names holding any of
    []'"(),:;_ are single-quoted with ' doubled, in all other names a space becomes an underscore"""
    if any(c in name for c in "[]'\"(),:;_"):
        return "'" + name.replace("'", "''") + "'"
    return name.replace(" ", "_")


def dnd_class(names, unescape):
    """hazard class of a set of names for the DndParser route (None = fall back to name_class)"""
    strs = [n for n in names if isinstance(n, str)]
    if sum(n.count("(") for n in strs) != sum(n.count(")") for n in strs):
        return "unbalanced-paren"  # DndParser counts parentheses in the raw text
    if unescape:
        if any("'" in n for n in strs):
            return "apostrophe"
    elif any("'" in n and any(c in PUNCT for c in n[n.index("'") :]) for n in strs):
        return "quote-inner-then-punctuation"
    return name_class(names)


def relabel_tips(m, mapping):
    if not m[2]:
        return [mapping.get(m[0], m[0]), m[1], []]
    return [m[0], m[1], [relabel_tips(c, mapping) for c in m[2]]]


# ---------------------------------------------------------------------------
# applying one step to the real tree


class Refusal(Exception):
    pass


def apply_step(t, step):
    from cogent3 import make_tree
    from cogent3.core.tree import TreeError
    from cogent3.util.deserialise import deserialise_object

    op = step["op"]
    if op == "newick_rt":
        return make_tree(t.get_newick(with_distances=True), underscore_unmunge=step["unmunge"])
    if op == "newick_rt_nodenames":
        return make_tree(t.get_newick(with_distances=True, with_node_names=True), underscore_unmunge=step["unmunge"])
    if op == "json_rt":
        return deserialise_object(t.to_json())
    if op == "richdict_rt":
        return deserialise_object(t.to_rich_dict())
    if op == "dnd_rt":
        from cogent3.parse.tree import DndParser

        text = t.get_newick(with_distances=True)
        return DndParser([text + "\n"] if step.get("lines") else text, unescape_name=bool(step.get("unescape")))
    if op == "copy":
        return t.copy()
    if op == "deepcopy":
        return t.deepcopy()
    if op == "copy_deepcopy":
        return _copy.deepcopy(t)
    if op == "unrooted":
        return t.unrooted()
    if op == "unrooted_deepcopy":
        return t.unrooted_deepcopy()
    if op == "sorted":
        return t.sorted(sort_order=step.get("order"))
    if op == "bifurcating":
        return t.bifurcating()
    if op == "root_at_midpoint":
        return t.root_at_midpoint()
    if op == "rooted_with_tip":
        return t.rooted_with_tip(step["tip"])
    if op == "rooted_at":
        try:
            return t.rooted_at(step["node"])
        except TreeError as e:
            if step.get("expect_refusal"):
                raise Refusal(str(e))
            raise
    if op == "get_sub_tree":
        try:
            return t.get_sub_tree(
                step["names"],
                ignore_missing=step.get("ignore_missing", False),
                keep_root=step.get("keep_root", False),
                tipsonly=step.get("tipsonly", False),
            )
        except (TreeError, ValueError) as e:
            if step.get("expect_refusal"):
                raise Refusal(str(e))
            raise
    raise KeyError(op)


def gen_step(rng, op, info, ex):
    """concrete arguments for op on a tree whose extraction is ex / analysis is info"""
    step = {"op": op}
    if op in ("newick_rt", "newick_rt_nodenames"):
        spaces = any(isinstance(n, str) and " " in n for n in all_names(ex))
        step["unmunge"] = True if spaces else rng.random() < 0.5
    elif op == "dnd_rt":
        step["unescape"] = rng.random() < 0.5
        step["lines"] = rng.random() < 0.3
    elif op == "sorted":
        if rng.random() < 0.3:
            order = list(info.tips)
            rng.shuffle(order)
            step["order"] = order[: rng.randint(1, len(order))]
    elif op == "rooted_with_tip":
        step["tip"] = rng.choice(info.tips)
    elif op == "rooted_at":
        cands = [n for n in info.internal if isinstance(n, str)]
        if cands and rng.random() < 0.95:
            step["node"] = rng.choice(cands)
        elif rng.random() < 0.5:
            step["node"] = ex[0] if isinstance(ex[0], str) else "root"
            if not isinstance(ex[0], str):
                return None
        else:
            step["node"] = rng.choice(info.tips)
            step["expect_refusal"] = True
    elif op == "get_sub_tree":
        n = len(info.tips)
        r = rng.random()
        step["keep_root"] = rng.random() < 0.35
        if r < 0.04:
            k = 1
            # a single name leaves "only a tip" (documented TreeError) unless the root is kept above it
            if not step["keep_root"]:
                step["expect_refusal"] = True
        else:
            k = rng.randint(2, n) if n >= 2 else n
        names = rng.sample(info.tips, k)
        step["tipsonly"] = rng.random() < 0.4
        r = rng.random()
        if r < 0.08 and k > 1:
            names.insert(rng.randrange(len(names) + 1), "no such node")
            if rng.random() < 0.6:
                step["ignore_missing"] = True
            else:
                step["expect_refusal"] = True
        elif r < 0.18 and not step["tipsonly"] and k > 1:
            cands = [n_ for n_ in info.internal if isinstance(n_, str)]
            if cands:
                names.append(rng.choice(cands))
        step["names"] = names
    return step


def find_node(m, name):
    if m[0] == name:
        return m
    for c in m[2]:
        r = find_node(c, name)
        if r is not None:
            return r
    return None


def tips_under(m):
    if not m[2]:
        return [m[0]]
    out = []
    for c in m[2]:
        out += tips_under(c)
    return out


# ---------------------------------------------------------------------------
# expectations


class Exp:
    """what must hold for one live tree"""

    __slots__ = ("tipset", "D", "splits", "missing")

    def __init__(self, tipset, D, splits, missing=False):
        self.tipset = tipset
        self.D = D
        self.splits = splits
        self.missing = missing


def expect_after(step, exp, src_ex):
    """(expected Exp, mode) for the result of step applied to a tree with expectation exp"""
    op = step["op"]
    if op == "get_sub_tree":
        keep = set()
        for nm in step["names"]:
            if nm in exp.tipset:
                keep.add(nm)
            else:
                node = find_node(src_ex, nm)
                if node is not None and not step.get("tipsonly"):
                    keep.update(tips_under(node))
        keep = frozenset(keep)
        D = {k: v for k, v in exp.D.items() if k[0] in keep and k[1] in keep}
        return Exp(keep, D, restrict_splits(exp.splits, keep), exp.missing), "equal"
    if op == "bifurcating":
        return Exp(exp.tipset, exp.D, exp.splits, exp.missing), "superset"
    return Exp(exp.tipset, exp.D, exp.splits, exp.missing), "equal"


F11 = "collapsed-root-child-length-pushed-to-grandchildren"


def predicted_collapse(src_ex, step, keep):
    """tips of the root child that unrooted() will dissolve, as the model sees it (None = no collapse):
    unrooted() dissolves the first internal child of a root with fewer than 3 children; get_sub_tree() calls
    unrooted() on the pruned tree when the *source* root has more than 2 children"""

    def kept_children(n):
        return [c for c in n[2] if set(tips_under(c)) & keep]

    op = step["op"]
    if op == "unrooted":
        node = src_ex
    elif op == "get_sub_tree":
        if len(src_ex[2]) <= 2:
            return None
        node = src_ex
        if not step.get("keep_root"):
            while True:
                kc = kept_children(node)
                if len(kc) == 1 and kc[0][2]:
                    node = kc[0]
                else:
                    break
    else:
        return None
    kc = kept_children(node)
    if len(kc) >= 3:
        return None
    for c in kc:
        under = set(tips_under(c)) & keep
        if c[2] and len(under) >= 2:
            return frozenset(under)
    return None


def classify_distance_mismatch(expD, obsD, exp_splits, tipset, collapse=None):
    """structural class of a path-length disagreement; `collapse` = tips of the root child the model predicts
    to be dissolved by this step (only then can the F11 pattern be named)"""
    diffs = {}
    for k, v in expD.items():
        o = obsD.get(k)
        if o is None:
            return "pair-missing"
        if o != o:
            return "length-missing"
        if abs(o - v) > TOL:
            diffs[k] = o - v
    if not diffs:
        return None
    vals = list(diffs.values())
    if all(abs(v - vals[0]) <= TOL for v in vals) and vals[0] > 0:
        U = set()
        for a, b in diffs:
            U.add(a)
            U.add(b)
        U = frozenset(U)
        rest = tipset - U
        side_ok = len(rest) <= 1 or frozenset((U, rest)) in exp_splits
        # 'not inflated' must partition U into blocks (the grandchild clades)
        block = {}
        ok = True
        for x in sorted(U):
            for rep in list(block):
                k = (x, rep) if x < rep else (rep, x)
                if k not in diffs:
                    block[rep].append(x)
                    break
            else:
                block[x] = [x]
        for rep, members in block.items():
            for i in range(len(members)):
                for j in range(i + 1, len(members)):
                    a, b = members[i], members[j]
                    if ((a, b) if a < b else (b, a)) in diffs:
                        ok = False
        reps = list(block)
        for i in range(len(reps)):
            for j in range(i + 1, len(reps)):
                for a in block[reps[i]]:
                    for b in block[reps[j]]:
                        if ((a, b) if a < b else (b, a)) not in diffs:
                            ok = False
        if side_ok and ok and len(block) >= 2 and collapse is not None and U == collapse:
            return F11
    if all(v > 0 for v in vals):
        return "inflated"
    if all(v < 0 for v in vals):
        return "deflated"
    return "changed"


# ---------------------------------------------------------------------------
# the step executor


class Ctx:
    def __init__(self, res, model, build):
        self.res = res
        self.model = model
        self.build = build
        self.trees = []  # list of dict(tree, exp, src, step, ex, info, sig_ops)
        self.base_cls = name_class(all_names(model))

    def history(self, idx):
        steps = []
        while idx:
            st = self.trees[idx]
            steps.append(st["step"])
            idx = st["src"]
        return steps[::-1]

    def replay_case(self, idx, step):
        """the ancestry of tree idx as a plain chain + the failing step"""
        chain = []
        for i, s in enumerate(self.history(idx) + [step]):
            s = dict(s)
            s["src"] = i
            chain.append(s)
        return {"kind": "one", "tree": self.model, "build": self.build, "steps": chain}


def start(res, model, build):
    """build the real tree, compare it with the model (decides the constructor / parser)"""
    ctx = Ctx(res, model, build)
    minfo = analyse(model)
    try:
        t = build_real(model, build)
    except Exception as e:  # noqa: BLE001
        res.evals += 1
        res.witness(exc_mechanism(f"C09/build-{build}", e), tree=model, newick=m_newick(model), error=repr(e)[:300],
                    replay_case={"kind": "one", "tree": model, "build": build, "steps": []})
        return None
    ex, broken = extract(t)
    info = analyse(ex)
    res.evals += 1
    built_names = [n for n in [ex[0]] + all_names(ex) if n is not None]
    ok = (
        not broken
        and info.tips == minfo.tips
        and info.splits == minfo.splits
        and not info.missing
        and same_D(minfo.D, info.D)
        and len(set(built_names)) == len(built_names)
    )
    if not ok:
        res.witness(f"C09/build-{build}/differs-from-model", tree=model, newick=m_newick(model), got=ex,
                    replay_case={"kind": "one", "tree": model, "build": build, "steps": []})
        return None
    exp = Exp(minfo.tipset, minfo.D, minfo.splits, False)
    ctx.trees.append({"tree": t, "exp": exp, "src": None, "step": None, "ex": ex, "info": info, "ops": ()})
    check_observers(ctx, "build", t, ex, info, None, 0)
    return ctx


def same_D(a, b):
    if a.keys() != b.keys():
        return False
    for k, v in a.items():
        o = b[k]
        if not (abs(o - v) <= TOL):
            return False
    return True


def check_observers(ctx, op, r, ex, info, step, src_idx):
    """the real observers named in the property agree with the harness's own traversal of the same object"""
    res = ctx.res
    if info.badname or info.missing or len(info.tips) != len(info.tipset):
        return

    def fail(which, e=None, **kw):
        mech = f"C09/observer/{which}" if e is None else exc_mechanism(f"C09/observer/{which}", e)
        rc = ctx.replay_case(src_idx, step) if step is not None else {"kind": "one", "tree": ctx.model, "build": ctx.build, "steps": []}
        res.witness(mech, tree=ctx.model, newick=m_newick(ctx.model), after=op, result=ex, replay_case=rc, **kw)

    res.evals += 1
    try:
        got = sorted(r.get_tip_names())
        if got != info.tips:
            fail("get_tip_names", got=got, expected=info.tips)
    except Exception as e:  # noqa: BLE001
        fail("get_tip_names", e, error=repr(e)[:300])
    if len(info.tips) < 2:
        return
    res.evals += 1
    try:
        gd = r.get_distances()
        want = {}
        for (a, b), v in info.D.items():
            want[(a, b)] = v
            want[(b, a)] = v
        bad = gd.keys() != want.keys() or any(not (abs(float(gd[k]) - v) <= TOL) for k, v in want.items())
        if bad:
            fail("get_distances", got={f"{a}|{b}": float(v) for (a, b), v in gd.items()}, expected={f"{a}|{b}": v for (a, b), v in info.D.items()})
    except Exception as e:  # noqa: BLE001
        fail("get_distances", e, error=repr(e)[:300])
    res.evals += 1
    try:
        mat, order = r.tip_to_tip_distances()
        names = [n.name for n in order]
        bad = sorted(names) != info.tips
        if not bad:
            for i, a in enumerate(names):
                for j, b in enumerate(names):
                    want = 0.0 if a == b else info.D[(a, b) if a < b else (b, a)]
                    if not (abs(float(mat[i, j]) - want) <= TOL):
                        bad = True
        if bad:
            fail("tip_to_tip_distances", got=mat.tolist(), order=names, expected={f"{a}|{b}": v for (a, b), v in info.D.items()})
    except Exception as e:  # noqa: BLE001
        fail("tip_to_tip_distances", e, error=repr(e)[:300])


def _w(res, mech, make):
    """record a witness; the (costly) detail is only built while the core still keeps witnesses of this mechanism"""
    if res.counters.get("witness:" + mech, 0) >= 3:
        res.count("witness:" + mech)
    else:
        res.witness(mech, **make())


def do_step(ctx, src_idx, step):
    """apply step to tree src_idx; decide; append the result. Returns new index or None"""
    res = ctx.res
    op = step["op"]
    src = ctx.trees[src_idx]
    t = src["tree"]
    src_ex = src["ex"]  # the reading taken before this step
    res.count("op:" + op)
    if src_idx and ctx.trees[src_idx]["src"] is not None:
        res.count("chain-steps")
    src_names = all_names(src_ex)
    src_cls = name_class(src_names)
    # one mechanism family per code path: both newick round trips share writer+parser; json/rich-dict share
    # to_rich_dict+deserialise_tree, which (a) writes the names unescaped — every class that needs escaping is one
    # cause — and (b) keys the edge attributes by node name — missing or repeated names are one cause
    fam = {"newick_rt_nodenames": "newick_rt", "richdict_rt": "json_rt"}.get(op, op)
    if op == "dnd_rt":
        fam = "newick_rt/dnd-unescape" if step.get("unescape") else "newick_rt/dnd"
        src_cls = dnd_class(src_names, bool(step.get("unescape")))
    keyed_badly = False
    if fam == "json_rt":
        keyed_badly = any(n is None for n in src_names) or len(set(src_names)) != len(src_names)
        if src_cls in ESCAPE_CLASSES:
            src_cls = "needing-newick-escape"
        elif keyed_badly:
            src_cls = "missing-or-duplicated"
    hostile_rt = op in ROUND_TRIPS and src_cls is not None

    def names_or(mech, failure, result_ex=None):
        """mechanism of a round-trip failure on a tree whose names fall in a hazard class: the bare
        `names-<class>` string is reserved for the failure kinds the model attributes to that class; any other
        kind of failure on the same tree gets its own string"""
        if not hostile_rt:
            return mech, {}
        cls_ = src_cls
        fam_ = "newick_rt/dnd" if cls_ == "unbalanced-paren" else fam  # the paren count precedes name handling
        if failure in ("length-missing", "distances") and fam == "json_rt" and result_ex is not None:
            # attribute every lost or altered length to a source node, matched by the tips below it
            before, after = _clade_lengths(src_ex), _clade_lengths(result_ex)
            lost = {c for c in set(before) | set(after) if before.get(c) != after.get(c)}
            counts = {}
            for nm in src_names:
                counts[nm] = counts.get(nm, 0) + 1
            # looked up under a wrong key: no name, a repeated name, or — when the tree has unnamed nodes, which the
            # parser auto-names edge.N on loading — a name of that same form
            unnamed = any(nm is None for nm in src_names)
            keyed = _clades_where(
                src_ex,
                lambda n: n[0] is None or (unnamed and isinstance(n[0], str) and _AUTO_NAME.match(n[0]) is not None),
            )
            # the same (string) name on several nodes: only a tree that some earlier step returned with repeated
            # names gets here, that step has its own witness (duplicate-node-names)
            dups = _clades_where(src_ex, lambda n: n[0] is not None and counts.get(n[0], 0) > 1)
            esc = _clades_where(src_ex, lambda n: name_class([n[0]]) in ESCAPE_CLASSES)
            if lost and lost <= keyed:
                cls_ = "missing-or-duplicated"
            elif lost and lost <= (keyed | dups):
                cls_ = "duplicated"
            elif lost and lost <= (keyed | dups | esc) and src_cls == "needing-newick-escape":
                cls_ = "needing-newick-escape"
            else:
                return mech, {}
        if failure in NAME_FAILURES.get((fam_, cls_), ()):
            return f"C09/{fam_}/names-{cls_}", dict(failure=failure)
        return f"C09/{fam}/names-{cls_}/{failure}", dict(failure=failure)

    def detail(**kw):
        d = dict(tree=ctx.model, newick=m_newick(ctx.model), build=ctx.build, history=ctx.history(src_idx), step=step,
                 source=src_ex, replay_case=ctx.replay_case(src_idx, step))
        d.update(kw)
        return d

    # coverage classes reached (from the harness's reading of the source)
    sinfo = src["info"]
    if op == "unrooted" and sinfo.rootdeg < 3 and any(c[2] and c[1] for c in src_ex[2]):
        res.count("unrooted:root-child-collapsed")
    if op == "get_sub_tree":
        if step.get("keep_root"):
            res.count("get_sub_tree:keep_root")
        if step.get("tipsonly"):
            res.count("get_sub_tree:tipsonly")

    # snapshots of source and its ancestors
    watch = []
    i = src_idx
    while i is not None:
        watch.append(i)
        i = ctx.trees[i]["src"]
    try:
        nw_before = t.get_newick(with_distances=True)
    except Exception:  # noqa: BLE001
        nw_before = None

    try:
        r = apply_step(t, step)
    except Refusal:
        res.refused += 1
        res.count("refused:" + op)
        r = None
    except Exception as e:  # noqa: BLE001
        res.evals += 1
        if hostile_rt and type(e).__name__ in ("TreeParseError", "RecordError"):
            kind = type(e).__name__
            _w(res, names_or(None, kind)[0], lambda: detail(failure=kind, error=str(e)[:300], text=_text_for(t, step)))
        else:
            res.witness(exc_mechanism(f"C09/{fam}", e), **detail(error=repr(e)[:300]))
        r = None
    else:
        if step.get("expect_refusal"):
            res.evals += 1
            res.witness(f"C09/{fam}/accepted-input-documented-as-refused", **detail())
            r = None

    # source (and ancestors) untouched — decided for every call, also refused / failing ones
    modified = []
    for i in watch:
        ex_now, _ = extract(ctx.trees[i]["tree"])
        if ex_now != ctx.trees[i]["ex"]:
            modified.append(i)
    res.evals += 1
    if modified:
        direct = src_idx in modified
        which = "source-modified" if direct else "ancestor-modified"
        first = modified[0]
        cls = "/" + diff_kind(ctx.trees[first]["ex"], extract(ctx.trees[first]["tree"])[0])
        _w(
            res,
            f"C09/{fam}/{which}{cls}",
            lambda: detail(
                modified_trees=[("source" if i == src_idx else f"ancestor#{i}") for i in modified],
                source_after=extract(t)[0],
                newick_before=nw_before,
                newick_after=_safe_newick(t),
            ),
        )
        # re-read so that later steps are judged against what is there now
        for i in modified:
            ex_now, _ = extract(ctx.trees[i]["tree"])
            ctx.trees[i]["ex"] = ex_now
            ctx.trees[i]["info"] = analyse(ex_now)
        if 0 in modified:
            # a fan continues on a fresh source so that every witness replays on its own
            try:
                t0 = build_real(ctx.model, ctx.build)
                ex0, _ = extract(t0)
                ctx.trees[0].update(tree=t0, ex=ex0, info=analyse(ex0))
            except Exception:  # noqa: BLE001
                pass
    elif nw_before is not None and _safe_newick(t) != nw_before:
        res.witness(f"C09/{fam}/source-newick-changed", **detail(newick_before=nw_before, newick_after=_safe_newick(t)))
    if r is None:
        return None

    # read the result
    try:
        ex, broken = extract(r)
    except Exception as e:  # noqa: BLE001
        res.evals += 1
        res.witness(f"C09/{fam}/result-not-a-tree", **detail(error=repr(e)[:200], got=repr(r)[:200]))
        return None
    # a DndParser tree is judged but not taken further: its root and unlabelled nodes have no name at all and its
    # internal labels are read by other rules than tip labels, which is a different family of trees from the
    # make_tree ones this monitor chains on
    terminal = op == "dnd_rt"
    if terminal and not step.get("unescape"):
        # without unescape_name DndParser keeps each label as written: map the labels back to the names they stand
        # for (label text by the writer's documented quoting rule)
        ex = relabel_tips(ex, {newick_label(n): n for n in src["exp"].tipset})
    info = analyse(ex)
    exp, mode = expect_after(step, src["exp"], src_ex)
    ops = src["ops"] + (op,)

    if op == "root_at_midpoint":
        # which branch of the implementation the model says was taken: node count of the result
        res.count("midpoint:inside-branch" if info.nodes > sinfo.nodes else "midpoint:at-node")
    if op == "get_sub_tree" and sinfo.rootdeg > 2:
        # the pruned tree had a root of degree < 3 iff at most two root children keep tips
        kept = sum(1 for c in src_ex[2] if set(tips_under(c)) & exp.tipset)
        if kept < 3 and len(exp.tipset) > 2:
            res.count("get_sub_tree:unrooted-source-root-collapsed")

    nt = len(src["exp"].tipset) >= 5 and any(o in MOVES for o in ops)
    if nt:
        root = ctx.trees[0]["info"]
        res.sig("/".join(ops), "rooted" if root.rootdeg == 2 else "unrooted", "poly" if _has_poly(ctx.model) else "bin", root.rootdeg, ctx.base_cls or "plain", ctx.build)

    failed = False
    rebase = False

    res.evals += 1
    if broken:
        failed = True
        res.witness(f"C09/{fam}/parent-links-broken", **detail(result=ex, nodes=broken))
    res.evals += 1
    if info.badname or sorted(exp.tipset) != info.tips:
        failed = True
        mech, extra = names_or(f"C09/{fam}/tip-set", "tip-set")
        if op in ("rooted_at", "rooted_with_tip", "root_at_midpoint") and sinfo.rootdeg == 1 and set(info.tips) - exp.tipset and set(info.tips) >= exp.tipset:
            # the harness's reading of the source: its root has a single child (get_sub_tree(keep_root=True) output)
            mech = "C09/reroot/unary-root-becomes-tip"
        _w(res, mech, lambda: detail(result=ex, got_tips=info.tips, expected_tips=sorted(exp.tipset), text=_text_for(t, step), **extra))
    else:
        # node names of a tree the library returns are unique (unnamed nodes aside)
        res_names = [n for n in [ex[0]] + all_names(ex) if n is not None]
        had_names = [n for n in [src_ex[0]] + src_names if n is not None]
        if terminal:
            pass  # DndParser takes the names from the text and does not name nodes itself
        elif len(set(had_names)) != len(had_names):
            res.count("names-already-repeated-in-source")  # reported at the step that produced them
        else:
            res.evals += 1
            if len(set(res_names)) != len(res_names):
                failed = True
                twice = sorted({n for n in res_names if res_names.count(n) > 1}, key=repr)
                # the model's reading of the source: were there nodes without a name for the library to name?
                unnamed_src = src_ex[0] is None or any(n is None for n in src_names)
                _w(
                    res,
                    f"C09/{fam}/duplicate-node-names" + ("/source-has-unnamed-nodes" if unnamed_src else ""),
                    lambda: detail(result=ex, repeated=twice),
                )
        res.evals += 1
        cls = classify_distance_mismatch(exp.D, info.D, exp.splits, exp.tipset, predicted_collapse(src_ex, step, exp.tipset))
        if cls is not None:
            failed = True
            rebase = cls not in ("pair-missing", "length-missing")
            zero_only = (
                not hostile_rt
                and cls != F11
                and any(ln == 0 for ln in _lengths(src_ex))
                and positive_twin_class(src_ex, step) in (None, F11)
            )
            if zero_only:
                # the property quantifies over positive branch lengths: a disagreement that the model attributes to
                # zero-length edges (absent on the positive twin) is recorded, not judged
                res.count(f"outside-quantifier:zero-length-{fam}")
                mech = None
            elif cls == "length-missing":
                mech, extra = names_or(f"C09/{fam}/length-missing", "length-missing", ex)
            elif cls == F11:
                mech, extra = f"C09/{fam}/{cls}", {}
            else:
                mech, extra = names_or(f"C09/{fam}/distances-{cls}", "distances", ex) if fam == "json_rt" else (f"C09/{fam}/distances-{cls}", {})
            if mech is not None:
                _w(
                    res,
                    mech,
                    lambda: detail(
                        result=ex,
                        result_newick=_safe_newick(r),
                        expected_vs_got={f"{a}|{b}": [v, info.D.get((a, b))] for (a, b), v in exp.D.items() if not (abs(info.D.get((a, b), NAN) - v) <= TOL)},
                        text=_text_for(t, step),
                        **extra,
                    ),
                )
        res.evals += 1
        if mode == "equal":
            good = info.splits == exp.splits
        else:
            good = info.splits >= exp.splits and info.maxdeg <= 2
        if not good:
            failed = True
            res.witness(
                f"C09/{fam}/bipartitions" + ("-not-bifurcating" if mode == "superset" and info.maxdeg > 2 else ""),
                **detail(result=ex, missing=[_split_repr(s) for s in exp.splits - info.splits], extra=[_split_repr(s) for s in info.splits - exp.splits]),
            )
    if terminal or (failed and not rebase and (info.badname or sorted(exp.tipset) != info.tips or info.missing)):
        return None
    # continue from what is there (first divergence already reported)
    new_exp = Exp(info.tipset, info.D if failed else exp.D, info.splits if (failed or mode == "superset") else exp.splits, info.missing)
    ctx.trees.append({"tree": r, "exp": new_exp, "src": src_idx, "step": step, "ex": ex, "info": info, "ops": ops})
    if not failed:
        check_observers(ctx, op, r, ex, info, step, src_idx)
    return len(ctx.trees) - 1


def diff_kind(before, after):
    """how a tree that should have been left alone differs from its earlier reading"""
    a, b = analyse(before), analyse(after)
    if a.nodes != b.nodes:
        return "node-spliced-in" if b.nodes > a.nodes else "node-removed"

    def shape(m):
        return [m[0], [shape(c) for c in m[2]]]

    if shape(before) == shape(after):
        return "branch-lengths-changed"
    return "structure-changed"


def positive_twin_class(src_ex, step):
    """class of path-length disagreement (None = none) of the same step on the same tree with every zero length
    made positive; a disagreement that is absent there, or is the pure collapsed-root-child pattern there, while the
    case at hand shows something else, is attributed to the zero-length edges"""

    def twin(m):
        ln = m[1]
        return [m[0], 0.0078125 if ln == 0 else ln, [twin(c) for c in m[2]]]

    try:
        tw = twin(src_ex)
        t = build_real(tw, "api")
        ex0, _ = extract(t)
        i0 = analyse(ex0)
        r = apply_step(t, step)
        ex, _ = extract(r)
        info = analyse(ex)
        exp, _mode = expect_after(step, Exp(i0.tipset, i0.D, i0.splits), ex0)
        if info.tips != sorted(exp.tipset):
            return "tip-set"
        return classify_distance_mismatch(exp.D, info.D, exp.splits, exp.tipset, predicted_collapse(ex0, step, exp.tipset))
    except Exception:  # noqa: BLE001
        return "error"


def _has_poly(m):
    def rec(n, root):
        if len(n[2]) > (3 if root else 2):
            return True
        return any(rec(c, False) for c in n[2])

    return rec(m, True)


def _clades_where(m, pred):
    """tip sets below the non-root nodes of m that satisfy pred"""
    out = set()

    def rec(n, root):
        if not root and pred(n):
            out.add(frozenset(tips_under(n)))
        for c in n[2]:
            rec(c, False)

    rec(m, True)
    return out


def _clade_lengths(m):
    """tip set below each non-root node -> sorted lengths of the nodes with that tip set"""
    out = {}

    def rec(n, root):
        if not root:
            out.setdefault(frozenset(tips_under(n)), []).append(repr(n[1]))
        for c in n[2]:
            rec(c, False)

    rec(m, True)
    return {k: sorted(v) for k, v in out.items()}


def _lengths(m, root=True, out=None):
    out = [] if out is None else out
    if not root:
        out.append(m[1])
    for c in m[2]:
        _lengths(c, False, out)
    return out


def _split_repr(s):
    a, b = tuple(s)
    return sorted([sorted(a), sorted(b)])


def _safe_newick(t):
    try:
        return t.get_newick(with_distances=True)
    except Exception as e:  # noqa: BLE001
        return f"<get_newick raised {type(e).__name__}>"


def _text_for(t, step):
    """the serialised text a round trip went through (evidence for the witness)"""
    try:
        if step["op"] in ("newick_rt", "dnd_rt"):
            return t.get_newick(with_distances=True)
        if step["op"] == "newick_rt_nodenames":
            return t.get_newick(with_distances=True, with_node_names=True)
        if step["op"] in ("json_rt", "richdict_rt"):
            return t.to_rich_dict()["newick"]
    except Exception:  # noqa: BLE001
        return None
    return None


# ---------------------------------------------------------------------------
# drivers


def run_tree(res, rng, model, build, nchains, maxdepth, ops_fan=None):
    ctx = start(res, model, build)
    if ctx is None:
        return
    root = ctx.trees[0]
    info, ex = root["info"], root["ex"]
    # fan on the same source
    steps = []
    for op in ops_fan or UNARY:
        steps.append(gen_step(rng, op, info, ex))
    if ops_fan is None:
        for tip in info.tips:
            steps.append({"op": "rooted_with_tip", "tip": tip})
        for node in info.internal:
            steps.append({"op": "rooted_at", "node": node})
        steps.append({"op": "rooted_at", "node": "root"})
        if rng.random() < 0.3:
            steps.append({"op": "rooted_at", "node": rng.choice(info.tips), "expect_refusal": True})
        for _ in range(6):
            steps.append(gen_step(rng, "get_sub_tree", info, ex))
    k = 0
    for st in steps:
        if st is not None and st["op"] == "dnd_rt":
            if ops_fan is not None:
                st["unescape"] = bool(k % 2)  # both routes on every hostile-name tree
            k += 1
    if ops_fan is None:
        steps.append({"op": "dnd_rt", "unescape": not [st for st in steps if st and st["op"] == "dnd_rt"][0]["unescape"], "lines": False})
    rng.shuffle(steps)
    for st in steps:
        if st is not None:
            do_step(ctx, 0, st)
    # chains
    allops = UNARY + PARAM + ["get_sub_tree", "rooted_at", "rooted_with_tip", "unrooted", "root_at_midpoint"]
    for ci in range(nchains + (1 if ops_fan is None else 0)):
        c2 = start(Result(), model, build)  # fresh source per chain; its build was decided above already
        if c2 is None:
            return
        c2.res = res
        idx = 0
        # one fixed chain per tree: midpoint rooting applied to a midpoint-rooted tree
        fixed = ["root_at_midpoint", "root_at_midpoint"] if ci == nchains else None
        depth = len(fixed) if fixed else rng.randint(2, maxdepth)
        for _d in range(depth):
            cur = c2.trees[idx]
            if len(cur["info"].tips) < 2:
                break
            st = None
            for _try in range(5):
                st = gen_step(rng, fixed[_d] if fixed else rng.choice(allops), cur["info"], cur["ex"])
                if st is not None:
                    break
            if st is None:
                break
            nxt = do_step(c2, idx, st)
            if nxt is None:
                break
            idx = nxt


def run_followups(res, rng, model, build, every_name):
    """an operation that re-builds the tree (possibly inserting or dissolving a node), followed on its result by the
    steps that address nodes by name: JSON / rich-dict round trip, rooted_at for internal names, get_sub_tree naming
    an internal node"""
    ctx = start(Result(), model, build)
    if ctx is None:
        return
    ctx.res = res
    root = ctx.trees[0]
    firsts = ["root_at_midpoint", "unrooted", "bifurcating", "rooted_at", "rooted_with_tip", "get_sub_tree", "sorted", "unrooted_deepcopy"]
    if not every_name:
        firsts = ["root_at_midpoint"] + rng.sample(firsts[1:], 2)
    for op in firsts:
        st = gen_step(rng, op, root["info"], root["ex"])
        if st is None or st.get("expect_refusal"):
            continue
        idx = do_step(ctx, 0, st)
        if idx is None:
            continue
        cur = ctx.trees[idx]
        if len(cur["info"].tips) < 2:
            continue
        res.count("followup:" + op)
        named = [n for n in cur["info"].internal if isinstance(n, str)]
        do_step(ctx, idx, {"op": rng.choice(["json_rt", "richdict_rt"])})
        targets = named if (every_name and op in ("root_at_midpoint", "bifurcating")) else rng.sample(named, min(2, len(named)))
        for nm in targets:
            do_step(ctx, idx, {"op": "rooted_at", "node": nm})
        if named and len(cur["info"].tips) >= 3:
            tips = rng.sample(cur["info"].tips, 2)
            do_step(ctx, idx, {"op": "get_sub_tree", "names": tips + [rng.choice(named)], "keep_root": rng.random() < 0.3, "tipsonly": False})


HOSTILE = {
    "quote-leading": ["'a", "'", "'a b", "''x", "'a'b"],
    "dquote-leading": ['"a', '"a"', '"'],
    "bare-metachar": ["(", ")", ",", ":", ";", "[", "]"],
    "quote-then-punctuation": ["O'Brien, 1998", "H' (Shannon)", "a':b", "x';y", "it's [sic]", "5',3'", "a'b,c'd", "d' (out):1", "b''c;"],
    "metachar": ["a(b", "a)b", "a,b", "a:b", "a;b", "a[b", "a]b", "a[b]c", "((", "),", "x:", ";;", "[x]", "a:1.0", "(a,b)"],
    "space-edge": [" a", "a ", " a b ", " "],
    "quote-inner": ["a'b", "a'", "a''b", "O'Neil"],
    "dquote-inner": ['a"b', 'a"', 'a""b'],
    "underscore": ["a_b", "_", "a__b", "_a", "a_"],
    "space-inner": ["a b", "a  b", "Homo sapiens", "a b c"],
    "other-printable": ["é", "a-b", "a=b", "a#b", "a%s", "a\\b", "1.5", "a/b", "a|b", "a*", "{a}", "α-β", "a&b", "<a>", "a+b", "~", "`a`", "$1", "a@b", "!", "?"],
}


def hostile_names(rng, cls, n):
    """n distinct names; at least one from cls, the others from classes of lower hazard or plain"""
    lower = NAME_CLASSES[NAME_CLASSES.index(cls):]
    out = []
    first = rng.choice(HOSTILE[cls])
    if first.startswith("'") and first.endswith("'"):
        first = first + "z"  # carve-out: names that look already quoted are not generated
    out.append(first)
    tries = 0
    while len(out) < n and tries < 200:
        tries += 1
        r = rng.random()
        if r < 0.4:
            cand = f"t{len(out)}"
        elif r < 0.7:
            cand = rng.choice(HOSTILE[rng.choice(lower)])
        else:
            # random printable ASCII string whose class is not above cls
            alphabet = "abcXYZ019 _-+=#%&*/|\\<>{}~`$@!?." + "'\"()[],:;"
            cand = "".join(rng.choice(alphabet) for _ in range(rng.randint(1, 5)))
        if cand in out or cand == "root" or not cand:
            continue
        if cand.startswith("'") and cand.endswith("'"):
            continue
        c = name_class([cand])
        if c is not None and NAME_CLASSES.index(c) < NAME_CLASSES.index(cls):
            continue
        if cls == "quote-then-punctuation" and cand.count("(") != cand.count(")"):
            continue  # keep the parentheses of these trees balanced (DndParser counts them in the raw text)
        out.append(cand)
    while len(out) < n:
        out.append(f"t{len(out)}x")
    return out


def draw_model(rng, maxtips):
    n = min(rng.choice([3, 4, 5, 5, 6, 6, 7, 7, 8, 9, 10, 11, 12]), maxtips)
    rooted = rng.random() < 0.55
    poly = rng.choice([0.0, 0.0, 0.25, 0.5])
    shape = "ladder" if rng.random() < 0.25 else "random"
    r = rng.random()
    lengths, zero = "dyadic", 0.0
    if r < 0.15:
        zero = 0.3
    elif r < 0.25:
        lengths = "decimal"
    return gen_model(rng, n, rooted, poly, shape, lengths, zero), zero, lengths


def run_case(case):
    res = Result()
    kind = case["kind"]
    if kind == "trees":
        rng = random.Random(case["seed"])
        for _ in range(case["n"]):
            model, zero, lengths = draw_model(rng, case["maxtips"])
            res.count("trees")
            res.count("tree:rooted" if len(model[2]) == 2 else "tree:unrooted")
            if _has_poly(model):
                res.count("tree:polytomy")
            if zero:
                res.count("tree:zero-length")
            if lengths == "decimal":
                res.count("tree:decimal-lengths")
            auto = rng.random() < 0.4
            build = "newick-auto" if auto else "newick"
            res.count("tree:auto-named-internal-nodes" if auto else "tree:labelled-internal-nodes")
            run_tree(res, rng, model, build, case["chains"] - (2 if auto else 1), case["maxdepth"])
            run_followups(res, rng, model, build, every_name=auto)
        res.sample({"tree": m_newick(model)})
    elif kind == "names":
        rng = random.Random(case["seed"])
        for i in range(case["n"]):
            cls = NAME_CLASSES[(case["seed"] + i) % len(NAME_CLASSES)]
            n = rng.randint(3, case["maxtips"])
            rooted = rng.random() < 0.5
            nint = n  # upper bound of internal nodes
            names = hostile_names(rng, cls, n + nint)
            model = gen_model(rng, n, rooted, rng.choice([0.0, 0.3]), names=names[:n])
            # hostile internal names too (half of the trees)
            if rng.random() < 0.5:
                k = [n]

                def rename(m, root=True):
                    if m[2] and not root and k[0] < len(names):
                        m[0] = names[k[0]]
                        k[0] += 1
                    for c in m[2]:
                        rename(c, False)

                rename(model)
            got_cls = name_class(all_names(model))
            res.count("names:" + str(got_cls))
            if dnd_class(all_names(model), False) == "quote-inner-then-punctuation":
                res.count("names:dnd-quote-inner-then-punctuation")
            res.count("trees-hostile-names")
            if rng.random() < 0.7:
                run_tree(res, rng, model, "api", 1, 2, ops_fan=["newick_rt", "newick_rt_nodenames", "json_rt", "richdict_rt", "dnd_rt", "dnd_rt", "copy", "sorted", "unrooted_deepcopy"])
            else:
                run_tree(res, rng, model, "api", 2, 3)
        res.sample({"names": all_names(model)})
    elif kind == "dist":
        rng = random.Random(case["seed"])
        for _ in range(case["n"]):
            run_dist(res, rng, case["maxtips"])
    elif kind == "one":
        ctx = start(res, case["tree"], case["build"])
        if ctx is not None:
            for st in case["steps"]:
                st = dict(st)
                src = st.pop("src", len(ctx.trees) - 1)
                if src >= len(ctx.trees):
                    break
                do_step(ctx, src, st)
    elif kind == "one-dist":
        check_pair(res, case["a"], case["b"], case.get("relation", "replay"))
    return res


# ---------------------------------------------------------------------------
# tree-to-tree distances


def m_copy(m):
    return [m[0], m[1], [m_copy(c) for c in m[2]]]


def m_shuffle(m, rng):
    m = m_copy(m)

    def rec(n):
        rng.shuffle(n[2])
        for c in n[2]:
            c[1] = rng.choice(DYADIC)
            rec(c)

    rec(m)
    return m


def m_reroot(m, rng):
    """same unrooted topology, root moved to another internal node (root keeps degree >= 3)"""
    m = m_copy(m)
    # path to a random internal node
    paths = []

    def rec(n, path):
        if n[2] and path:
            paths.append(list(path))
        for i, c in enumerate(n[2]):
            rec(c, path + [i])

    rec(m, [])
    if not paths:
        return m
    path = rng.choice(paths)
    root = m
    for i in path:
        child = root[2].pop(i)
        # old root becomes a child of `child`, taking the edge's name/length
        root[0], root[1] = child[0] + "r", child[1]
        child[0], child[1] = "root", None
        child[2].append(root)
        root = child
    # suppress a degree-2 ex-root left behind
    def fix(n):
        for i, c in enumerate(n[2]):
            fix(c)
            if len(c[2]) == 1:
                g = c[2][0]
                g[1] = (g[1] or 0) + (c[1] or 0)
                n[2][i] = g

    fix(root)
    return root


def m_nni(m, rng):
    m = m_copy(m)
    cands = []

    def rec(n):
        for c in n[2]:
            if c[2] and len(n[2]) >= 2:
                cands.append((n, c))
            rec(c)

    rec(m)
    if not cands:
        return m
    p, v = rng.choice(cands)
    sibs = [s for s in p[2] if s is not v]
    s = rng.choice(sibs)
    c = rng.choice(v[2])
    i, j = p[2].index(s), v[2].index(c)
    p[2][i], v[2][j] = c, s
    return m


def m_collapse(m, rng):
    m = m_copy(m)
    cands = []

    def rec(n):
        for c in n[2]:
            if c[2]:
                cands.append((n, c))
            rec(c)

    rec(m)
    # keep rootedness: do not collapse into the root
    cands = [(p, v) for p, v in cands if p is not m]
    if not cands:
        return m
    p, v = rng.choice(cands)
    i = p[2].index(v)
    p[2][i : i + 1] = v[2]
    return m


def assign_min(cost):
    """minimum-cost perfect matching of a square matrix (bitmask DP)"""
    k = len(cost)
    if k == 0:
        return 0
    INF = float("inf")
    dp = [INF] * (1 << k)
    dp[0] = 0
    for mask in range(1 << k):
        if dp[mask] == INF:
            continue
        i = bin(mask).count("1")
        if i >= k:
            continue
        row = cost[i]
        for j in range(k):
            if not mask & (1 << j):
                v = dp[mask] + row[j]
                if v < dp[mask | (1 << j)]:
                    dp[mask | (1 << j)] = v
    return dp[(1 << k) - 1]


def own_distances(ia, ib):
    """expected values from the harness's split / clade sets"""
    n = len(ia.tipset)
    out = {}
    out["urf"] = len(ia.splits ^ ib.splits)
    out["rrf"] = len(ia.clades ^ ib.clades)
    ca, cb = sorted(ia.clades, key=sorted), sorted(ib.clades, key=sorted)
    k = max(len(ca), len(cb))
    ca += [frozenset()] * (k - len(ca))
    cb += [frozenset()] * (k - len(cb))
    out["mc"] = assign_min([[len(x ^ y) for y in cb] for x in ca]) if k <= 12 else None
    sa = [sorted(s, key=sorted)[0] for s in ia.splits]
    sb = [sorted(s, key=sorted)[0] for s in ib.splits]
    if len(sa) == len(sb):
        out["lrm"] = assign_min([[min(len(x ^ y), n - len(x ^ y)) for y in sb] for x in sa]) if len(sa) <= 12 else None
    else:
        out["lrm"] = "refuse"
    return out


ROOTED_METHODS = [("rooted_robinson_foulds", "rrf"), ("rrf", "rrf"), ("rf", "rrf"), ("matching_cluster", "mc"), ("mc", "mc"), ("matching", "mc"), (None, "mc")]
UNROOTED_METHODS = [("unrooted_robinson_foulds", "urf"), ("urf", "urf"), ("rf", "urf"), ("lin_rajan_moret", "lrm"), ("lrm", "lrm"), ("matching", "lrm"), (None, "lrm")]


def run_dist(res, rng, maxtips):
    n = rng.randint(4, maxtips)
    rooted = rng.random() < 0.5
    poly = rng.choice([0.0, 0.0, 0.0, 0.3])
    a = gen_model(rng, n, rooted, poly, "ladder" if rng.random() < 0.2 else "random")
    if not rooted and len(a[2]) != 3 and rng.random() < 0.5:
        a = gen_model(rng, n, rooted, poly)
    r = rng.random()
    if r < 0.25:
        rel = "same-topology"
        b = m_shuffle(a, rng)
        if not rooted:
            b = m_shuffle(m_reroot(b, rng), rng)
    elif r < 0.5:
        rel = "nni"
        b = m_shuffle(m_nni(a, rng), rng)
    elif r < 0.6:
        rel = "collapse"
        b = m_collapse(a, rng)
    elif r < 0.67:
        rel = "mixed-rootedness"
        names = tips_under(a)
        b = gen_model(rng, n, not rooted, 0.0, names=names)
    else:
        rel = "independent"
        b = gen_model(rng, n, rooted, poly if rng.random() < 0.5 else 0.0, names=tips_under(a))
        if len(b[2]) != len(a[2]) and not rooted and rng.random() < 0.7:
            b = gen_model(rng, n, rooted, 0.0, names=tips_under(a))
    check_pair(res, a, b, rel)
    res.count("dist-pairs")
    res.sample({"a": m_newick(a), "b": m_newick(b), "relation": rel})


def check_pair(res, a, b, rel):
    from cogent3 import make_tree

    ia, ib = analyse(a), analyse(b)
    na, nb = m_newick(a), m_newick(b)
    ta, tb = make_tree(na), make_tree(nb)
    rooted_a, rooted_b = len(a[2]) == 2, len(b[2]) == 2
    rc = {"kind": "one-dist", "a": a, "b": b, "relation": rel}

    def witness(mech, **kw):
        res.witness(mech, a=na, b=nb, relation=rel, replay_case=rc, **kw)

    if rooted_a != rooted_b:
        res.count("dist:pair-mixed-rootedness")
        for x, y in ((ta, tb), (tb, ta)):
            res.evals += 1
            try:
                got = x.tree_distance(y)
                witness("C09/tree_distance/mixed-rootedness-accepted", got=repr(got))
            except ValueError:
                res.refused += 1
                res.count("dist:refused-mixed-rootedness")
            except Exception as e:  # noqa: BLE001
                witness(exc_mechanism("C09/tree_distance/mixed-rootedness", e), error=repr(e)[:200])
        return
    own = own_distances(ia, ib)
    rooted = rooted_a
    if not rooted and own["lrm"] == "refuse":
        res.count("dist:pair-unequal-edge-count")
    poly = "poly" if (_has_poly(a) or _has_poly(b)) else "bin"
    methods = ROOTED_METHODS if rooted else UNROOTED_METHODS
    ta_copy = ta.copy()
    snap = (extract(ta)[0], extract(tb)[0])
    for method, which in methods:
        exp = own[which]
        label = f"{which}"
        res.count("dist-method:" + which)
        try:
            d_ab = ta.tree_distance(tb, method=method)
            d_ba = tb.tree_distance(ta, method=method)
            d_aa = ta.tree_distance(ta_copy, method=method)
        except ValueError as e:
            res.evals += 1
            if exp == "refuse" and "number of edges" in str(e):
                res.refused += 1
                res.count("dist:refused-unequal-edge-count")
            else:
                witness(exc_mechanism(f"C09/tree_distance/{label}", e), method=method, error=repr(e)[:200])
            continue
        except Exception as e:  # noqa: BLE001
            res.evals += 1
            witness(exc_mechanism(f"C09/tree_distance/{label}", e), method=method, error=repr(e)[:200])
            continue
        same = (ia.clades == ib.clades) if rooted else (ia.splits == ib.splits)
        res.evals += 1
        if d_ab != d_ba:
            witness(f"C09/tree_distance/{label}/asymmetric", method=method, d_ab=_num(d_ab), d_ba=_num(d_ba))
        res.evals += 1
        if d_aa != 0:
            witness(f"C09/tree_distance/{label}/nonzero-on-copy", method=method, got=_num(d_aa))
        res.evals += 1
        try:
            neg = d_ab < 0 or int(d_ab) != d_ab
        except Exception:  # noqa: BLE001
            neg = True
        if neg:
            witness(f"C09/tree_distance/{label}/not-a-nonnegative-integer", method=method, got=_num(d_ab))
        res.evals += 1
        if (d_ab == 0) != same:
            witness(f"C09/tree_distance/{label}/zero-iff-equal-topology", method=method, got=_num(d_ab), equal_topology=same)
        if exp == "refuse":
            res.evals += 1
            witness(f"C09/tree_distance/{label}/unequal-edge-count-accepted", method=method, got=_num(d_ab))
        elif exp is not None:
            res.evals += 1
            if d_ab != exp:
                witness(f"C09/tree_distance/{label}/differs-from-split-set-computation", method=method, got=_num(d_ab), expected=exp)
        res.count("dist:zero" if same else "dist:nonzero")
        if len(ia.tipset) >= 5:
            res.sig("tree_distance", str(method), "rooted" if rooted else "unrooted", rel, poly, "zero" if same else "nonzero")
    # the wrong family of method for this rootedness is a documented refusal
    for method in (("urf", "lrm") if rooted else ("rrf", "mc")):
        res.evals += 1
        try:
            got = ta.tree_distance(tb, method=method)
            witness("C09/tree_distance/wrong-rootedness-for-method-accepted", method=method, got=_num(got))
        except ValueError:
            res.refused += 1
        except Exception as e:  # noqa: BLE001
            witness(exc_mechanism("C09/tree_distance/wrong-rootedness-for-method", e), method=method, error=repr(e)[:200])
    if not rooted:
        res.evals += 1
        try:
            got = ta.lin_rajan_moret(tb)
            if own["lrm"] not in ("refuse", None) and got != own["lrm"]:
                witness("C09/tree_distance/lrm/differs-from-split-set-computation", method="TreeNode.lin_rajan_moret", got=_num(got), expected=own["lrm"])
        except ValueError:
            res.refused += 1
        except Exception as e:  # noqa: BLE001
            witness(exc_mechanism("C09/tree_distance/lrm", e), method="TreeNode.lin_rajan_moret", error=repr(e)[:200])
    res.evals += 1
    if (extract(ta)[0], extract(tb)[0]) != snap:
        witness("C09/tree_distance/argument-modified")


def _num(x):
    try:
        return float(x)
    except Exception:  # noqa: BLE001
        return repr(x)
