"""C08 — gapped-coordinate maps agree with the gapped string they describe.

Shape B (boundary recorder + executable model).  The model of an IndelMap is
the gapped string itself; the model of a FeatureMap is the list
positions -> parent index | None.  Bounded part is enumerated exhaustively.
"""

import itertools
import random
import re

import numpy

from vmon.core import Result, exc_mechanism

ID = "C08"
LEVEL = "exploration"
RULE = (
    "IndelMaps: every gap layout (2^L strings over {residue,gap}) up to L=6 (quick) / 8 (thorough) x every slice "
    "[a:b] with 0<=a<=b<=L+1 x every ordered pair of disjoint intervals for joined_segments, all ordered pairs of "
    "layouts up to length 4 (quick) / 5 (thorough) for + / shared_gaps / minus_gaps / merge_maps, plus seeded random "
    "long layouts; FeatureMaps: seeded random span lists (ordered/unordered, overlapping, lost spans, reversed). "
    "Oracle = the gapped string / position list. A case is non-trivial when the layout has a gap run and the "
    "interval starts or ends inside or at the edge of a run (IndelMap), or the map has >=2 spans incl. a lost or "
    "reversed one (FeatureMap); distinct = (operation, start-position class, stop-position class) resp. "
    "(operation, span-structure class)."
)
LEVEL_TEXT = (
    "Every gap layout up to a bound is enumerated and every observable of the real IndelMap (length, spans, index "
    "conversions, gap coordinates, every slice, every join of two intervals, reversal, scaling, serialisation, all "
    "pairs for the binary operations) is compared with the gapped string; FeatureMap algebra is compared with a "
    "position-list model on seeded random maps. Exhaustive inside the bound, sampled outside it."
    " Map composition is also driven with spans that overhang the composed map at the front, the back or both."
    " Layouts are also placed beyond 2**31 / 2**32 on chromosome-sized sequences; FeatureMap slices take Python-style bounds."
)
LEVEL_NOTE = "held = held on the executions listed in the evidence; trusted: Python str/list semantics, parse_out_gaps as constructor"
TECHNIQUE = "runtime monitoring: boundary recorder + executable string/list model, exhaustive small-scope enumeration"
ASSUMPTIONS = [
    "Python str slicing / list indexing are the reference semantics",
    "IndelMaps are obtained from Sequence.parse_out_gaps (the constructor real code uses)",
]
EXHAUSTIVE = {"quick": True, "thorough": True}
TIMEOUT = {"quick": 900, "thorough": 7200}


def gen_cases(rng, tier):
    maxL = 6 if tier == "quick" else 8
    pairL = 4 if tier == "quick" else 5
    cases = []
    for L in range(0, maxL + 1):
        n = 2**L
        step = 16 if L >= 5 else n
        for lo in range(0, n, step):
            cases.append({"kind": "layouts", "L": L, "lo": lo, "hi": min(n, lo + step)})
    pats = ["".join(b) for L in range(0, pairL + 1) for b in itertools.product("A-", repeat=L)]
    chunk = 4
    for i in range(0, len(pats), chunk):
        cases.append({"kind": "pairs", "maxL": pairL, "lo": i, "hi": min(len(pats), i + chunk)})
    nrand = 40 if tier == "quick" else 400
    for i in range(nrand):
        cases.append({"kind": "random", "seed": rng.randrange(2**32), "n": 25})
    nfm = 40 if tier == "quick" else 400
    for i in range(nfm):
        cases.append({"kind": "fmap", "seed": rng.randrange(2**32), "n": 250})
    return cases


# ---------------------------------------------------------------------------
# model helpers


def letters(pat):
    it = itertools.cycle("ACGT")
    return "".join(next(it) if c != "-" else "-" for c in pat)


def mk(g):
    from cogent3 import make_seq

    m, s = make_seq(g, moltype="dna").parse_out_gaps()
    return m, str(s)


def render(m, s):
    """gapped string from the map's spans and the ungapped string; or a tag saying why not"""
    if m.parent_length != len(s):
        return f"<parent_length {m.parent_length} != {len(s)}>"
    out = []
    for sp in m.spans:
        if sp.lost:
            out.append("-" * sp.length)
        else:
            if sp.start < 0 or sp.end > len(s) or sp.start > sp.end:
                return f"<span {sp.start}:{sp.end} outside parent {len(s)}>"
            out.append(s[sp.start : sp.end])
    return "".join(out)


def runs(g, pat="-+"):
    return [(m.start(), m.end()) for m in re.finditer(pat, g)]


def pos_class(g, i):
    """class of alignment index i relative to the gap runs of g (the model's view of IndelMap.__getitem__ cases)"""
    if "-" not in g:
        return "nogap"
    gr = runs(g)
    if i > len(g):
        return "beyond"
    if i == len(g):
        return "end-in-gap" if g.endswith("-") else "end"
    for a, b in gr:
        if i == a:
            return "gap-start"
        if a < i < b:
            return "in-gap"
        if i == b:
            return "gap-end"
    if i < gr[0][0]:
        return "before-first"
    if i > gr[-1][1]:
        return "after-last"
    return "between"


EDGE = {"gap-start", "in-gap", "gap-end", "end-in-gap"}


def check_layout(res, g):
    """all unary observations, slices and joins for one gapped string"""
    try:
        m, s = mk(g)
    except Exception as e:  # noqa: BLE001
        res.evals += 1
        res.witness(exc_mechanism("C08/parse_out_gaps", e), g=g, error=repr(e))
        return
    L = len(g)

    def decide(op, ok, nontrivial_sig=None, **detail):
        res.evals += 1
        res.count("op:" + op.split("/")[0])
        if nontrivial_sig is not None:
            res.sig(op.split("/")[0], *nontrivial_sig)
        if not ok:
            res.witness(f"C08/{op}", g=g, **detail)

    def guarded(op, fn, **detail):
        try:
            return True, fn()
        except Exception as e:  # noqa: BLE001
            res.evals += 1
            res.witness(exc_mechanism(f"C08/{op}", e), g=g, error=repr(e)[:300], **detail)
            return False, None

    has_gap = "-" in g
    decide("len", len(m) == L, got=len(m))
    decide("render", render(m, s) == g, got=render(m, s))
    # coordinates stay inside the parent
    decide(
        "coords-in-parent",
        all(0 <= a <= b <= len(s) for a, b in m.get_coordinates()) and all(0 <= p <= len(s) for p in m.gap_pos),
        got=m.get_coordinates(),
    )
    # index conversions
    seqpos = [i for i, c in enumerate(g) if c != "-"]
    for ai in range(L):
        exp = sum(1 for c in g[:ai] if c != "-")
        ok, got = guarded("get_seq_index", lambda: m.get_seq_index(ai), ai=ai)
        if ok:
            decide("get_seq_index", got == exp, (pos_class(g, ai),) if has_gap else None, ai=ai, got=got, exp=exp)
    for si, ai in enumerate(seqpos):
        ok, got = guarded("get_align_index", lambda: m.get_align_index(si), si=si)
        if ok:
            decide("get_align_index", got == ai, (pos_class(g, ai),) if has_gap else None, si=si, got=got, exp=ai)
        # slice_stop variant: alignment index usable as the *end* of a slice that stops before residue si
        ok, got = guarded("get_align_index-stop", lambda: m.get_align_index(si, slice_stop=True), si=si)
        if ok:
            # documented: if a gap is inserted before residue si, the first alignment index of that gap run
            j = ai
            while j > 0 and g[j - 1] == "-":
                j -= 1
            decide("get_align_index-stop", got == j, None, si=si, got=got, exp=j)
    gr = runs(g)
    ok, got = guarded("get_gap_align_coordinates", lambda: [tuple(x) for x in m.get_gap_align_coordinates().tolist()])
    if ok:
        decide("get_gap_align_coordinates", got == gr, got=got, exp=gr)
    ok, got = guarded("get_gap_coordinates", lambda: [tuple(x) for x in m.get_gap_coordinates()])
    if ok:
        exp = [(sum(1 for c in g[:a] if c != "-"), b - a) for a, b in gr]
        decide("get_gap_coordinates", got == exp, got=got, exp=exp)
    ok, got = guarded("get_coordinates", lambda: [tuple(map(int, x)) for x in m.get_coordinates()])
    if ok:
        # ungapped segments in sequence coordinates
        segs = []
        p = 0
        for a, b in runs(g, "[^-]+"):
            segs.append((p, p + b - a))
            p += b - a
        # G: zero-length segments (e.g. after a trailing gap) denote no residues; compare the non-empty ones
        decide("get_coordinates", [x for x in got if x[0] != x[1]] == segs, got=got, exp=segs)
    ok, got = guarded("nongap", lambda: [(int(sp.start), int(sp.end)) for sp in m.nongap()])
    if ok and has_gap:
        decide("nongap", got == runs(g, "[^-]+"), got=got, exp=runs(g, "[^-]+"))
    # slices
    for a in range(0, L + 1):
        for b in range(a, L + 2):
            where = "beyond-length" if b > L else "in-range"
            try:
                sm = m[a:b]
            except Exception as e:  # noqa: BLE001
                res.evals += 1
                res.witness(exc_mechanism(f"C08/slice/{where}", e), g=g, ab=(a, b), error=repr(e)[:200])
                continue
            sub = "".join(c for c in g[a:b] if c != "-")
            r = render(sm, sub)
            ca, cb = pos_class(g, a), pos_class(g, b)
            nt = (ca, cb) if has_gap and (ca in EDGE or cb in EDGE) else None
            decide(f"slice/{where}", r == g[a:b] and len(sm) == len(g[a:b]), nt, ab=(a, b), got=r, exp=g[a:b], map=repr(sm))
    # negative indices resolve like str
    for a, b in ((-1, None), (None, -1), (-L, None), (-2, -1)):
        if L == 0 or (a == -2 and L < 2):
            continue  # negative index beyond the start is a documented IndexError
        try:
            sm = m[a:b]
        except Exception as e:  # noqa: BLE001
            res.evals += 1
            res.witness(exc_mechanism("C08/slice/negative", e), g=g, ab=(a, b), error=repr(e)[:200])
            continue
        e_ = g[a:b]
        sub = e_.replace("-", "")
        decide("slice/negative", render(sm, sub) == e_, None, ab=(a, b), got=render(sm, sub), exp=e_)
    # integer index (negative counts from the end, as for str)
    for i in range(-L, L):
        try:
            sm = m[i]
        except Exception as e:  # noqa: BLE001
            res.evals += 1
            res.witness(exc_mechanism("C08/index-int/" + ("negative" if i < 0 else "non-negative"), e), g=g, i=i, error=repr(e)[:200])
            continue
        sub = g[i].replace("-", "")
        decide("index-int/" + ("negative" if i < 0 else "non-negative"), render(sm, sub) == g[i], None, i=i, got=render(sm, sub), exp=g[i])
    # strides are a documented refusal
    try:
        m[0:L:2]
        decide("slice/stride-accepted", False, None)
    except NotImplementedError:
        res.refused += 1
    except Exception as e:  # noqa: BLE001
        res.witness(exc_mechanism("C08/slice/stride", e), g=g)
    # unary transforms
    ok, r = guarded("nucleic_reversed", lambda: m.nucleic_reversed())
    if ok:
        decide("nucleic_reversed", render(r, s[::-1]) == g[::-1], ("rev",) if has_gap else None, got=render(r, s[::-1]))
        ok2, rr = guarded("nucleic_reversed", lambda: r.nucleic_reversed())
        if ok2:
            decide("nucleic_reversed/involution", render(rr, s) == g, None)
    for k in (1, 3):
        ok, r = guarded("mul", lambda: m * k)
        if ok:
            exp = "".join(c * k for c in g)
            decide("mul", render(r, "".join(c * k for c in s)) == exp, ("mul", k) if has_gap else None, k=k)
    ok, r = guarded("rich_dict", lambda: type(m).from_rich_dict(m.to_rich_dict()))
    if ok:
        decide("rich_dict", render(r, s) == g and len(r) == L, None)
    ok, r = guarded("with_termini_unknown", lambda: m.with_termini_unknown())
    if ok:
        decide("with_termini_unknown", render(r, s) == g, None)
    ok, fm = guarded("to_feature_map", lambda: m.to_feature_map())
    if ok:
        exp = []
        p = 0
        for c in g:
            if c == "-":
                exp.append(None)
            else:
                exp.append(p)
                p += 1
        decide("to_feature_map", fmodel(fm) == exp and fm.parent_length == len(s), ("tofm",) if has_gap else None, got=fmodel(fm))
    segs = runs(g, "[^-]+")
    ok, r = guarded("from_aligned_segments", lambda: type(m).from_aligned_segments(segs, L))
    if ok:
        cls = "all-gap" if (L and not segs) else "some-residues"
        decide(f"from_aligned_segments/{cls}", render(r, s) == g and len(r) == L, ("fas", cls) if has_gap else None, got=render(r, s), segs=segs)
    # gap_coords_to_map
    from cogent3.core.location import gap_coords_to_map

    gd = {}
    for a, b in gr:
        gd[sum(1 for c in g[:a] if c != "-")] = b - a
    ok, r = guarded("gap_coords_to_map", lambda: gap_coords_to_map(gd, len(s)))
    if ok:
        decide("gap_coords_to_map", render(r, s) == g, None, got=render(r, s))
    # joined_segments: all ordered pairs of disjoint non-empty intervals
    if L <= 6:
        for a in range(0, L + 1):
            for b in range(a + 1, L + 1):
                for c in range(b, L + 1):
                    for d in range(c + 1, L + 1):
                        try:
                            r = m.joined_segments([(a, b), (c, d)])
                        except Exception as e:  # noqa: BLE001
                            res.evals += 1
                            res.witness(exc_mechanism("C08/joined_segments", e), g=g, abcd=(a, b, c, d), error=repr(e)[:200])
                            continue
                        exp = g[a:b] + g[c:d]
                        sub = exp.replace("-", "")
                        cls = (pos_class(g, b), pos_class(g, c))
                        nt = cls if has_gap and (cls[0] in EDGE or cls[1] in EDGE) else None
                        decide("joined_segments", render(r, sub) == exp, nt, abcd=(a, b, c, d), got=render(r, sub), exp=exp)


def check_multi_join(res, g):
    """joined_segments with three (and four) disjoint intervals, all of them for short layouts"""
    m, s = mk(g)
    L = len(g)
    has_gap = "-" in g
    pts = range(L + 1)
    for a in pts:
        for b in range(a + 1, L + 1):
            for c in range(b, L + 1):
                for d in range(c + 1, L + 1):
                    for e in range(d, L + 1):
                        for f in range(e + 1, L + 1):
                            segs = [(a, b), (c, d), (e, f)]
                            if f < L and (L - f) >= 1 and (a + c + e) % 3 == 0:
                                segs.append((f, L))  # sometimes a fourth, abutting segment
                            try:
                                r = m.joined_segments(segs)
                            except Exception as ex:  # noqa: BLE001
                                res.evals += 1
                                res.witness(exc_mechanism("C08/joined_segments/three-or-more", ex), g=g, segs=segs, error=repr(ex)[:200], replay_case={"kind": "one-multijoin", "g": g})
                                continue
                            exp = "".join(g[x:y] for x, y in segs)
                            sub = exp.replace("-", "")
                            res.evals += 1
                            res.count("op:joined_segments-multi")
                            ngapped = sum(1 for x, y in segs if "-" in g[x:y])
                            if has_gap and ngapped >= 2:
                                res.sig("joined_segments-multi", len(segs), ngapped, pos_class(g, b), pos_class(g, c), pos_class(g, d), pos_class(g, e))
                            got = render(r, sub)
                            if got != exp or len(r) != len(exp):
                                res.witness("C08/joined_segments/three-or-more", g=g, segs=segs, got=got, exp=exp, map=repr(r), replay_case={"kind": "one-multijoin", "g": g})


def glen(p):
    d = {}
    pos = 0
    for c in p:
        if c == "-":
            d[pos] = d.get(pos, 0) + 1
        else:
            pos += 1
    return d


def check_pair(res, p1, p2):
    g1 = p1.replace("A", "C")
    g2 = p2.replace("A", "G")
    m1, s1 = mk(g1)
    m2, s2 = mk(g2)

    def decide(op, ok, sig=None, **detail):
        res.evals += 1
        res.count("op:" + op.split("/")[0])
        if sig is not None:
            res.sig(op.split("/")[0], *sig)
        if not ok:
            res.witness(f"C08/{op}", p1=p1, p2=p2, **detail)

    nt = "-" in p1 and "-" in p2
    # concatenation
    left = "left-all-gap" if p1 and not s1 else ("left-ends-in-gap" if p1.endswith("-") else "left-ends-in-residue")
    right = "right-starts-in-gap" if p2.startswith("-") else "right-starts-in-residue"
    try:
        r = m1 + m2
        decide(f"add/{left}+{right}", render(r, s1 + s2) == g1 + g2 and len(r) == len(g1 + g2), (left, right) if nt else None, got=render(r, s1 + s2), exp=g1 + g2, map=repr(r))
    except Exception as e:  # noqa: BLE001
        res.evals += 1
        res.witness(exc_mechanism(f"C08/add/{left}+{right}", e), p1=p1, p2=p2, error=repr(e)[:200])
    if len(p1) == len(p2):
        both = "".join("x" if a == "-" and b == "-" else "." for a, b in zip(p1, p2))
        exp = runs(both, "x+")
        try:
            sg = m1.shared_gaps(m2)
            got = [tuple(x) for x in numpy.array(sg).reshape(-1, 2).tolist()]
            decide("shared_gaps", got == exp, ("shared", bool(exp)) if nt else None, got=got, exp=exp)
        except Exception as e:  # noqa: BLE001
            res.evals += 1
            res.witness(exc_mechanism("C08/shared_gaps", e), p1=p1, p2=p2, error=repr(e)[:200])
        try:
            mg = m1.minus_gaps(m2)
            expg = "".join(a for a, b in zip(g1, p2) if not (a == "-" and b == "-"))
            decide("minus_gaps", render(mg, s1) == expg, ("minus", bool(exp)) if nt else None, got=render(mg, s1), exp=expg)
        except Exception as e:  # noqa: BLE001
            res.evals += 1
            res.witness(exc_mechanism("C08/minus_gaps", e), p1=p1, p2=p2, error=repr(e)[:200])
    if p1.count("A") == p2.count("A"):
        d1, d2 = glen(p1), glen(p2)
        n = p1.count("A")
        expg = "".join("-" * (d1.get(i, 0) + d2.get(i, 0)) + ("C" if i < n else "") for i in range(n + 1))
        cls = "one-gap-free" if (not d1 or not d2) else "both-gapped"
        try:
            mm = m1.merge_maps(m2)
            decide(f"merge_maps/{cls}", render(mm, s1) == expg, ("merge", cls, bool(set(d1) & set(d2))) if (d1 or d2) else None, got=render(mm, s1), exp=expg)
        except Exception as e:  # noqa: BLE001
            res.evals += 1
            res.witness(exc_mechanism(f"C08/merge_maps/{cls}", e), p1=p1, p2=p2, error=repr(e)[:200])


# ---------------------------------------------------------------------------
# FeatureMap


def fmodel(fm):
    out = []
    for sp in fm.spans:
        if sp.lost:
            out += [None] * sp.length
        else:
            r = list(range(sp.start, sp.end))
            if sp.reverse:
                r = r[::-1]
            out += r
    return out


def intervals(S):
    out = []
    for x in sorted(S):
        if out and out[-1][1] == x:
            out[-1][1] = x + 1
        else:
            out.append([x, x + 1])
    return [tuple(i) for i in out]


def coords_set(coords):
    S = set()
    for a, b in coords:
        S.update(range(min(a, b), max(a, b)))
    return S


def check_fmap(res, rng):
    from cogent3.core.location import FeatureMap, LostSpan, Span

    P = rng.randint(1, 14)
    nsp = rng.randint(0, 4)
    overlap = rng.random() < 0.3
    spans = []
    desc = []

    def add_span(a, b, rev=False):
        spans.append(Span(a, b, reverse=rev))
        desc.append(["S", a, b, rev])

    def add_lost(n):
        spans.append(LostSpan(n))
        desc.append(["L", n])

    if overlap:
        for _ in range(nsp):
            a = rng.randint(0, P - 1)
            b = rng.randint(a + 1, P)
            if rng.random() < 0.8:
                add_span(a, b)
            else:
                add_lost(rng.randint(1, 3))
    else:
        cuts = sorted(rng.sample(range(P + 1), min(P + 1, 2 * nsp)))
        rev_mode = rng.random()
        for i in range(0, len(cuts) - 1, 2):
            # minus-orientation spans (read right to left): none / all / mixed
            add_span(cuts[i], cuts[i + 1], rev=(rev_mode > 0.85) or (rev_mode > 0.7 and rng.random() < 0.5))
            if rng.random() < 0.3:
                add_lost(rng.randint(1, 3))
        if rng.random() < 0.2:
            spans.insert(0, LostSpan(2))
            desc.insert(0, ["L", 2])
        if rng.random() < 0.15 and len(spans) > 1:
            both = list(zip(spans, desc))
            rng.shuffle(both)
            spans[:] = [x for x, _ in both]
            desc[:] = [y for _, y in both]

    def decide(op, ok, sig=None, **detail):
        res.evals += 1
        res.count("op:fm." + op.split("/")[0])
        if sig is not None:
            res.sig("fm." + op.split("/")[0], *sig)
        if not ok:
            res.witness(f"C08/fm.{op}", spans=desc, parent_length=P, **detail)

    def guarded(op, fn, **detail):
        try:
            return True, fn()
        except Exception as e:  # noqa: BLE001
            res.evals += 1
            res.witness(exc_mechanism(f"C08/fm.{op}", e), spans=desc, parent_length=P, error=repr(e)[:200], **detail)
            return False, None

    ok, fm = guarded("ctor", lambda: FeatureMap(spans=list(spans), parent_length=P))
    if not ok:
        return
    m = fmodel(fm)
    cov = {x for x in m if x is not None}
    present = [x for x in m if x is not None]
    nonover = len(cov) == len(present)
    sorted_ = present == sorted(cov)
    has_lost = any(x is None for x in m)
    has_rev = any(d[0] == "S" and d[3] for d in desc)
    if has_rev:
        res.count("feature-maps-with-reverse-spans")
    struct = (len(desc), has_lost, nonover, sorted_, has_rev)
    nt = struct if len(desc) >= 2 and (has_lost or not sorted_ or not nonover) else None
    decide("len", len(fm) == len(m))
    decide("coords-in-parent", all(0 <= x < P for x in cov))
    ok, c = guarded("covered", lambda: fm.covered())
    if ok:
        decide("covered", [tuple(x) for x in c.get_coordinates()] == intervals(cov), nt, got=c.get_coordinates(), exp=intervals(cov))
    ok, r = guarded("nucleic_reversed", lambda: fm.nucleic_reversed())
    if ok:
        exp = [None if x is None else P - 1 - x for x in reversed(m)]
        if has_rev:
            # G: documented — "discards reverse attribute on both spans and self": for maps holding minus-orientation
            # spans only the residues denoted (as a set, with gap positions) are demanded
            ok_ = sorted(x for x in fmodel(r) if x is not None) == sorted(x for x in exp if x is not None) and [x is None for x in fmodel(r)] == [x is None for x in exp]
        else:
            ok_ = fmodel(r) == exp
        decide("nucleic_reversed", ok_ and r.parent_length == P, nt, got=fmodel(r), exp=exp)
    if nonover:
        try:
            inv = fm.inverse()
            exp = [None] * P
            for i, x in enumerate(m):
                if x is not None:
                    exp[x] = i
            decide("inverse", fmodel(inv) == exp and inv.parent_length == len(m), nt, got=fmodel(inv), exp=exp)
        except Exception as e:  # noqa: BLE001
            res.evals += 1
            res.witness(exc_mechanism("C08/fm.inverse", e), spans=desc, parent_length=P, error=repr(e)[:200])
        ok, sh = guarded("shadow", lambda: fm.shadow())
        if ok:
            exp = intervals(set(range(P)) - cov)
            decide("shadow", coords_set(sh.get_coordinates()) == set(range(P)) - cov, nt, got=sh.get_coordinates(), exp=exp)
    else:
        try:
            fm.inverse()
            res.count("inverse-of-overlapping-accepted")
        except ValueError:
            res.refused += 1
        except Exception as e:  # noqa: BLE001
            res.evals += 1
            res.witness(exc_mechanism("C08/fm.inverse-overlapping", e), spans=desc, parent_length=P)
    if len(m):
        a = rng.randint(0, len(m))
        b = rng.randint(a, len(m))
        ok, sub = guarded("getitem-slice", lambda: fm[a:b], ab=(a, b))
        if ok:
            decide("getitem-slice", fmodel(sub) == m[a:b], nt, ab=(a, b), got=fmodel(sub), exp=m[a:b])
        # bounds the way Python slices take them: negative, None, beyond the ends (clamped, never wrapped)
        lo_ = rng.choice([None, -len(m) - rng.randint(1, 4), -rng.randint(1, len(m)), rng.randint(0, len(m)), len(m) + 2])
        hi_ = rng.choice([None, -len(m) - rng.randint(1, 4), -rng.randint(1, len(m)), rng.randint(0, len(m)), len(m) + 2])
        if len(m[lo_:hi_]) > 0 or rng.random() < 0.5:
            ok, sub = guarded("getitem-slice-python-bounds", lambda: fm[lo_:hi_], ab=(lo_, hi_))
            if ok:
                decide("getitem-slice-python-bounds", fmodel(sub) == m[lo_:hi_], ("below-minus-len" if any(x is not None and x < -len(m) for x in (lo_, hi_)) else "other",) + struct[:2], ab=(lo_, hi_), got=fmodel(sub), exp=m[lo_:hi_])
        k = rng.randint(1, 3)
        cuts = sorted(rng.sample(range(len(m) + 1), min(len(m) + 1, 2 * k)))
        sp2 = [(cuts[i], cuts[i + 1]) for i in range(0, len(cuts) - 1, 2)]
        if sp2:
            f2 = FeatureMap(spans=[Span(a_, b_) for a_, b_ in sp2], parent_length=len(m))
            ok, comp = guarded("compose", lambda: fm[f2], sp2=sp2)
            if ok:
                exp = [m[i] for i in fmodel(f2)]
                decide("compose", fmodel(comp) == exp, nt, sp2=sp2, got=fmodel(comp), exp=exp)
        # composition with a map whose span overhangs this one at the front, the back or both
        # (Span.remap_with: "add a bit at either end if the span didn't lie entirely within its parent map"):
        # positions outside [0, len) denote nothing
        lo = -rng.randint(0, 3) if rng.random() < 0.7 else rng.randint(0, len(m) - 1)
        hi = len(m) + rng.randint(0, 3) if rng.random() < 0.7 else rng.randint(max(lo, 0) + 1, len(m))
        if hi > lo and (lo < 0 or hi > len(m)):
            side = ("front" if lo < 0 else "") + ("back" if hi > len(m) else "")
            f3 = FeatureMap(spans=[Span(lo, hi)], parent_length=len(m))
            ok, comp = guarded("compose-overhang", lambda: fm[f3], span=(lo, hi))
            if ok:
                exp = [m[i] if 0 <= i < len(m) else None for i in range(lo, hi)]
                decide("compose-overhang", fmodel(comp) == exp, (side,) + struct, span=(lo, hi), got=fmodel(comp), exp=exp)
                res.count("compose-overhang:" + side)
    ok, r = guarded("without_gaps", lambda: fm.without_gaps())
    if ok:
        decide("without_gaps", fmodel(r) == present, nt)
    ok, r = guarded("gaps", lambda: fm.gaps())
    if ok:
        decide("gaps", coords_set(r.get_coordinates()) == {i for i, x in enumerate(m) if x is None}, nt, got=r.get_coordinates())
    ok, r = guarded("nongap", lambda: fm.nongap())
    if ok:
        got = [(sp.start, sp.end) for sp in r if not sp.lost]
        decide("nongap", coords_set(got) == {i for i, x in enumerate(m) if x is not None}, nt, got=got)
    ok, r = guarded("mul", lambda: fm * 3)
    if ok:
        exp = []
        for d_ in desc:  # scaling keeps each span's orientation: a minus span still reads right to left
            if d_[0] == "L":
                exp += [None] * (3 * d_[1])
            else:
                pos = list(range(3 * d_[1], 3 * d_[2]))
                exp += pos[::-1] if d_[3] else pos
        decide("mul", fmodel(r) == exp and r.parent_length == 3 * P, nt, got=fmodel(r), exp=exp)
        ok2, r2 = guarded("truediv", lambda: r / 3)
        if ok2:
            decide("truediv", fmodel(r2) == m, nt, got=fmodel(r2), exp=m)
    ok, r = guarded("rich_dict", lambda: FeatureMap.from_rich_dict(fm.to_rich_dict()))
    if ok:
        decide("rich_dict", fmodel(r) == m and r.parent_length == P, nt)
    if present:
        ok, r = guarded("get_covering_span", lambda: fm.get_covering_span())
        if ok:
            decide("get_covering_span", [tuple(x) for x in r.get_coordinates()] == [(min(cov), max(cov) + 1)], nt, got=r.get_coordinates())
    res.sample({"spans": desc, "parent_length": P})


def run_case(case):
    res = Result()
    kind = case["kind"]
    if kind == "layouts":
        L = case["L"]
        for n in range(case["lo"], case["hi"]):
            pat = "".join("-" if (n >> i) & 1 else "A" for i in range(L))
            check_layout(res, letters(pat))
            if L <= 6:
                check_multi_join(res, letters(pat))
        res.count("layouts", case["hi"] - case["lo"])
        res.sample({"layout": letters(pat)})
    elif kind == "pairs":
        pats = ["".join(b) for L in range(0, case["maxL"] + 1) for b in itertools.product("A-", repeat=L)]
        for p1 in pats[case["lo"] : case["hi"]]:
            for p2 in pats:
                check_pair(res, p1, p2)
                res.count("pairs")
        res.sample({"pair": [p1, p2]})
    elif kind == "random":
        rng = random.Random(case["seed"])
        for _ in range(case["n"]):
            L = rng.randint(9, 60)
            g = []
            while len(g) < L:
                run = rng.choice([1, 1, 2, 3, 7, 15])
                g += (["-"] if rng.random() < 0.4 else ["A"]) * run
            g = letters("".join(g[:L]))
            check_random_layout(res, g, rng)
            res.count("random-layouts")
            check_far_offset(res, g, rng)
        res.sample({"random_layout": g})
    elif kind == "fmap":
        rng = random.Random(case["seed"])
        for _ in range(case["n"]):
            check_fmap(res, rng)
            res.count("feature-maps")
    elif kind == "one-multijoin":
        check_multi_join(res, case["g"])
    elif kind == "one-layout":
        check_layout(res, case["g"])
    elif kind == "one-pair":
        check_pair(res, case["p1"], case["p2"])
    return res


def check_far_offset(res, g, rng):
    """the same gap layout on a chromosome-sized sequence: a stretch of K residues (K around and beyond 2**31 / 2**32,
    coordinates held in 64-bit arrays as parse_out_gaps produces them) is inserted at the start or just before one of
    the gap runs; every answer behind the insertion point must be the near map's answer shifted by K"""
    import numpy
    from cogent3.core.location import IndelMap

    rr = runs(g)
    if not rr:
        return
    gap_pos, gap_len = [], []
    for a, b in rr:
        gap_pos.append(sum(1 for c in g[:a] if c != "-"))
        gap_len.append(b - a)
    nres = sum(1 for c in g if c != "-")
    K = rng.choice([2**31 - 3, 2**31 + 10**8, 2**32 + 7, 2**33 + 11])
    j = rng.randrange(len(rr))  # gaps j.. sit behind the inserted stretch
    cut_seq = gap_pos[j] if j else 0  # sequence coordinate where the stretch is inserted (before residue cut_seq)
    if j:
        cut_seq = gap_pos[j - 1] + (gap_pos[j] - gap_pos[j - 1]) // 2 if gap_pos[j] > gap_pos[j - 1] else gap_pos[j]
    cut_aln = rr[j][0] - (gap_pos[j] - cut_seq) if j else 0
    detail = {"g": g, "K": K, "first_shifted_gap": j}

    def decide(op, ok, **d):
        res.evals += 1
        res.count("op:far-offset/" + op)
        if not ok:
            res.witness(f"C08/far-offset/{op}", **dict(detail, **d))

    try:
        near = IndelMap(gap_pos=numpy.array(gap_pos, dtype=numpy.int64), gap_lengths=numpy.array(gap_len, dtype=numpy.int64), parent_length=nres)
        far = IndelMap(gap_pos=numpy.array([p + (K if i >= j else 0) for i, p in enumerate(gap_pos)], dtype=numpy.int64), gap_lengths=numpy.array(gap_len, dtype=numpy.int64), parent_length=nres + K)
        decide("len", len(far) == len(g) + K, got=len(far))
        exp = [[a + (K if i >= j else 0), b + (K if i >= j else 0)] for i, (a, b) in enumerate(rr)]
        got = [[int(x) for x in row] for row in far.get_gap_align_coordinates().tolist()]
        decide("gap-runs", got == exp, got=got, exp=exp)
        probes = sorted({x for a, b in rr for x in (a - 1, a, a + 1, b - 1, b, b + 1) if 0 <= x < len(g)})
        for ai in probes:
            far_ai = ai + (K if ai >= cut_aln else 0)
            small = near.get_seq_index(ai)
            exp_ = small + (K if ai >= cut_aln else 0)
            decide("get_seq_index", int(far.get_seq_index(far_ai)) == exp_, ai=ai, got=int(far.get_seq_index(far_ai)), exp=exp_)
        for si in sorted({x for p_ in gap_pos for x in (p_ - 1, p_, p_ + 1) if 0 <= x < nres}):
            far_si = si + (K if si >= cut_seq else 0)
            exp_ = int(near.get_align_index(si)) + (K if si >= cut_seq else 0)
            decide("get_align_index", int(far.get_align_index(far_si)) == exp_, si=si, got=int(far.get_align_index(far_si)), exp=exp_)
        behind = [x for x in probes if x >= cut_aln] + [len(g)]
        for _ in range(6):
            if len(behind) < 2:
                break
            a, b = sorted(rng.sample(behind, 2))
            small, big = near[a:b], far[a + K : b + K]
            decide("slice", len(big) == len(small) == b - a and big.parent_length == small.parent_length and [list(map(int, x)) for x in big.get_gap_coordinates()] == [list(map(int, x)) for x in small.get_gap_coordinates()], ab=(a, b), got=[list(map(int, x)) for x in big.get_gap_coordinates()], exp=[list(map(int, x)) for x in small.get_gap_coordinates()])
        res.sig("far-offset", K.bit_length(), j == 0, len(rr) > 2)
        res.count("far-offset-layouts")
    except Exception as e:  # noqa: BLE001
        res.evals += 1
        res.witness(exc_mechanism("C08/far-offset", e), error=repr(e)[:200], **detail)


def check_random_layout(res, g, rng):
    """long layouts: sampled slices, conversions at every index"""
    m, s = mk(g)
    L = len(g)
    has_gap = "-" in g

    def decide(op, ok, sig=None, **detail):
        res.evals += 1
        res.count("op:" + op.split("/")[0])
        if sig is not None:
            res.sig(op.split("/")[0], "long", *sig)
        if not ok:
            res.witness(f"C08/{op}", g=g, **detail)

    decide("len", len(m) == L)
    decide("render", render(m, s) == g)
    for ai in range(L):
        exp = sum(1 for c in g[:ai] if c != "-")
        decide("get_seq_index", m.get_seq_index(ai) == exp, None, ai=ai)
    pts = sorted({0, L} | {x for a, b in runs(g) for x in (a, b, a + 1, b - 1, a - 1, b + 1) if 0 <= x <= L})
    pairs = [(a, b) for a in pts for b in pts if a <= b]
    rng.shuffle(pairs)
    for a, b in pairs[:120]:
        try:
            sm = m[a:b]
        except Exception as e:  # noqa: BLE001
            res.evals += 1
            res.witness(exc_mechanism("C08/slice/in-range", e), g=g, ab=(a, b), error=repr(e)[:200])
            continue
        sub = g[a:b].replace("-", "")
        ca, cb = pos_class(g, a), pos_class(g, b)
        nt = (ca, cb) if has_gap and (ca in EDGE or cb in EDGE) else None
        decide("slice/in-range", render(sm, sub) == g[a:b], nt, ab=(a, b), got=render(sm, sub), exp=g[a:b])
    r = m.nucleic_reversed()
    decide("nucleic_reversed", render(r, s[::-1]) == g[::-1], ("rev",) if has_gap else None)
    for _ in range(10):
        k = rng.choice([3, 4, 5])
        if len(pts) >= 2 * k:
            cuts = sorted(rng.sample(pts, 2 * k))
            segs = [(cuts[2 * i], cuts[2 * i + 1]) for i in range(k)]
            try:
                r = m.joined_segments(segs)
                exp = "".join(g[x:y] for x, y in segs)
                decide("joined_segments/three-or-more", render(r, exp.replace("-", "")) == exp, ("multi", k) if has_gap else None, segs=segs, got=render(r, exp.replace("-", "")), exp=exp)
            except Exception as e:  # noqa: BLE001
                res.evals += 1
                res.witness(exc_mechanism("C08/joined_segments/three-or-more", e), g=g, segs=segs, error=repr(e)[:200])
    for _ in range(10):
        cuts = sorted(rng.sample(pts, min(len(pts), 4))) if len(pts) >= 4 else None
        if not cuts or cuts[0] == cuts[1] or cuts[2] == cuts[3]:
            continue
        a, b, c, d = cuts
        try:
            r = m.joined_segments([(a, b), (c, d)])
        except Exception as e:  # noqa: BLE001
            res.evals += 1
            res.witness(exc_mechanism("C08/joined_segments", e), g=g, abcd=cuts, error=repr(e)[:200])
            continue
        exp = g[a:b] + g[c:d]
        decide("joined_segments", render(r, exp.replace("-", "")) == exp, (pos_class(g, b), pos_class(g, c)) if has_gap else None, abcd=cuts, got=render(r, exp.replace("-", "")), exp=exp)
