"""C03 — alignment operations equal the same operations on the gapped strings.

Shape B + R + C.  The model of an alignment / collection is `names: list[str]` plus
`rows: dict[name -> str]`; every operation of the property has its obvious string
implementation here.  A history is applied step by step to the real ArrayAlignment and
Alignment (old-style cogent3.core.alignment) objects and to the model; after *every* step
names / len / every gapped row / to_dict() of both real objects are compared with the model
(and hence with each other).  At the end of a history a battery of read-only methods is run
on the result and on a fresh object built from the observed rows.  icontract class
invariants are attached (from here, not in the repository) to the live Alignment class.
"""

import random
import re

import numpy

from vmon.core import Result, exc_mechanism

ID = "C03"
LEVEL = "exploration"
RULE = (
    "Seeded random alignments (1-5 rows x 1-14 columns quick / up to 30 columns thorough; DNA, RNA, protein; gap-rich, "
    "degenerate and clean alphabets; injected leading/trailing gap runs, all-gap rows and all-gap columns) and ragged "
    "collections; histories of depth 1-6 (quick) / 1-8 (thorough) drawn from slice (lattice of gap-run edges, negative, "
    "open-ended, beyond the end, empty), int index, strides and out-of-range negative slices (documented refusals of "
    "the annotatable class), rc, take_positions(+-negate), take_seqs(+-negate), omit_gap_pos, no_degenerates(+-allow_gap, "
    "motif_length), filtered (position-mask predicate, motif_length, drop_remainder), get_degapped_relative_to, sample "
    "(injected permutation / randint, motif_length), + (other alignment, itself), to_type (swaps the two classes), "
    "to_rna / to_dna / to_moltype(dna<->rna), degap (continues as a collection history), deepcopy(+-sliced), rename_seqs. "
    "Oracle = dict[name->str] with the string implementation of each operation, compared after every step with "
    "ArrayAlignment and Alignment; read-only battery on the final object vs a fresh object from the observed rows. "
    "A decided step is non-trivial when it is at least the 2nd operation, the starting data contains a gap and the "
    "history contains rc, a slice touching a gap-run edge, or take_positions; distinct = (class, previous operation, "
    "operation, rc parity, gap-layout class of the first starting row)."
)
LEVEL_TEXT = (
    "Every step of seeded random operation histories on the real ArrayAlignment, Alignment and SequenceCollection objects "
    "is compared with a name->string model (names, length, every gapped row, to_dict, equal row lengths, the two classes "
    "against each other); the final object of every history answers a battery of read-only methods exactly like a fresh "
    "object built from its rows; icontract invariants on the live Alignment class check row lengths and the "
    "(IndelMap, sequence) pair of every row after every construction and public call. Sampled, not exhaustive."
)
LEVEL_NOTE = (
    "held = held on the histories listed in the evidence; trusted: Python str/list/dict semantics, the IUPAC complement "
    "table written out in this module, make_aligned_seqs / make_unaligned_seqs on plain strings as constructors"
)
TECHNIQUE = "runtime monitoring: boundary recorder + executable string model per history step, relational two-class check, icontract class invariants"
ASSUMPTIONS = [
    "Python str slicing / indexing / join are the reference semantics of every operation",
    "make_aligned_seqs / make_unaligned_seqs on plain strings build a correct starting object (checked at step 0 against the input)",
    "IndexError for a negative slice bound beyond the start and NotImplementedError for strides are documented refusals of Alignment",
    "results documented to be None / {} when nothing is left are equated with the empty model; histories stop there",
]
TIMEOUT = {"quick": 1800, "thorough": 10800}

# ---------------------------------------------------------------------------
# alphabets and the string model

NUC = {"dna": "ACGT", "rna": "ACGU"}
NUC_DEGEN = "RYKMSWBDHVN"
PROT = "ACDEFGHIKLMNPQRSTVWY"
PROT_DEGEN = "BZX"
GAPCHARS = "-?"
_DC = "ACGTRYKMSWBDHVN-?"
_DCc = "TGCAYRMKSWVHDBN-?"
COMP = {
    "dna": str.maketrans(_DC, _DCc),
    "rna": str.maketrans(_DC.replace("T", "U"), _DCc.replace("T", "U")),
}
NON_DEGEN = {"dna": set("ACGT"), "rna": set("ACGU"), "protein": set("ACDEFGHIKLMNPQRSTUVWY")}
EPS_DEFAULT = 1 - 1e-6  # documented default of omit_gap_pos


class M:
    """the model: ordered names, name -> gapped string, moltype label, aln|coll"""

    __slots__ = ("names", "rows", "mt", "kind")

    def __init__(self, names, rows, mt, kind):
        self.names = list(names)
        self.rows = {n: rows[n] for n in names}
        self.mt = mt
        self.kind = kind

    def length(self):
        return max((len(s) for s in self.rows.values()), default=0)

    def empty(self):
        return not self.names or self.length() == 0

    def map(self, f):
        return M(self.names, {n: f(s) for n, s in self.rows.items()}, self.mt, self.kind)

    def cols(self, keep):
        return self.map(lambda s: "".join(s[i] for i in keep))

    def to_json(self):
        return {"names": self.names, "rows": self.rows, "moltype": self.mt, "kind": self.kind}


def model_apply(m, op):
    """the string implementation of every operation; returns the new model"""
    k = op["op"]
    L = m.length()
    if k in ("slice", "stride"):
        sl = slice(op.get("start"), op.get("stop"), op.get("step"))
        return m.map(lambda s: s[sl])
    if k == "index":
        return m.map(lambda s: s[op["i"]])
    if k == "rc":
        t = COMP[m.mt]
        return m.map(lambda s: s.translate(t)[::-1])
    if k == "take_positions":
        cols = op["cols"]
        if op["negate"]:
            drop = set(cols)
            return m.cols([i for i in range(L) if i not in drop])
        return m.cols(cols)
    if k == "take_seqs":
        sel = op["names"]
        names = [n for n in m.names if n not in sel] if op["negate"] else list(sel)
        return M(names, m.rows, m.mt, m.kind)
    if k == "omit_gap_pos":
        frac = EPS_DEFAULT if op["frac"] is None else op["frac"]
        n = len(m.names)
        keep = [i for i in range(L) if sum(m.rows[x][i] in GAPCHARS for x in m.names) / n <= frac]
        return m.cols(keep)
    if k == "no_degenerates":
        ok = set(NON_DEGEN[m.mt]) | ({"-"} if op["allow_gap"] else set())
        w = op["motif_length"]
        keep = []
        for j in range(L // w):
            idx = range(j * w, (j + 1) * w)
            if all(m.rows[x][i] in ok for x in m.names for i in idx):
                keep.extend(idx)
        return m.cols(keep)
    if k == "filtered":
        w = op["motif_length"]
        keep = []
        for j in range(L // w):
            if op["mask"][j]:
                keep.extend(range(j * w, (j + 1) * w))
        return m.cols(keep)
    if k == "degap_rel":
        ref = m.rows[op["name"]]
        return m.cols([i for i in range(L) if ref[i] != "-"])
    if k == "sample":
        w = op["motif_length"]
        locs = op["locs"][: op["n"]] if op["n"] else op["locs"]
        return m.map(lambda s: "".join(s[p * w : (p + 1) * w] for p in locs))
    if k == "add":
        other = op["other"]
        return M(m.names, {n: m.rows[n] + other[n] for n in m.names}, m.mt, m.kind)
    if k == "add_self":
        return m.map(lambda s: s + s)
    if k in ("to_type", "deepcopy", "to_moltype_same"):
        return m
    if k == "convert":  # to_rna / to_dna / to_moltype(dna<->rna)
        a, b = ("T", "U") if op["to"] == "rna" else ("U", "T")
        return M(m.names, {n: s.replace(a, b) for n, s in m.rows.items()}, op["to"], m.kind)
    if k == "degap":
        return M(m.names, {n: "".join(c for c in s if c not in GAPCHARS) for n, s in m.rows.items()}, m.mt, "coll")
    if k == "rename_seqs":
        mp = op["map"]
        return M([mp[n] for n in m.names], {mp[n]: s for n, s in m.rows.items()}, m.mt, m.kind)
    raise KeyError(k)


# ---------------------------------------------------------------------------
# classification helpers (structure classes for mechanisms / signatures)


def gap_runs(s):
    return [(x.start(), x.end()) for x in re.finditer("-+", s)]


def layout_class(s):
    if "-" not in s:
        return "nogap"
    if set(s) == {"-"}:
        return "all-gap"
    r = gap_runs(s)
    lead = r[0][0] == 0
    trail = r[-1][1] == len(s)
    inner = len(r) - lead - trail
    return "+".join(x for x, f in (("lead", lead), ("inner", inner > 0), ("trail", trail)) if f)


def norm_index(x, L, default):
    if x is None:
        return default
    return x + L if x < 0 else x


def slice_variant(op, L):
    a, b = op.get("start"), op.get("stop")
    if (a is not None and a < -L) or (b is not None and b < -L):
        return "negative-out-of-range"
    ra, rb = norm_index(a, L, 0), min(norm_index(b, L, L), L)
    if ra >= rb:
        return "empty"
    if (a is not None and a < 0) or (b is not None and b < 0):
        return "negative"
    if b is not None and b > L:
        return "beyond-length"
    return "in-range"


def touches_gap_edge(m, op):
    L = m.length()
    a, b = norm_index(op.get("start"), L, 0), min(norm_index(op.get("stop"), L, L), L)
    for s in m.rows.values():
        for x, y in gap_runs(s):
            if x <= a <= y and not (a == 0 == x) or x <= b <= y and not (b == L == y):
                return True
    return False


def op_label(op, m):
    """operation name with the structural variant, used in mechanisms and counters"""
    k = op["op"]
    if k == "slice":
        return "slice." + slice_variant(op, m.length())
    if k == "index":
        return "index." + ("negative" if op["i"] < 0 else "non-negative")
    if k in ("take_positions", "take_seqs"):
        return k + (".negate" if op["negate"] else ".plain")
    if k == "add":
        return "add.other"
    if k == "add_self":
        return "add.self"
    if k == "sample":
        return "sample." + ("with-replacement" if op["with_replacement"] else "permutation")
    if k == "deepcopy":
        return "deepcopy." + ("sliced" if op["sliced"] else "unsliced")
    if k == "no_degenerates":
        return "no_degenerates." + ("allow-gap" if op["allow_gap"] else "no-gap")
    if k == "filtered":
        return "filtered" + ("" if op.get("drop_remainder", True) else ".strict")
    if k in ("convert", "to_moltype_same"):
        return "dna-rna-conversion"
    return k


# ---------------------------------------------------------------------------
# workload generators


def gen_start(rng, tier, kind):
    mt = rng.choice(["dna", "dna", "dna", "rna", "protein"])
    base = NUC.get(mt, PROT)
    degen = NUC_DEGEN if mt != "protein" else PROT_DEGEN
    style = rng.choice(["gap-rich", "gap-rich", "gappy", "degenerate", "clean", "mixed"])
    alpha = {
        "gap-rich": base + "-" * len(base),
        "gappy": base * 2 + "--",
        "degenerate": base * 2 + degen + "-?",
        "clean": base,
        "mixed": base * 3 + degen + "---?",
    }[style]
    maxL = 14 if tier == "quick" else rng.choice([14, 14, 30])
    nseq = rng.randint(1, 5)
    L = rng.randint(1, maxL)
    pool = ["s0", "s1", "s2", "s3", "s4", "seq_10", "A", "b2", "Human", "x.y"]
    names = rng.sample(pool, nseq)
    rows = {}
    for n in names:
        Ln = L if kind == "aln" else rng.randint(1, maxL)
        s = [rng.choice(alpha) for _ in range(Ln)]
        if style != "clean":
            if rng.random() < 0.3:
                t = rng.randint(1, max(1, Ln // 2))
                s[:t] = ["-"] * t
            if rng.random() < 0.3:
                t = rng.randint(1, max(1, Ln // 2))
                s[Ln - t :] = ["-"] * t
            if rng.random() < 0.06:
                s = ["-"] * Ln
        rows[n] = "".join(s)[:Ln]
    if kind == "aln" and style != "clean" and rng.random() < 0.15:
        c = rng.randrange(L)
        rows = {n: s[:c] + "-" + s[c + 1 :] for n, s in rows.items()}
    return M(names, rows, mt, kind)


ALN_OPS = [
    ("slice", 6),
    ("stride", 0.6),
    ("index", 1.2),
    ("rc", 3),
    ("take_positions", 3),
    ("take_seqs", 1.5),
    ("omit_gap_pos", 1.2),
    ("no_degenerates", 1.2),
    ("filtered", 1.5),
    ("degap_rel", 1.2),
    ("sample", 2),
    ("add", 1.5),
    ("add_self", 0.6),
    ("to_type", 2),
    ("convert", 2),
    ("to_moltype_same", 0.3),
    ("degap", 0.4),
    ("deepcopy", 1.2),
    ("rename_seqs", 0.8),
]
COLL_OPS = [
    ("rc", 3),
    ("take_seqs", 2),
    ("convert", 3),
    ("to_moltype_same", 0.3),
    ("degap", 1.5),
    ("deepcopy", 1.5),
    ("rename_seqs", 1),
    ("add", 1.5),
    ("add_self", 0.7),
]


def rand_row(rng, m, n):
    base = NUC.get(m.mt, PROT)
    alpha = base + "-" * (len(base) // 2) + (NUC_DEGEN if m.mt != "protein" else PROT_DEGEN)[:2]
    if rng.random() < 0.1:
        return "-" * n
    s = "".join(rng.choice(alpha) for _ in range(n))
    if rng.random() < 0.25:
        s = "-" + s[1:]
    return s


def gen_op(rng, m):
    """one JSON-serialisable operation descriptor valid for the model state m (None: try again)"""
    table = ALN_OPS if m.kind == "aln" else COLL_OPS
    k = rng.choices([x for x, _ in table], [w for _, w in table])[0]
    L = m.length()
    nuc = m.mt in ("dna", "rna")
    if k == "slice":
        lattice = {0, L}
        for s in m.rows.values():
            for x, y in gap_runs(s):
                lattice.update(v for v in (x - 1, x, x + 1, y - 1, y, y + 1) if 0 <= v <= L)
        lattice = sorted(lattice)
        mode = rng.random()
        if mode < 0.55:
            a, b = sorted((rng.choice(lattice), rng.choice(lattice)))
        elif mode < 0.8:
            a, b = rng.randint(0, L), rng.randint(0, L)
        elif mode < 0.9:
            a, b = rng.randint(0, L), L + rng.randint(1, 3)
        else:
            a, b = rng.randint(-L - 2, L + 2), rng.randint(-L - 2, L + 2)
        if rng.random() < 0.25 and 0 < a <= L:
            a = a - L  # the same position, written negatively
        if rng.random() < 0.25 and 0 < b < L:
            b = b - L
        if rng.random() < 0.12:
            a = None
        if rng.random() < 0.12:
            b = None
        return {"op": "slice", "start": a, "stop": b}
    if k == "stride":
        return {"op": "stride", "start": rng.choice([None, rng.randint(0, L)]), "stop": None, "step": rng.choice([2, 3])}
    if k == "index":
        return {"op": "index", "i": rng.randrange(-L, L)}
    if k == "rc":
        return {"op": "rc"} if nuc else None
    if k == "take_positions":
        negate = rng.random() < 0.3
        cols = [rng.randrange(L) for _ in range(rng.randint(1, max(1, L)))]
        if negate or rng.random() < 0.5:
            cols = sorted(set(cols))
        if negate and len(cols) == L and L > 1:
            cols = cols[:-1]
        return {"op": "take_positions", "cols": cols, "negate": negate}
    if k == "take_seqs":
        negate = rng.random() < 0.3
        n = rng.randint(1, len(m.names))
        return {"op": "take_seqs", "names": rng.sample(m.names, n), "negate": negate}
    if k == "omit_gap_pos":
        return {"op": "omit_gap_pos", "frac": rng.choice([None, None, 0, 0.2, 0.25, 0.34, 0.5, 0.75, 1])}
    if k == "no_degenerates":
        return {"op": "no_degenerates", "allow_gap": rng.random() < 0.5, "motif_length": rng.choice([1, 1, 1, 2, 3])}
    if k == "filtered":
        w = rng.choice([1, 1, 1, 2, 3])
        nm = L // w
        style = rng.random()
        if style < 0.6:
            mask = [rng.random() < 0.6 for _ in range(nm)]
        elif style < 0.8:  # long runs
            mask, cur = [], rng.random() < 0.5
            while len(mask) < nm:
                mask += [cur] * rng.randint(1, 4)
                cur = not cur
            mask = mask[:nm]
        else:
            mask = [i % 2 == 0 for i in range(nm)]
        d = {"op": "filtered", "mask": mask, "motif_length": w}
        if rng.random() < 0.15:
            d["drop_remainder"] = False
        return d
    if k == "degap_rel":
        return {"op": "degap_rel", "name": rng.choice(m.names)}
    if k == "sample":
        w = rng.choice([1, 1, 1, 2, 3])
        pop = L // w
        if pop == 0:
            return None
        if rng.random() < 0.5:
            locs = list(range(pop))
            rng.shuffle(locs)
            n = rng.choice([None, rng.randint(1, pop)])
            return {"op": "sample", "n": n, "with_replacement": False, "motif_length": w, "locs": locs}
        n = rng.choice([None, rng.randint(1, pop + 2)])
        locs = [rng.randrange(pop) for _ in range(n or pop)]
        return {"op": "sample", "n": n, "with_replacement": True, "motif_length": w, "locs": locs}
    if k == "add":
        order = list(m.names)
        rng.shuffle(order)
        if m.kind == "aln":
            n2 = rng.randint(1, 5)
            other = {n: rand_row(rng, m, n2) for n in m.names}
        else:
            other = {n: rand_row(rng, m, rng.randint(1, 5)) for n in m.names}
        return {"op": "add", "other": other, "order": order}
    if k == "add_self":
        return {"op": "add_self", "via_take_seqs": rng.random() < 0.3}
    if k == "to_type":
        return {"op": "to_type"}
    if k == "convert":
        if not nuc:
            return None
        to = "rna" if m.mt == "dna" else "dna"
        return {"op": "convert", "to": to, "via": rng.choice(["to_" + to, "to_" + to, "to_moltype"])}
    if k == "to_moltype_same":
        return {"op": "to_moltype_same"}
    if k == "degap":
        return {"op": "degap"}
    if k == "deepcopy":
        return {"op": "deepcopy", "sliced": rng.random() < 0.7}
    if k == "rename_seqs":
        style = rng.random()
        if style < 0.5:
            mp = {n: n + "_r" for n in m.names}
        elif style < 0.8:
            mp = {n: n.upper() + "x" for n in m.names}
        else:
            mp = {n: f"t{i}" for i, n in enumerate(m.names)}
        return {"op": "rename_seqs", "map": mp}
    raise KeyError(k)


def gen_cases(rng, tier):
    cases = []
    if tier == "quick":
        nb, n, nc, deep = 150, 20, 30, 6
    else:
        nb, n, nc, deep = 800, 50, 80, 8
    for _ in range(nb):
        cases.append({"kind": "hist", "start": "aln", "seed": rng.randrange(2**32), "n": n, "depth": deep, "tier": tier, "battery": 8})
    for _ in range(nc):
        cases.append({"kind": "hist", "start": "coll", "seed": rng.randrange(2**32), "n": n, "depth": deep, "tier": tier, "battery": 6})
    return cases


# ---------------------------------------------------------------------------
# icontract invariants on the live Alignment class (attached here, the repository is not edited)

_INV = {"evals": 0, "installed": False}


class AlignmentInvariantViolation(Exception):
    def __init__(self, kind, info):
        super().__init__(f"{kind}: {info}")
        self.kind = kind
        self.info = info


def _aligned_rows(aln):
    from cogent3.core.alignment import Aligned

    rows = [aln.named_seqs[n] for n in aln.names]
    return rows if all(isinstance(r, Aligned) for r in rows) else None


def _describe(aln):
    try:
        return [(n, repr(aln.named_seqs[n].map), len(aln.named_seqs[n].data)) for n in aln.names]
    except Exception as e:  # noqa: BLE001
        return repr(e)


def inv_rows_equal_length(self):
    _INV["evals"] += 1
    rows = _aligned_rows(self)
    return rows is not None and len({len(r.map) for r in rows}) <= 1


def err_rows_equal_length(self):
    return AlignmentInvariantViolation("rows-unequal-length", _describe(self))


def inv_parent_length_is_data_length(self):
    _INV["evals"] += 1
    rows = _aligned_rows(self)
    return rows is not None and all(r.map.parent_length == len(r.data) for r in rows)


def err_parent_length_is_data_length(self):
    return AlignmentInvariantViolation("map-parent_length-differs-from-data-length", _describe(self))


_RENDERED = {}  # id(alignment) -> weakref; alignments are immutable, so each instance is rendered once


def inv_map_length_is_gapped_length(self):
    import weakref

    ref = _RENDERED.get(id(self))
    if ref is not None and ref() is self:
        return True
    _INV["evals"] += 1
    rows = _aligned_rows(self)
    if rows is None:
        return False
    try:
        ok = all(len(r.map) == len(str(r.get_gapped_seq())) for r in rows)
    except Exception:  # noqa: BLE001  a row that cannot be rendered does not satisfy the invariant
        return False
    if ok:
        if len(_RENDERED) > 5000:
            for k in [k for k, v in _RENDERED.items() if v() is None]:
                del _RENDERED[k]
        _RENDERED[id(self)] = weakref.ref(self)
    return ok


def err_map_length_is_gapped_length(self):
    return AlignmentInvariantViolation("map-length-differs-from-gapped-string-length", _describe(self))


def install_invariants():
    if _INV["installed"]:
        return
    import icontract
    from cogent3.core.alignment import Alignment

    icontract.invariant(inv_rows_equal_length, error=err_rows_equal_length)(Alignment)
    icontract.invariant(inv_parent_length_is_data_length, error=err_parent_length_is_data_length)(Alignment)
    icontract.invariant(inv_map_length_is_gapped_length, error=err_map_length_is_gapped_length)(Alignment)
    _INV["installed"] = True


def worker_init():
    install_invariants()


# ---------------------------------------------------------------------------
# driving the real code


def build(m, key):
    """fresh real object from model rows; key: arr | ann | col"""
    from cogent3 import make_aligned_seqs, make_unaligned_seqs

    data = {n: m.rows[n] for n in m.names}
    if m.kind == "coll":
        return make_unaligned_seqs(data, moltype=m.mt)
    return make_aligned_seqs(data, moltype=m.mt, array_align=(key == "arr"))


class PredicateLog:
    """position-mask predicate for filtered(); records what it was given"""

    def __init__(self, mask, alphabet):
        self.mask = mask
        self.alpha = list(alphabet) if alphabet is not None else None
        self.seen = []

    def __call__(self, col):
        i = len(self.seen)
        if isinstance(col, numpy.ndarray):
            self.seen.append(tuple("".join(self.alpha[int(j)] for j in numpy.atleast_1d(r)) for r in col))
        else:
            self.seen.append(tuple("".join(str(c) for c in x) if not isinstance(x, str) else x for x in col))
        return bool(self.mask[i]) if i < len(self.mask) else False


def real_apply(obj, op, m, side):
    """perform op on the real object; returns the result (side collects extra observations)"""
    from cogent3.core.alignment import ArrayAlignment

    k = op["op"]
    if k in ("slice", "stride"):
        return obj[slice(op.get("start"), op.get("stop"), op.get("step"))]
    if k == "index":
        return obj[op["i"]]
    if k == "rc":
        return obj.rc()
    if k == "take_positions":
        return obj.take_positions(list(op["cols"]), negate=True) if op["negate"] else obj.take_positions(list(op["cols"]))
    if k == "take_seqs":
        return obj.take_seqs(list(op["names"]), negate=True) if op["negate"] else obj.take_seqs(list(op["names"]))
    if k == "omit_gap_pos":
        return obj.omit_gap_pos() if op["frac"] is None else obj.omit_gap_pos(allowed_gap_frac=op["frac"])
    if k == "no_degenerates":
        return obj.no_degenerates(motif_length=op["motif_length"], allow_gap=op["allow_gap"])
    if k == "filtered":
        pred = PredicateLog(op["mask"], obj.alphabet if isinstance(obj, ArrayAlignment) else None)
        side["predicate"] = pred
        kw = {} if op.get("drop_remainder", True) else {"drop_remainder": False}
        return obj.filtered(pred, motif_length=op["motif_length"], **kw)
    if k == "degap_rel":
        return obj.get_degapped_relative_to(op["name"])
    if k == "sample":
        calls = side.setdefault("rand_calls", [])
        locs = numpy.array(op["locs"], dtype=int)

        def permutation(n):
            calls.append(("permutation", int(n)))
            return locs.copy()

        def randint(lo, hi, n):
            calls.append(("randint", int(lo), int(hi), int(n)))
            return locs.copy()

        kw = {"motif_length": op["motif_length"], "permutation": permutation, "randint": randint}
        if op["n"] is not None:
            kw["n"] = op["n"]
        if op["with_replacement"]:
            kw["with_replacement"] = True
        return obj.sample(**kw)
    if k == "add":
        from cogent3 import make_aligned_seqs, make_unaligned_seqs

        data = {n: op["other"][n] for n in op["order"]}
        if m.kind == "coll":
            other = make_unaligned_seqs(data, moltype=m.mt)
        else:
            other = make_aligned_seqs(data, moltype=m.mt, array_align=isinstance(obj, ArrayAlignment))
        return obj + other
    if k == "add_self":
        if op.get("via_take_seqs"):
            return obj + obj.take_seqs(list(reversed(obj.names)))
        return obj + obj
    if k == "convert":
        if op["via"] == "to_moltype":
            return obj.to_moltype(op["to"])
        return getattr(obj, op["via"])()
    if k == "to_moltype_same":
        return obj.to_moltype(m.mt)
    if k == "degap":
        return obj.degap()
    if k == "deepcopy":
        return obj.deepcopy(sliced=op["sliced"])
    if k == "rename_seqs":
        mp = op["map"]
        return obj.rename_seqs(lambda n: mp[n])
    raise KeyError(k)


def observe(obj, kind):
    names = list(obj.names)
    if kind == "aln":
        rows = {n: str(obj.get_gapped_seq(n)) for n in names}
    else:
        rows = {n: str(obj.get_seq(n)) for n in names}
    return {"names": names, "rows": rows, "to_dict": list(obj.to_dict().items()), "len": len(obj), "num_seqs": obj.num_seqs}


def view_state(obj):
    """is the underlying view of any row reversed? read from the live object (labels mechanisms only)"""
    try:
        for s in obj.seqs:
            s = getattr(s, "data", s)
            if s.parent_coordinates()[-1] == -1:
                return "view-reversed"
    except Exception:  # noqa: BLE001
        pass
    return None


def cls_name(obj):
    return type(obj).__name__


# ---------------------------------------------------------------------------
# read-only battery


def _s(c):
    return "".join(map(str, c))


def _has_gap(c):
    return "-" in _s(c)


BATTERY_COMMON = {
    "names": lambda a: list(a.names),
    "num_seqs": lambda a: a.num_seqs,
    "len": lambda a: len(a),
    "seq_len": lambda a: a.seq_len,
    "is_ragged": lambda a: a.is_ragged(),
    "to_dict": lambda a: a.to_dict(),
    "str": lambda a: str(a),
    "repr": lambda a: repr(a),
    "to_fasta": lambda a: a.to_fasta(),
    "to_fasta-block": lambda a: a.to_fasta(block_size=4),
    "to_phylip": lambda a: a.to_phylip(),
    "seqs": lambda a: [str(s) for s in a.seqs],
    "iter_seqs-reversed": lambda a: [str(s) for s in a.iter_seqs(list(reversed(a.names)))],
    "iter_selected": lambda a: [str(x) for x in a.iter_selected()],
    "get_seq": lambda a: [str(a.get_seq(n)) for n in a.names],
    "named_seqs": lambda a: {n: str(s) for n, s in a.named_seqs.items()},
    "degap": lambda a: a.degap(),
    "get_lengths": lambda a: a.get_lengths(),
    "get_lengths-ambig-gap": lambda a: a.get_lengths(include_ambiguity=True, allow_gap=True),
    "counts": lambda a: a.counts(),
    "counts-2-ambig-gap": lambda a: a.counts(motif_length=2, include_ambiguity=True, allow_gap=True),
    "counts_per_seq": lambda a: a.counts_per_seq(),
    "counts_per_seq-ambig-gap": lambda a: a.counts_per_seq(include_ambiguity=True, allow_gap=True, exclude_unobserved=True),
    "probs_per_seq": lambda a: a.probs_per_seq(),
    "entropy_per_seq": lambda a: a.entropy_per_seq(),
    "get_motif_probs": lambda a: a.get_motif_probs(),
    "get_ambiguous_positions": lambda a: a.get_ambiguous_positions(),
    "get_identical_sets": lambda a: sorted(sorted(s) for s in a.get_identical_sets()),
    "get_identical_sets-mask": lambda a: sorted(sorted(s) for s in a.get_identical_sets(mask_degen=True)),
    "has_terminal_stop": lambda a: a.has_terminal_stop(),
    "get_translation": lambda a: a.get_translation(incomplete_ok=True),
    "trim_stop_codons": lambda a: a.trim_stop_codons(),
    "get_seq_indices": lambda a: a.get_seq_indices(lambda s: "-" in str(s)),
    "take_seqs_if": lambda a: a.take_seqs_if(lambda s: "-" in str(s), negate=True),
    "omit_gap_seqs": lambda a: a.omit_gap_seqs(0.25),
    "omit_gap_runs": lambda a: a.omit_gap_runs(1),
    "pad_seqs": lambda a: a.pad_seqs(),
    "eq-own-dict": lambda a: a == a.to_dict(),
}
BATTERY_ALN = {
    "get_gapped_seq": lambda a: [str(a.get_gapped_seq(n)) for n in a.names],
    "get_gapped_seq-recode": lambda a: [str(a.get_gapped_seq(n, recode_gaps=True)) for n in a.names],
    "positions": lambda a: [[str(c) for c in col] for col in a.positions],
    "iter_positions-order": lambda a: [[str(c) for c in col] for col in a.iter_positions(pos_order=list(range(len(a) - 1, -1, -2)))],
    "to_pretty": lambda a: a.to_pretty(),
    "to_nexus": lambda a: a.to_nexus("protein" if a.moltype.label == "protein" else a.moltype.label),
    "counts_per_pos": lambda a: a.counts_per_pos(),
    "counts_per_pos-2-ambig-gap": lambda a: a.counts_per_pos(motif_length=2, include_ambiguity=True, allow_gap=True),
    "probs_per_pos": lambda a: a.probs_per_pos(),
    "entropy_per_pos": lambda a: a.entropy_per_pos(),
    "count_gaps_per_pos": lambda a: a.count_gaps_per_pos(),
    "count_gaps_per_seq": lambda a: a.count_gaps_per_seq(),
    "count_gaps_per_seq-unique": lambda a: a.count_gaps_per_seq(unique=True),
    "count_gaps_per_seq-induced": lambda a: a.count_gaps_per_seq(induced_by=True, include_ambiguity=False),
    "get_gap_array": lambda a: a.get_gap_array(),
    "get_gap_array-noambig": lambda a: a.get_gap_array(include_ambiguity=False),
    "iupac_consensus": lambda a: a.iupac_consensus(),
    "majority_consensus": lambda a: a.majority_consensus(),
    "variable_positions": lambda a: a.variable_positions(),
    "variable_positions-nogap": lambda a: a.variable_positions(include_gap_motif=False),
    "get_position_indices": lambda a: a.get_position_indices(_has_gap),
    "get_position_indices-negate": lambda a: a.get_position_indices(_has_gap, negate=True),
    "take_positions_if": lambda a: a.take_positions_if(_has_gap, negate=True),
    "sliding_windows": lambda a: list(a.sliding_windows(3, 2)),
    "omit_bad_seqs": lambda a: a.omit_bad_seqs(),
    "matching_ref": lambda a: a.matching_ref(a.names[0], 0.5, 2),
    "with_modified_termini": lambda a: a.with_modified_termini(),
    "distance_matrix": lambda a: a.distance_matrix(calc="pdist") if a.moltype.label != "protein" else None,
    "gap_vector": lambda a: [list(s.gap_vector()) for s in a.seqs],
    "row-iteration": lambda a: [[str(c) for c in s] for s in a.seqs],
}

BATTERY_CORE = ["degap", "get_seq", "has_terminal_stop", "pad_seqs", "row-iteration", "get_translation"]
_ADDR = re.compile(r"0x[0-9a-fA-F]+")


def norm(v, depth=0):
    """plain comparable value"""
    if depth > 8:
        return _ADDR.sub("0x", repr(v))
    if v is None or isinstance(v, (bool, int, str)):
        return v
    if isinstance(v, float):
        return "nan" if v != v else v
    if isinstance(v, numpy.generic):
        return norm(v.item(), depth + 1)
    if isinstance(v, numpy.ndarray):
        return norm(v.tolist(), depth + 1)
    if isinstance(v, dict):
        return [[norm(k, depth + 1), norm(x, depth + 1)] for k, x in v.items()]
    if isinstance(v, (set, frozenset)):
        return sorted((norm(x, depth + 1) for x in v), key=repr)
    if isinstance(v, (list, tuple)):
        return [norm(x, depth + 1) for x in v]
    if hasattr(v, "names") and hasattr(v, "to_dict") and hasattr(v, "moltype"):
        return ["seqs", type(v).__name__, v.moltype.label, list(v.names), norm(v.to_dict(), depth + 1)]
    if hasattr(v, "array") and hasattr(v, "template"):
        return ["dictarray", type(v).__name__, norm(v.template.names, depth + 1), norm(numpy.asarray(v.array), depth + 1)]
    if hasattr(v, "moltype") and hasattr(v, "__len__"):
        return ["seq", type(v).__name__, str(v)]
    if hasattr(v, "__iter__"):
        return [norm(x, depth + 1) for x in v]
    return _ADDR.sub("0x", repr(v))


def run_battery(res, key, obj, m_obs, methods, detail):
    """result vs a fresh object of the same class built from the observed rows"""
    kind = m_obs.kind
    try:
        fresh = build(m_obs, key)
    except Exception as e:  # noqa: BLE001
        res.evals += 1
        res.witness(exc_mechanism(f"C03/battery.fresh-object/{cls_name(obj)}", e), error=repr(e)[:300], observed=m_obs.to_json(), **detail)
        return
    table = dict(BATTERY_COMMON)
    if kind == "aln":
        table.update(BATTERY_ALN)
    for name in methods:
        fn = table.get(name)
        if fn is None:
            continue
        outs = []
        for o in (obj, fresh):
            try:
                outs.append(("ok", norm(fn(o))))
            except AlignmentInvariantViolation as e:
                outs.append(("invariant", e.kind))
            except Exception as e:  # noqa: BLE001
                outs.append(("raises", type(e).__name__))
        res.evals += 1
        res.count("battery-decisions")
        res.count("battery:" + name)
        got, exp = outs
        if got[0] == "raises" and exp[0] == "raises":
            res.count("battery-both-raise")
        if got != exp:
            what = "raises-only-on-result" if got[0] != "ok" and exp[0] == "ok" else ("raises-only-on-fresh" if exp[0] != "ok" and got[0] == "ok" else "differs-from-fresh")
            d = dict(detail)
            rc = dict(d.pop("replay_case"))
            rc["battery"] = [name]
            res.witness(f"C03/battery.{name}/{cls_name(obj)}/{what}", got=got, expected=exp, observed=m_obs.to_json(), replay_case=rc, **d)


# ---------------------------------------------------------------------------
# one history


def is_empty_result(r, kind):
    """None / {} / an object whose rows are all empty"""
    if r is None:
        return True
    if isinstance(r, dict) and not r:
        return True
    try:
        return all(len(str(v)) == 0 for v in r.to_dict().values())
    except Exception:  # noqa: BLE001
        return False


def run_history(res, start, ops_source, battery, rng=None, depth=0):
    """start: model; ops_source: list of op descriptors (replay) or None (generate with rng)"""
    install_invariants()
    inv0 = _INV["evals"]
    m = start
    keys = ["arr", "ann"] if m.kind == "aln" else ["col"]
    hist_start = m  # the point the recorded history starts from (reset on re-synchronisation)
    hist_ops = []
    layout0 = layout_class(m.rows[m.names[0]])
    has_gap0 = any("-" in s for s in m.rows.values())
    flags = {"nt_op": False, "rc": 0}
    prev_kind = "start"
    nsteps = 0

    def replay_case(extra_op=None):
        return {
            "kind": "one",
            "start": hist_start.to_json(),
            "ops": hist_ops + ([extra_op] if extra_op else []),
            "battery": [],
        }

    def mech_cls(key, obj):
        return cls_name(obj) if obj is not None else {"arr": "ArrayAlignment", "ann": "Alignment", "col": "SequenceCollection"}[key]

    # step 0: constructors
    objs = {}
    for key in keys:
        try:
            objs[key] = build(m, key)
            ob = observe(objs[key], m.kind)
        except Exception as e:  # noqa: BLE001
            res.evals += 1
            res.witness(exc_mechanism(f"C03/construct/{mech_cls(key, None)}", e), start=m.to_json(), error=repr(e)[:300], replay_case=replay_case())
            return
        res.evals += 1
        if ob["names"] != m.names or ob["rows"] != m.rows:
            res.witness(f"C03/construct/{cls_name(objs[key])}/wrong-rows", start=m.to_json(), got=ob, replay_case=replay_case())
            return
    res.count("histories:" + m.kind)

    def resync():
        nonlocal hist_start, hist_ops, objs
        res.count("resync-after-witness")
        hist_start = m
        hist_ops = []
        ks = ["arr", "ann"] if m.kind == "aln" else sorted(objs)
        objs = {}
        for key in ks:
            objs[key] = build(m, key if m.kind == "aln" else "col")

    nops = len(ops_source) if ops_source is not None else depth
    i = 0
    tries = 0
    while i < nops:
        if ops_source is not None:
            op = ops_source[i]
        else:
            op = gen_op(rng, m)
            tries += 1
            if op is None:
                if tries > 50:
                    break
                continue
        i += 1
        k = op["op"]
        label = op_label(op, m)
        L = m.length()
        probe = None  # documented-refusal probes do not advance the history
        if k == "stride" or (k == "slice" and slice_variant(op, L) == "negative-out-of-range"):
            probe = NotImplementedError if k == "stride" else IndexError
        strict_refusal = k == "filtered" and not op.get("drop_remainder", True) and L % op["motif_length"] != 0
        if m.kind == "coll" and k not in {x for x, _ in COLL_OPS}:
            continue
        new_m = model_apply(m, op)
        res.count("op:" + k)
        res.count("oplabel:" + label)
        if k == "slice" and touches_gap_edge(m, op):
            res.count("slice:touches-gap-run-edge")
            flags["nt_op"] = True
        if k in ("rc", "take_positions"):
            flags["nt_op"] = True
        nsteps += 1
        bad = False
        results = {}
        obs = {}
        if k == "to_type":
            order = [("arr", "ann", True), ("ann", "arr", False)]
        else:
            order = [(key, key, None) for key in sorted(objs)]
        for key, src, to_array in order:
            obj = objs[src]
            cname = cls_name(obj)
            state = view_state(obj) if k in ("convert", "to_moltype_same") else None
            suffix = f"/{state}" if state else ""
            det = {"start": hist_start.to_json(), "ops": hist_ops + [op], "class": cname, "before": m.to_json(), "expected": new_m.to_json()}
            side = {}
            res.evals += 1
            res.count("steps:" + cname)
            try:
                r = obj.to_type(array_align=to_array) if k == "to_type" else real_apply(obj, op, m, side)
            except AlignmentInvariantViolation as e:
                res.witness(f"C03/{label}/{cname}/invariant-{e.kind}{suffix}", invariant=e.info, replay_case=replay_case(op), **det)
                bad = True
                continue
            except Exception as e:  # noqa: BLE001
                if probe is not None and isinstance(e, probe) and cname == "Alignment":
                    res.refused += 1
                    res.count("refused:" + label)
                    continue
                if strict_refusal and isinstance(e, ValueError) and "divisible" in str(e):
                    res.refused += 1
                    res.count("refused:" + label)
                    continue
                res.witness(exc_mechanism(f"C03/{label}/{cname}{suffix}", e), error=repr(e)[:300], replay_case=replay_case(op), **det)
                bad = True
                continue
            if strict_refusal:
                res.witness(f"C03/{label}/{cname}/indivisible-length-accepted", replay_case=replay_case(op), **det)
                bad = True
                continue
            # extra observations of injected callables
            if "predicate" in side:
                w = op["motif_length"]
                exp_cols = [tuple(m.rows[n][j * w : (j + 1) * w] for n in m.names) for j in range(L // w)]
                res.evals += 1
                if side["predicate"].seen != exp_cols:
                    res.witness(f"C03/{label}/{cname}/predicate-given-wrong-columns", got=side["predicate"].seen[:40], expected_columns=exp_cols[:40], replay_case=replay_case(op), **det)
                    bad = True
                    continue
            if "rand_calls" in side:
                w = op["motif_length"]
                pop = L // w
                exp_call = ("randint", 0, pop, op["n"] or pop) if op["with_replacement"] else ("permutation", pop)
                res.evals += 1
                if side["rand_calls"] != [exp_call]:
                    res.witness(f"C03/{label}/{cname}/wrong-arguments-to-injected-generator", got=side["rand_calls"], expected_call=exp_call, replay_case=replay_case(op), **det)
                    bad = True
                    continue
            # compare with the model
            if new_m.empty():
                if is_empty_result(r, new_m.kind):
                    res.count("empty-result")
                    results[key] = None
                    continue
                got = None
                try:
                    got = observe(r, new_m.kind)
                except Exception as e:  # noqa: BLE001
                    got = repr(e)[:200]
                res.witness(f"C03/{label}/{cname}/wrong-rows{suffix}", got=got, note="expected nothing left", replay_case=replay_case(op), **det)
                bad = True
                continue
            if r is None or isinstance(r, dict):
                res.witness(f"C03/{label}/{cname}/returned-nothing{suffix}", got=repr(r), replay_case=replay_case(op), **det)
                bad = True
                continue
            try:
                ob = observe(r, new_m.kind)
            except AlignmentInvariantViolation as e:
                res.witness(f"C03/{label}/{cname}/invariant-{e.kind}{suffix}", invariant=e.info, replay_case=replay_case(op), **det)
                bad = True
                continue
            except Exception as e:  # noqa: BLE001
                res.witness(exc_mechanism(f"C03/{label}/{cname}/result-unreadable{suffix}", e), error=repr(e)[:300], replay_case=replay_case(op), **det)
                bad = True
                continue
            sym = None
            if ob["names"] != new_m.names or ob["num_seqs"] != len(new_m.names):
                sym = "wrong-names"
            elif new_m.kind == "aln" and len({len(s) for s in ob["rows"].values()}) > 1:
                sym = "ragged-rows"
            elif ob["rows"] != new_m.rows:
                sym = "wrong-rows"
            elif ob["to_dict"] != [(n, new_m.rows[n]) for n in new_m.names]:
                sym = "to_dict-disagrees-with-rows"
            elif ob["len"] != new_m.length():
                sym = "wrong-len"
            if sym:
                res.witness(f"C03/{label}/{cname}/{sym}{suffix}", got=ob, replay_case=replay_case(op), **det)
                bad = True
                continue
            want_cls = "SequenceCollection" if k == "degap" else (("ArrayAlignment" if to_array else "Alignment") if k == "to_type" else cname)
            if type(r).__name__ != want_cls:
                res.witness(f"C03/{label}/{cname}/wrong-result-class", got=type(r).__name__, replay_case=replay_case(op), **det)
                bad = True
                continue
            results[key] = r
            obs[key] = ob
            if nsteps >= 2 and has_gap0 and flags["nt_op"]:
                res.sig(cname, prev_kind, label, flags["rc"] % 2, layout0)
        # relational: the two classes against each other (implied by the model comparison when both matched it)
        if len(obs) == 2:
            res.evals += 1
            res.count("two-class-comparisons")
            a, b = obs.values()
            if (a["names"], a["rows"], a["len"]) != (b["names"], b["rows"], b["len"]):
                res.witness(f"C03/{label}/classes-differ", got=obs, replay_case=replay_case(op), start=hist_start.to_json(), ops=hist_ops + [op])
                bad = True
        if k == "rc":
            flags["rc"] += 1
        prev_kind = label
        if probe is not None or strict_refusal:
            if bad:
                resync()
            continue
        # advance
        m = new_m
        if m.empty():
            res.count("history-ended-empty")
            hist_ops.append(op)
            objs = {}
            break
        if bad:
            resync()
            continue
        hist_ops.append(op)
        objs = results
        if k == "degap":
            res.count("aln-history-continues-as-collection")

    if len(res.samples) < 2 and hist_ops:
        res.sample({"start": hist_start.to_json(), "ops": hist_ops})
    # read-only battery on the final objects
    if objs and not m.empty() and battery:
        for key, obj in sorted(objs.items()):
            try:
                ob = observe(obj, m.kind)
            except Exception:  # noqa: BLE001  (already reported at the step)
                continue
            m_obs = M(ob["names"], ob["rows"], m.mt, m.kind)
            names = sorted(set(BATTERY_COMMON) | (set(BATTERY_ALN) if m.kind == "aln" else set()))
            if battery == "all":
                methods = names
            elif isinstance(battery, list):
                methods = battery
            else:
                # the methods that read the (map, view) pair directly are always asked, the rest are sampled
                core = [x for x in BATTERY_CORE if x in names]
                rest = [x for x in names if x not in core]
                methods = core + (rng.sample(rest, min(len(rest), battery)) if rng is not None else rest)
            det = {"start": hist_start.to_json(), "ops": list(hist_ops), "class": cls_name(obj), "replay_case": replay_case()}
            run_battery(res, key if m.kind == "aln" else "col", obj, m_obs, methods, det)
    res.count("invariant-evaluations", _INV["evals"] - inv0)


def run_case(case):
    res = Result()
    if case["kind"] == "hist":
        rng = random.Random(case["seed"])
        for _ in range(case["n"]):
            start = gen_start(rng, case.get("tier", "quick"), case["start"])
            depth = rng.randint(1, case["depth"])
            run_history(res, start, None, case.get("battery", 8), rng=rng, depth=depth)
    elif case["kind"] == "one":
        s = case["start"]
        start = M(s["names"], s["rows"], s["moltype"], s["kind"])
        b = case.get("battery") or []
        run_history(res, start, case["ops"], b if b else 0, rng=None)
    return res


REQUIRED_OPS = [x for x, _ in ALN_OPS]
REQUIRED_LABELS = [
    "slice.in-range",
    "slice.negative",
    "slice.beyond-length",
    "slice.empty",
    "slice.negative-out-of-range",
    "index.negative",
    "take_positions.negate",
    "take_seqs.negate",
    "add.self",
    "add.other",
    "sample.permutation",
    "sample.with-replacement",
    "deepcopy.sliced",
    "deepcopy.unsliced",
    "filtered.strict",
]


def required(counters, tier):
    miss = []
    for k in REQUIRED_OPS:
        if not counters.get("op:" + k):
            miss.append(f"operation {k} never exercised")
    for k in REQUIRED_LABELS:
        if not counters.get("oplabel:" + k):
            miss.append(f"operation class {k} never exercised")
    for k in ("steps:ArrayAlignment", "steps:Alignment", "steps:SequenceCollection", "two-class-comparisons", "battery-decisions", "slice:touches-gap-run-edge", "histories:aln", "histories:coll", "aln-history-continues-as-collection"):
        if not counters.get(k):
            miss.append(f"{k} is zero")
    if not counters.get("invariant-evaluations"):
        miss.append("icontract invariants on Alignment were never evaluated")
    return miss
