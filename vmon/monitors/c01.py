"""C01 — sequence views obey the slice / reverse-complement algebra.

Shape B + C.  The model of a sequence view is a plain Python ``str`` (what is
displayed) plus the list of parent indices it displays (what the reported
parent coordinates must name).  Every operation of a chain is applied to the
real ``Sequence`` and to the model and all observations are compared after
*every* step; at the end of a chain every public read-only method of the view
is compared with the same method of a fresh sequence built from the model
string.  icontract invariants are attached to the three live view classes and
the four view-of-view composition branches are counted by wrappers.
"""

import math
import random

from vmon.core import Result, exc_mechanism

ID = "C01"
LEVEL = "exploration"
RULE = (
    "Seeded random chains (depth 1-6) of slice(start,stop,step) with bounds from [-n-3,n+3] u {None} relative to the "
    "current view and to the parent, steps {None,+-1,+-2,+-3,+-5}, rc, to_rna/to_dna and int index, on sequences of "
    "length 0-16 over canonical/degenerate/gap symbols, moltypes dna/rna/protein/text, annotation_offset in {0,5,17}, "
    "for old-style Sequence, new-style Sequence and new-style sequences backed by a SequenceCollection (SeqDataView); "
    "plus exhaustive (start,stop,step) triples applied to every distinct view of bounded depth of a short DNA string "
    "(quick: L<=3 on views of <=1 slice, L=4 on the full view, bounds within +-1 of the ends, steps up to +-3; thorough: L<=6 on views of <=1 slice, L<=4 on views of 2 slices). Oracle = the same chain on a Python str with a "
    "17-symbol IUPAC complement table and a parallel list of parent indices. The sequence of a chain is built through "
    "a random one of the accepted input forms (str, bytes, tuple, list, SeqView, another Sequence, ArraySequence; via "
    "make_seq, moltype.make_seq or the class constructor; offset given to the data or to the constructor), and a "
    "'forms' sweep builds the same string through every form x with/without annotation_offset and demands the model's "
    "str/coordinates/offset, the rich dict of the str form, and a fixed slice/rc chain. After every operation the view "
    "operated on is read again, and after construction and at chain end every object the sequence was derived from "
    "(source sequence, original and reverse-complemented collection) is re-read through fresh accessors against its "
    "model. 'collections' histories (old and new style, 2-7 operations among rc, take_seqs, rename_seqs, "
    "to_rna/to_dna, degap, copy/deepcopy, add_seqs, get_seq(..).rc()/[slice], each applied to any collection alive so "
    "far) compare the result with a dict-of-strings model and then re-read EVERY collection alive before the "
    "operation. A step is non-trivial when it is "
    "applied to a view (>=1 earlier operation) and the chain so far contains a negative step, an out-of-range bound "
    "or |step|>1; distinct = (implementation, nucleic/other, direction x stride x extent class of the view sliced, "
    "operation with start/stop clamp class and step class); for forms (implementation, input form, offset or not, "
    "nucleic/other); for collection histories of >=2 operations (implementation, operation, orientation state of "
    "the collection operated on)."
)
LEVEL_TEXT = (
    "After every step of every generated chain str/len/iteration/int indexing/bytes/array and parent_coordinates "
    "of the real view are compared with a string-and-index-list model (every index -L..L-1 at the last step and in "
    "the thorough tier; both ends and the middle, from either side, at intermediate steps of the quick tier); at "
    "chain end a seeded 30% (quick) / 50% (thorough) of ~100 calls of ~80 read-only methods are compared (value, "
    "exception type, and that the view is left unchanged) with the same call on a fresh sequence built from the "
    "view's string. The bounded sub-space (all slice triples on all shallow views of short strings) is enumerated "
    "completely; beyond it sampled. Derivation never alters a source: the view operated on, the sequence or "
    "collection a sequence was taken from, and every collection alive before a collection operation are re-read "
    "after the operation; every accepted way of constructing a sequence gives the same observations."
)
LEVEL_NOTE = (
    "held = held on the executions listed in the evidence; trusted: Python str/list slicing, a 17-symbol IUPAC "
    "complement table, make_seq on a plain string as the constructor of reference sequences"
)
TECHNIQUE = "runtime monitoring: boundary recorder + executable str/index-list model, method parity relation, icontract view invariants"
ASSUMPTIONS = [
    "Python str / list slicing are the reference semantics of slice chains",
    "a sequence built by make_seq from a plain string answers its read-only methods correctly (parity reference)",
    "for |step|>1 only slice semantics are demanded of parent coordinates (indices inside [start,stop), leading end tight, ceil((stop-start)/|step|)==len)",
    "parent coordinates of empty views are not checked (zero slices drop the seqid by design)",
    "members of a derived collection may be views or detached copies: only (0, len, +1), or (0, len, -1) when an ancestor collection was reverse complemented, is demanded of their coordinates",
    "input forms the constructors reject (numpy arrays) are counted, not judged; old-style make_seq returning an existing sequence unchanged is documented",
]
EXHAUSTIVE = {"quick": False, "thorough": False}
TIMEOUT = {"quick": 2400, "thorough": 14400}
MAX_JOBS = 8  # a worker costs ~2 CPU-s to start (cogent3 import + contracts); 8 keep the quick tier near 100 CPU-s

IMPLS = ("old", "new", "newcoll")
NAME = "s1"

COMP = {
    "dna": str.maketrans("ACGTRYKMSWBDHVN-?", "TGCAYRMKSWVHDBN-?"),
    "rna": str.maketrans("ACGURYKMSWBDHVN-?", "UGCAYRMKSWVHDBN-?"),
}
SYMS = {
    "dna": ("ACGT", "RYKMSWBDHVN", "-?"),
    "rna": ("ACGU", "RYKMSWBDHVN", "-?"),
    "protein": ("ACDEFGHIKLMNPQRSTVWY", "BXZ", "-?"),
    "text": ("ACGTUXZEFQ", "", "-?"),
}
STEPS = (None, 1, -1, 2, -2, 3, -3, 5, -5)
EXH_ALPHA = "ACRMBD"  # all distinct, complements (TGYKVH) disjoint from the symbols themselves


def comp(s, mt):
    return s.translate(COMP[mt]) if mt in COMP else s


# ---------------------------------------------------------------------------
# case generation (pure model, never touches cogent3)


def _exh_values(L, pad):
    return [None] + list(range(-L - pad, L + pad + 1))


STEPS_QUICK = (None, 1, -1, 2, -2, 3, -3)


def _exh_triples(L, pad=3, steps=STEPS):
    vals = _exh_values(L, pad)
    return [(a, b, c) for c in steps for a in vals for b in vals]


def _range_key(r):
    return ("e",) if len(r) == 0 else (r.start, r.stop, r.step)


def _exh_views(L, depth, pad=3, steps=STEPS):
    """representative slice paths of the distinct views of exactly `depth` slices of a length-L string.

    Distinctness is judged on the composed Python range (start, stop, step), which keeps the slack of a strided
    stop, so views that display the same residues through different internal bounds stay separate."""
    level = {_range_key(range(L)): ((), range(L))}
    for _ in range(depth):
        nxt = {}
        for path, r in level.values():
            if len(r) == 0:
                continue
            for t in _exh_triples(L, pad, steps):
                r2 = r[slice(*t)]
                k = _range_key(r2)
                if k not in nxt:
                    nxt[k] = (path + (t,), r2)
        level = nxt
    return [list(map(list, p)) for p, _ in level.values()]


def gen_cases(rng, tier):
    cases = []
    quick = tier == "quick"
    # random chains; "battery" = fraction of the read-only method battery run at the end of each chain
    nb = {"old": 12, "new": 12, "newcoll": 5} if quick else {"old": 84, "new": 84, "newcoll": 28}
    for impl, n in nb.items():
        for _ in range(n):
            cases.append(
                {
                    "kind": "chains",
                    "impl": impl,
                    "seed": rng.randrange(2**32),
                    "n": 45 if quick else 150,
                    "battery_fraction": 0.3 if quick else 0.5,
                    "index_sweep": "ends" if quick else "full",
                }
            )
    for impl in ("old", "new"):
        # equivalent input forms x with/without annotation_offset
        for _ in range(2 if quick else 12):
            cases.append({"kind": "forms", "impl": impl, "seed": rng.randrange(2**32), "n": 4 if quick else 10})
        # histories of collection operations, every live object re-read after every operation
        for _ in range(3 if quick else 16):
            cases.append({"kind": "collections", "impl": impl, "seed": rng.randrange(2**32), "n": 25 if quick else 60})
    # exhaustive slice triples on shallow views (bounds from [-L-pad, L+pad] u {None})
    #   quick:    L<=4 on the full view (steps up to +-3), L<=3 on every view of one slice (steps up to +-2); pad 1
    #   thorough: L<=6 on views of <=1 slice (pad 3), L<=4 on views of two slices (pad 2), all steps
    for impl in ("old", "new"):
        for L in range(0, (4 if quick else 6) + 1):
            for depth in (0, 1) if quick else (0, 1, 2):
                if (quick and depth == 1 and L > 3) or (depth == 2 and L > 4):
                    continue
                pad = 1 if quick else (2 if depth == 2 else 3)
                steps = list((STEPS_QUICK[:5] if depth else STEPS_QUICK) if quick else STEPS)
                paths = _exh_views(L, depth, pad, steps)
                chunk = 10 if quick else 7
                for i in range(0, len(paths), chunk):
                    cases.append(
                        {"kind": "exhaust", "impl": impl, "L": L, "pad": pad, "steps": steps, "paths": paths[i : i + chunk]}
                    )
    rng.shuffle(cases)
    return cases


# ---------------------------------------------------------------------------
# harness-side instrumentation of the live classes (contracts + branch counters)

_STATE = {"ready": False}
INV = {"evals": 0, "why": None}
BR = {}


class ViewInvariantError(Exception):
    """raised by the icontract invariant attached to the live view classes"""


def _view_violation(v):
    start, stop, step, n = v.start, v.stop, v.step, v._seq_len
    if step == 0:
        return "step-zero"
    shown = len(range(start, stop, step))
    if not (0 <= shown <= n):
        return "len-exceeds-parent"
    if step < 0 and shown and not (start < 0 and stop < 0):
        return "reversed-view-nonnegative-bounds"
    if type(v).__len__(v) != shown:
        return "len-formula"
    if type(v).__name__ == "SeqDataView" and shown:
        whole = v.seq.get_seq_str(seqid=v._seqid)
        if v._offset == 0 and v.str_value != whole[start:stop:step]:
            return "str-not-parent-slice"
    return None


_INV_SEEN = {}
_UNSEEN = object()


def view_invariant_holds(self):
    """every clause is a function of the view's state, so it is decided once per distinct state"""
    INV["evals"] += 1
    if type(self).__name__ == "SeqDataView":
        key = (type(self), self.start, self.stop, self.step, self._seq_len, self._offset, self._seqid, self.seq)
    else:
        key = (type(self), self.start, self.stop, self.step, self._seq_len)
    try:
        why = _INV_SEEN.get(key, _UNSEEN)
    except TypeError:  # unhashable parent
        key, why = None, _UNSEEN
    if why is _UNSEEN:
        INV["distinct"] = INV.get("distinct", 0) + 1
        why = _view_violation(self)
        if key is not None:
            if len(_INV_SEEN) > 20000:
                _INV_SEEN.clear()
            _INV_SEEN[key] = why
    INV["why"] = why
    return why is None


def view_invariant_error(self):
    return ViewInvariantError(INV["why"] or "unknown")


BRANCHES = (
    "_get_forward_slice_from_forward_seqview_",
    "_get_forward_slice_from_reverse_seqview_",
    "_get_reverse_slice_from_forward_seqview_",
    "_get_reverse_slice_from_reverse_seqview_",
)


def _count_branch(cls, name, label):
    orig = cls.__dict__[name]

    def counted(self, *a, **k):
        key = f"branch:{label}.{type(self).__name__}:{name.strip('_')[4:]}"
        BR[key] = BR.get(key, 0) + 1
        return orig(self, *a, **k)

    counted.__name__ = name
    setattr(cls, name, counted)


def _setup():
    if _STATE["ready"]:
        return
    import warnings

    warnings.filterwarnings("ignore")
    import icontract

    from cogent3.core import new_alignment, new_sequence, sequence

    for mod, label in ((sequence, "old"), (new_sequence, "new")):
        for b in BRANCHES:
            _count_branch(mod.SliceRecordABC, b, label)
    for cls in (sequence.SeqView, new_sequence.SeqView, new_alignment.SeqDataView):
        icontract.invariant(view_invariant_holds, error=view_invariant_error)(cls)
    _STATE["ready"] = True


# ---------------------------------------------------------------------------
# model


class Model:
    __slots__ = ("ms", "idx", "rev", "mstep", "mt", "off", "seqid", "plen")

    def __init__(self, s, mt, off):
        self.ms = s
        self.idx = list(range(len(s)))
        self.rev = False
        self.mstep = 1
        self.mt = mt
        self.off = off
        self.seqid = NAME
        self.plen = len(s)

    def copy(self):
        m = Model.__new__(Model)
        for a in self.__slots__:
            setattr(m, a, getattr(self, a))
        m.idx = list(self.idx)
        return m

    def view_class(self):
        d = "R" if self.rev else "F"
        k = "k" if self.mstep > 1 else "1"
        e = "e" if not self.ms else ("w" if len(self.idx) == self.plen else "p")
        return d + k + e

    def apply(self, op):
        """returns the model after op, or the exception type name the str model raises"""
        m = self.copy()
        kind = op[0]
        if kind == "slice":
            sl = slice(op[1], op[2], op[3])
            m.ms = self.ms[sl]
            m.idx = self.idx[sl]
            st = 1 if op[3] is None else op[3]
            if st < 0:
                m.ms = comp(m.ms, self.mt)
                m.rev = not self.rev
            m.mstep = self.mstep * abs(st)
        elif kind == "rc":
            m.ms = comp(self.ms, self.mt)[::-1]
            m.idx = self.idx[::-1]
            m.rev = not self.rev
        elif kind == "int":
            try:
                m.ms = self.ms[op[1]]
            except IndexError:
                return "IndexError"
            m.idx = [self.idx[op[1]]]
            m.mstep = 1
        elif kind in ("to_rna", "to_dna"):
            target = kind[3:]
            if target != self.mt:
                m.ms = self.ms.replace("T", "U") if target == "rna" else self.ms.replace("U", "T")
                m.mt = target
                # the converted sequence is a new parent of its own
                m.idx = list(range(len(m.ms)))
                m.rev = False
                m.mstep = 1
                m.off = 0
                m.seqid = None
                m.plen = len(m.ms)
        else:
            raise ValueError(op)
        return m


def bclass(v, n):
    if v is None:
        return "N"
    if v >= 0:
        return "+in" if v < n else ("+eq" if v == n else "+out")
    return "-in" if v >= -n else "-out"


def sclass(st):
    st = 1 if st is None else st
    return ("+" if st > 0 else "-") + ("1" if abs(st) == 1 else "k")


def op_class(op, n):
    if op[0] == "slice":
        return f"s[{bclass(op[1], n)}:{bclass(op[2], n)}:{sclass(op[3])}]"
    if op[0] == "int":
        return "i" + bclass(op[1], n)
    return op[0]


def op_hostile(op, n):
    if op[0] == "rc":
        return True
    if op[0] != "slice":
        return False
    st = 1 if op[3] is None else op[3]
    return st != 1 or any(v is not None and (v >= n or v < -n) for v in op[1:3])


def direction_case(op, m):
    """names the operation by the composition branch the model says it exercises"""
    src = "rev" if m.rev else "fwd"
    if op[0] == "slice":
        st = 1 if op[3] is None else op[3]
        return f"slice-{'rev' if st < 0 else 'fwd'}-of-{src}"
    if op[0] in ("to_rna", "to_dna"):
        return f"to_moltype-of-{src}"
    return f"{op[0]}-of-{src}"


# ---------------------------------------------------------------------------
# real objects


# input forms through which the same sequence can be constructed (all must give identical observations)
FORMS = {
    "old": ["str", "bytes", "moltype-str", "moltype-bytes", "ctor-str", "ctor-bytes", "ctor-tuple", "ctor-list",
            "ctor-seqview-off", "ctor-seqview+off", "ctor-seq-off", "ctor-seq+off", "ctor-arrayseq"],
    "new": ["str", "bytes", "moltype-str", "moltype-bytes", "ctor-str", "ctor-bytes", "ctor-tuple", "ctor-list",
            "ctor-seqview-off", "ctor-seqview+off", "ctor-seq-off", "ctor-seq+off"],
}
# tried as well in the "forms" kind; not accepted by the current constructors (counted, not judged)
FORMS_PROBED = ["ndarray", "ctor-ndarray"]


class FormNotApplicable(Exception):
    pass


INPUT_TYPE = {
    "str": "str", "moltype-str": "str", "ctor-str": "str", "bytes": "bytes", "moltype-bytes": "bytes",
    "ctor-bytes": "bytes", "ctor-tuple": "tuple", "ctor-list": "list", "ctor-seqview-off": "seqview",
    "ctor-seqview+off": "seqview", "ctor-seq-off": "sequence", "ctor-seq+off": "sequence",
    "ctor-arrayseq": "arraysequence", "ndarray": "ndarray", "ctor-ndarray": "ndarray",
}  # the constructors dispatch on the type of the data: one mechanism per type, whichever entry point was used


class Built:
    """a freshly constructed sequence plus the objects it was derived from, each with a fresh-accessor reader and
    the observation the *model* expects from it (a derived object must leave its sources as they were)"""

    def __init__(self, seq):
        self.seq = seq
        self.sources = []  # (label, reader() -> observation, expected observation)

    def add_source(self, label, reader, expected):
        self.sources.append((label, reader, expected))


def expect_snapshot(s, name, off, strand=1):
    return [s, [name, off, off + len(s), strand]] if s else [s]


def _snapshot_of(seq, s):
    snap = _snapshot(seq)
    return snap if s else snap[:1]


def build(impl, mt, s, off, start="plain", form="str"):
    from cogent3 import make_seq

    if impl == "newcoll":
        from cogent3 import make_unaligned_seqs

        data = {"s0": s[::-1] + "A", NAME: s, "s2": "AC"}
        coll0 = coll = make_unaligned_seqs(dict(data), moltype=mt, new_type=True)
        if start == "collrc":
            coll = coll0.rc()
        b = Built(coll.get_seq(NAME))
        b.add_source("original-collection", lambda: coll0.to_dict(), dict(data))
        b.add_source(
            "original-collection-member", lambda: _snapshot_of(coll0.get_seq(NAME), s), expect_snapshot(s, NAME, 0)
        )
        if coll is not coll0:
            rcd = {k: comp(v, mt)[::-1] for k, v in data.items()}
            b.add_source("reversed-collection", lambda: coll.to_dict(), rcd)
            b.add_source(
                "reversed-collection-member",
                lambda: _snapshot_of(coll.get_seq(NAME), s),
                expect_snapshot(rcd[NAME], NAME, 0, -1),
            )
        return b
    new = impl == "new"
    if form == "str":
        return Built(make_seq(s, name=NAME, moltype=mt, new_type=new, annotation_offset=off))
    if form == "bytes":
        return Built(make_seq(s.encode("utf8"), name=NAME, moltype=mt, new_type=new, annotation_offset=off))
    if form == "ndarray":
        import numpy

        return Built(make_seq(numpy.array(list(s)), name=NAME, moltype=mt, new_type=new, annotation_offset=off))
    if new:
        from cogent3.core import new_moltype, new_sequence

        mto = new_moltype.get_moltype(mt)
    else:
        from cogent3 import get_moltype
        from cogent3.core import sequence

        mto = get_moltype(mt)
    if form.startswith("moltype-"):
        data = s if form == "moltype-str" else s.encode("utf8")
        if new:
            return Built(mto.make_seq(seq=data, name=NAME, annotation_offset=off))
        return Built(mto.make_seq(data, name=NAME, annotation_offset=off))
    # the class constructor, which dispatches on the type of the data
    cls = type(make_seq(s, name=NAME, moltype=mt, new_type=new))

    def ctor(data, offset):
        if new:
            return cls(moltype=mto, seq=data, name=NAME, annotation_offset=offset)
        return cls(data, name=NAME, annotation_offset=offset)

    simple = {"ctor-str": lambda: s, "ctor-bytes": lambda: s.encode("utf8"), "ctor-tuple": lambda: tuple(s),
              "ctor-list": lambda: list(s)}
    if form in simple:
        return Built(ctor(simple[form](), off))
    if form == "ctor-ndarray":
        import numpy

        return Built(ctor(numpy.array(list(s)), off))
    if form == "ctor-arrayseq":
        arr = mto.make_array_seq(s, name=NAME)
        if str(arr) != s:
            # the array sequence itself does not hold this string (e.g. '-' in the text moltype): not a way of
            # constructing *this* sequence, and not a view
            raise FormNotApplicable(form)
        return Built(ctor(arr, off))
    if form in ("ctor-seqview-off", "ctor-seqview+off"):
        inner = off if form.endswith("-off") else 0
        if new:
            sv = new_sequence.SeqView(seq=s, seqid=NAME, alphabet=mto.most_degen_alphabet(), offset=inner)
        else:
            sv = sequence.SeqView(seq=s, seqid=NAME, offset=inner)
        return Built(ctor(sv, off - inner))
    if form in ("ctor-seq-off", "ctor-seq+off"):
        inner = off if form.endswith("-off") else 0
        source = make_seq(s, name=NAME, moltype=mt, new_type=new, annotation_offset=inner)
        b = Built(ctor(source, off - inner))
        b.add_source("source-sequence", lambda: _snapshot_of(source, s), expect_snapshot(s, NAME, inner))
        return b
    raise ValueError(form)


def fresh_seq(impl, mt, s):
    from cogent3 import make_seq

    return make_seq(s, name=NAME, moltype=mt, new_type=(impl != "old"))


def apply_real(seq, op):
    kind = op[0]
    if kind == "slice":
        return seq[slice(op[1], op[2], op[3])]
    if kind == "rc":
        return seq.rc()
    if kind == "int":
        return seq[op[1]]
    if kind == "to_rna":
        return seq.to_rna()
    if kind == "to_dna":
        return seq.to_dna()
    raise ValueError(op)


# ---------------------------------------------------------------------------
# observation after a step


class Ctx:
    """everything needed to describe and replay the chain being run"""

    def __init__(self, res, case):
        self.res = res
        self.impl = case["impl"]
        self.mt0 = case["moltype"]
        self.s0 = case["seq"]
        self.off = case.get("offset", 0)
        self.start = case.get("start", "plain")
        self.other_seed = case.get("other_seed", 0)
        self.index_sweep = case.get("index_sweep", "full")
        self.form = case.get("form", "str")
        self.ops = []

    def replay(self, battery):
        return {
            "kind": "one",
            "impl": self.impl,
            "moltype": self.mt0,
            "seq": self.s0,
            "offset": self.off,
            "start": self.start,
            "ops": [list(o) for o in self.ops],
            "other_seed": self.other_seed,
            "index_sweep": self.index_sweep,
            "form": self.form,
            "battery": battery,
        }

    def witness(self, mech, battery=(), **detail):
        self.res.witness(
            mech,
            impl=self.impl,
            moltype=self.mt0,
            seq=self.s0,
            annotation_offset=self.off,
            start=self.start,
            input_form=self.form,
            ops=[list(o) for o in self.ops],
            replay_case=self.replay(list(battery)),
            **detail,
        )

    def family(self, prefix, e=None):
        """fill the @impl@ placeholder of a mechanism about *reading* a view"""
        from vmon.core import origin_of

        impl = self.impl
        if impl == "newcoll" and not (e is not None and (origin_of(e) or "").startswith("new_alignment.py")):
            impl = "new"
        return prefix.replace("@impl@", impl)

    def raised(self, prefix, e, battery=(), **detail):
        prefix = self.family(prefix, e)
        if isinstance(e, ViewInvariantError):
            # a broken view invariant is one root cause wherever it surfaces
            self.witness(f"C01/view-invariant/{self.impl}/{e}", battery, raised_during=prefix, **detail)
        else:
            self.witness(exc_mechanism(prefix, e), battery, error=repr(e)[:300], **detail)


def observe(ctx, seq, m, opname, light=False, last=True):
    """compare every per-step observation; returns False at the first divergence (after recording it)"""
    res = ctx.res
    pre = f"C01/{opname}/{ctx.impl}"
    # a failure to *read* a view (exception, or bytes/array disagreeing with a correct str) depends on the view
    # read, not on the operation that made it
    # (collection-backed sequences are new-style Sequence objects: reported as "new" unless SeqDataView is involved)
    rd = f"@impl@/{'reversed' if m.rev else 'forward'}-{'nucleic' if m.mt in COMP else 'non-nucleic'}-view"

    def decide(obs, ok, **detail):
        res.evals += 1
        if not ok:
            ctx.witness(f"{pre}/{obs}", expected_str=m.ms, **detail)
        return ok

    try:
        got = str(seq)
    except Exception as e:  # noqa: BLE001
        res.evals += 1
        ctx.raised(f"C01/read-str/{rd}", e)
        return False
    if not decide("str", got == m.ms, got=got):
        return False
    try:
        n = len(seq)
    except Exception as e:  # noqa: BLE001
        res.evals += 1
        ctx.raised(f"C01/read-len/{rd}", e)
        return False
    if not decide("len", n == len(m.ms), got=n):
        return False
    if not check_coords(ctx, seq, m, opname):
        return False
    if light:
        return True
    try:
        it = list(seq)
    except Exception as e:  # noqa: BLE001
        res.evals += 1
        ctx.raised(f"C01/read-iter/{rd}", e)
        return False
    if not decide("iter", it == list(m.ms), got=it):
        return False
    L = len(m.ms)
    sweep = list(range(L)) + list(range(-L, 0))
    if ctx.index_sweep == "ends" and not last and L > 5:
        # intermediate steps of the quick tier: both ends and the middle, from either side
        sweep = sorted({0, 1, L // 2, L - 2, L - 1, -1, -2, -(L // 2), -L + 1, -L})
    for i in sweep:
        try:
            c = str(seq[i])
        except Exception as e:  # noqa: BLE001
            res.evals += 1
            ctx.raised(f"C01/read-index/{rd}", e, index=i)
            return False
        if not decide("index", c == m.ms[i], index=i, got=c, expected=m.ms[i]):
            return False
    for i in (L, -L - 1):
        res.evals += 1
        try:
            c = seq[i]
            ctx.witness(f"{pre}/index-out-of-range-accepted", index=i, got=str(c))
            return False
        except IndexError:
            pass
        except Exception as e:  # noqa: BLE001
            ctx.raised(f"C01/read-index-out-of-range/{rd}", e, index=i)
            return False
    if ctx.impl != "old":
        import numpy

        try:
            b = bytes(seq)
        except Exception as e:  # noqa: BLE001
            res.evals += 1
            ctx.raised(f"C01/read-bytes/{rd}", e)
            return False
        res.evals += 1
        if b != m.ms.encode("utf8"):
            ctx.witness(ctx.family(f"C01/read-bytes/{rd}"), got=repr(b), expected_str=m.ms)
            return False
        try:
            arr = numpy.array(seq).tolist()
            exp = numpy.array(fresh_seq(ctx.impl, m.mt, m.ms)).tolist()
        except Exception as e:  # noqa: BLE001
            res.evals += 1
            ctx.raised(f"C01/read-array/{rd}", e)
            return False
        res.evals += 1
        if arr != exp:
            ctx.witness(ctx.family(f"C01/read-array/{rd}"), got=arr, expected=exp, expected_str=m.ms)
            return False
    return True


def check_coords(ctx, seq, m, opname):
    res = ctx.res
    if not m.ms:
        res.count("coords-skipped-empty-view")
        return True  # G: empty views drop the seqid by design
    # wrong coordinates are a property of the view reported on (direction, stride), whichever operation made it
    vname = ("reversed" if m.rev else "forward") + ("-strided" if m.mstep > 1 else "") + "-view"
    pre = f"C01/coords/{ctx.impl}/{vname}"
    if opname.startswith("construct-from-"):
        pre = f"C01/construct/{ctx.impl}/{opname[15:]}-input/coords"
    try:
        sid, a, b, strand = seq.parent_coordinates()
        ao = seq.annotation_offset
    except Exception as e:  # noqa: BLE001
        res.evals += 1
        ctx.raised(pre, e)
        return False
    lo, hi = min(m.idx) + m.off, max(m.idx) + 1 + m.off
    exp_strand = -1 if m.rev else 1
    got = [sid, a, b, strand]
    detail = dict(got=got, displayed_parent_indices=m.idx, model_offset=m.off, last_operation=opname)

    def decide(field, ok, **extra):
        res.evals += 1
        if not ok:
            ctx.witness(f"{pre}/{field}", **detail, **extra)
        return ok

    if m.seqid is not None and not decide("seqid", sid == m.seqid, expected=m.seqid):
        return False
    if not decide("strand", strand == exp_strand, expected=exp_strand):
        return False
    if m.mstep == 1:
        res.count("coords:contiguous")
        if not decide("start", a == lo, expected=[lo, hi]):
            return False
        if not decide("stop", b == hi, expected=[lo, hi]):
            return False
    else:
        # G: a strided view does not display an interval; demand only what slice semantics define
        res.count("coords:strided")
        ok = a <= lo and hi <= b and (b == hi if m.rev else a == lo) and math.ceil((b - a) / m.mstep) == len(m.ms)
        if not decide("strided-bounds", ok, expected_within=[lo, hi], stride=m.mstep):
            return False
    if not decide("annotation_offset", ao == a, annotation_offset=ao):
        return False
    return True


# ---------------------------------------------------------------------------
# the read-only method battery


def _seed(k):
    import numpy

    random.seed(k)
    numpy.random.seed(k % (2**32))


def canon(x, depth=0):
    import numpy

    if depth > 6:
        return repr(x)[:200]
    if x is None or isinstance(x, (bool, int, str, bytes)):
        return x
    if isinstance(x, float):
        return "nan" if x != x else round(x, 9)
    if isinstance(x, numpy.generic):
        return canon(x.item(), depth + 1)
    if isinstance(x, numpy.ndarray):
        return ["ndarray", canon(x.tolist(), depth + 1)]
    if hasattr(x, "moltype") and (hasattr(x, "_seq") or hasattr(x, "_data")):
        return ["seq", getattr(x.moltype, "label", None), str(x), getattr(x, "name", None), len(x)]
    if type(x).__name__ == "IndelMap":
        return ["indelmap", canon(x.get_gap_coordinates(), depth + 1), len(x), x.parent_length]
    if type(x).__name__ == "TestResult":
        return ["testresult", str(x)]
    if isinstance(x, dict):
        items = [(canon(k, depth + 1), canon(v, depth + 1)) for k, v in x.items()]
        return ["dict", sorted(items, key=repr)]
    if isinstance(x, (set, frozenset)):
        return ["set", sorted((canon(v, depth + 1) for v in x), key=repr)]
    if isinstance(x, (list, tuple)):
        return [canon(v, depth + 1) for v in x]
    if hasattr(x, "__next__"):
        return ["iter", [canon(v, depth + 1) for v in x]]
    return repr(x)[:300]


def _rt(obj):
    from cogent3.util.deserialise import deserialise_object

    return deserialise_object(obj)


def _all_pairs_matrix(syms):
    return {a: {b: float(a != b) + 0.25 * (ord(a) % 3) for b in syms} for a in syms}


def battery_entries(mt, other, other2):
    """(label, attribute it needs, callable(seq)) — arguments are fixed per chain so view and fresh get the same"""
    syms = "".join(SYMS[mt])
    a0, a1 = SYMS[mt][0][0], SYMS[mt][0][2]
    matrix = _all_pairs_matrix(syms + "TU")
    pairs = {(x, y): 1 for x in syms[:6] for y in syms[:6] if (ord(x) + ord(y)) % 2 == 0}
    nuc = mt in COMP
    E = [
        # the class name is not part of what the property demands (new-style to_rna keeps the DnaSequence class)
        ("repr", "__repr__", lambda s: repr(s).replace(type(s).__name__, "<cls>")),
        ("to_fasta", "to_fasta", lambda s: s.to_fasta()),
        ("to_fasta/block3", "to_fasta", lambda s: s.to_fasta(block_size=3)),
        ("to_phylip", "to_phylip", lambda s: s.to_phylip()),
        ("to_rich_dict/roundtrip", "to_rich_dict", lambda s: _rt(s.to_rich_dict())),
        ("to_json/roundtrip", "to_json", lambda s: _rt(s.to_json())),
        ("count/1", "count", lambda s: s.count(a0)),
        ("count/2", "count", lambda s: s.count(a0 + a1)),
        ("counts", "counts", lambda s: dict(s.counts())),
        ("counts/motif2", "counts", lambda s: dict(s.counts(motif_length=2))),
        ("counts/all", "counts", lambda s: dict(s.counts(include_ambiguity=True, allow_gap=True))),
        ("lt", "__lt__", lambda s: (s < other, s < other2)),
        ("eq", "__eq__", lambda s: (s == other, s == str(s), s == other2)),
        ("ne", "__ne__", lambda s: (s != other, s != str(s))),
        ("hash", "__hash__", lambda s: hash(s)),
        ("contains", "__contains__", lambda s: (a0 in s, (a0 + a1) in s, other[:2] in s)),
        ("shuffle", "shuffle", lambda s: sorted(str(s.shuffle()))),
        ("complement", "complement", lambda s: s.complement()),
        ("strip_degenerate", "strip_degenerate", lambda s: s.strip_degenerate()),
        ("strip_bad", "strip_bad", lambda s: s.strip_bad()),
        ("strip_bad_and_gaps", "strip_bad_and_gaps", lambda s: s.strip_bad_and_gaps()),
        ("is_gapped", "is_gapped", lambda s: s.is_gapped()),
        ("is_gap", "is_gap", lambda s: (s.is_gap(), s.is_gap("-"))),
        ("is_degenerate", "is_degenerate", lambda s: s.is_degenerate()),
        ("is_valid", "is_valid", lambda s: s.is_valid()),
        ("is_strict", "is_strict", lambda s: s.is_strict()),
        ("first_gap", "first_gap", lambda s: s.first_gap()),
        ("first_degenerate", "first_degenerate", lambda s: s.first_degenerate()),
        ("first_invalid", "first_invalid", lambda s: s.first_invalid()),
        ("first_non_strict", "first_non_strict", lambda s: s.first_non_strict()),
        ("disambiguate/strip", "disambiguate", lambda s: s.disambiguate("strip")),
        ("disambiguate/random", "disambiguate", lambda s: s.disambiguate("random")),
        ("degap", "degap", lambda s: s.degap()),
        ("gap_indices", "gap_indices", lambda s: s.gap_indices()),
        ("gap_vector", "gap_vector", lambda s: s.gap_vector()),
        ("gap_maps", "gap_maps", lambda s: s.gap_maps()),
        ("count_gaps", "count_gaps", lambda s: s.count_gaps()),
        ("count_degenerate", "count_degenerate", lambda s: s.count_degenerate()),
        ("possibilities", "possibilities", lambda s: s.possibilities()),
        ("count_variants", "count_variants", lambda s: s.count_variants()),
        ("mw", "mw", lambda s: s.mw()),
        ("mw/strip", "mw", lambda s: s.mw(method="strip", delta=1.5)),
        ("can_match", "can_match", lambda s: (s.can_match(other), s.can_match(str(s)))),
        ("can_mismatch", "can_mismatch", lambda s: (s.can_mismatch(other), s.can_mismatch(str(s)))),
        ("must_match", "must_match", lambda s: (s.must_match(other), s.must_match(str(s)))),
        ("can_pair", "can_pair", lambda s: (s.can_pair(other), s.can_pair(comp(str(s), mt)[::-1]))),
        ("can_mispair", "can_mispair", lambda s: (s.can_mispair(other), s.can_mispair(comp(str(s), mt)[::-1]))),
        ("must_pair", "must_pair", lambda s: (s.must_pair(other), s.must_pair(comp(str(s), mt)[::-1]))),
        ("diff", "diff", lambda s: (s.diff(other), s.diff(other2))),
        ("distance", "distance", lambda s: s.distance(other)),
        ("matrix_distance", "matrix_distance", lambda s: s.matrix_distance(other, matrix)),
        ("frac_same", "frac_same", lambda s: (s.frac_same(other), s.frac_same(other2))),
        ("frac_diff", "frac_diff", lambda s: (s.frac_diff(other), s.frac_diff(other2))),
        ("frac_same_gaps", "frac_same_gaps", lambda s: s.frac_same_gaps(other)),
        ("frac_diff_gaps", "frac_diff_gaps", lambda s: s.frac_diff_gaps(other)),
        ("frac_same_non_gaps", "frac_same_non_gaps", lambda s: s.frac_same_non_gaps(other)),
        ("frac_diff_non_gaps", "frac_diff_non_gaps", lambda s: s.frac_diff_non_gaps(other)),
        ("frac_similar", "frac_similar", lambda s: s.frac_similar(other, pairs)),
        ("with_termini_unknown", "with_termini_unknown", lambda s: s.with_termini_unknown()),
        ("replace", "replace", lambda s: s.replace(a0, a1)),
        ("replace/gap", "replace", lambda s: s.replace("-", "?")),
        ("replace/delete", "replace", lambda s: s.replace("-", "")),
        ("to_html", "to_html", lambda s: s.to_html().replace(type(s).__name__, "<cls>")),
        ("to_html/limit", "to_html", lambda s: s.to_html(wrap=4, limit=5).replace(type(s).__name__, "<cls>")),
        ("add/str", "__add__", lambda s: s + other),
        ("add/self", "__add__", lambda s: s + s),
        ("to_moltype/text", "to_moltype", lambda s: s.to_moltype("text")),
        ("copy", "copy", lambda s: s.copy()),
        ("copy/unsliced", "copy", lambda s: s.copy(sliced=False)),
        ("copy/no-annotations", "copy", lambda s: s.copy(exclude_annotations=True)),
        ("get_name", "get_name", lambda s: s.get_name()),
        ("get_type", "get_type", lambda s: s.get_type()),
        ("resolved_ambiguities", "resolved_ambiguities", lambda s: [sorted(x) for x in s.resolved_ambiguities()]),
        ("iter_kmers/1", "iter_kmers", lambda s: list(s.iter_kmers(1))),
        ("get_kmers/2", "get_kmers", lambda s: s.get_kmers(2, strict=False)),
        ("get_kmers/3-strict", "get_kmers", lambda s: s.get_kmers(3, strict=True)),
        ("sliding_windows", "sliding_windows", lambda s: [str(w) for w in s.sliding_windows(3, 2)]),
        ("sliding_windows/bounded", "sliding_windows", lambda s: [str(w) for w in s.sliding_windows(2, 1, start=1, end=4)]),
        ("get_in_motif_size/1", "get_in_motif_size", lambda s: list(map(str, s.get_in_motif_size(1)))),
        ("get_in_motif_size/3", "get_in_motif_size", lambda s: list(map(str, s.get_in_motif_size(3)))),
        ("parse_out_gaps", "parse_out_gaps", lambda s: s.parse_out_gaps()),
        ("is_annotated", "is_annotated", lambda s: s.is_annotated()),
        ("bytes", "__bytes__", lambda s: bytes(s)),
        ("array", "__array__", lambda s: __import__("numpy").array(s)),
    ]
    E += [
        ("rc", "rc", lambda s: s.rc()),
        ("reverse_complement", "reverse_complement", lambda s: s.reverse_complement()),
        ("strand_symmetry", "strand_symmetry", lambda s: s.strand_symmetry()),
        ("strand_symmetry/2", "strand_symmetry", lambda s: s.strand_symmetry(motif_length=2)),
    ]
    if nuc:
        E += [
            ("to_rna", "to_rna", lambda s: s.to_rna()),
            ("to_dna", "to_dna", lambda s: s.to_dna()),
            ("has_terminal_stop", "has_terminal_stop", lambda s: s.has_terminal_stop()),
            ("has_terminal_stop/strict", "has_terminal_stop", lambda s: s.has_terminal_stop(gc=2, strict=True)),
            ("trim_stop_codon", "trim_stop_codon", lambda s: s.trim_stop_codon()),
            ("get_translation", "get_translation", lambda s: s.get_translation()),
            ("get_translation/lenient", "get_translation", lambda s: s.get_translation(incomplete_ok=True, include_stop=True)),
            ("get_translation/notrim", "get_translation", lambda s: s.get_translation(gc=4, incomplete_ok=True, include_stop=True, trim_stop=False)),
        ]
    return E


# public names that are deliberately not in the battery, with the reason
NOT_READ_ONLY_OR_OUT_OF_SCOPE = {
    "add_feature": "mutates the annotation db (C04)",
    "annotate_from_gff": "mutates the annotation db (C04)",
    "annotate_matches_to": "mutates the annotation db (C04)",
    "annotation_db": "attribute",
    "annotation_offset": "checked against the model after every step",
    "codon_alphabet": "attribute",
    "copy_annotations": "mutates the annotation db",
    "from_rich_dict": "constructor",
    "gapped_by_map": "takes a map (C04/C08)",
    "gapped_by_map_motif_iter": "takes a map (C04/C08)",
    "gapped_by_map_segment_iter": "takes a map (C04/C08)",
    "get_drawable": "needs plotly, annotations (C04)",
    "get_drawables": "needs plotly, annotations (C04)",
    "get_features": "annotations (C04)",
    "info": "attribute",
    "line_wrap": "attribute",
    "make_feature": "annotations (C04)",
    "moltype": "attribute",
    "name": "attribute",
    "parent_coordinates": "checked against the model after every step",
    "protein": "attribute",
    "replace_annotation_db": "mutator",
    "with_masked_annotations": "annotations (C04)",
}


def view_feature_class(ctx, m):
    return "reversed-view" if m.rev else ("full-view" if len(m.idx) == m.plen and m.mstep == 1 else "forward-sliced-view")


# methods that share one implementation are reported under one name
METHOD_GROUP = {"to_rna": "to_moltype", "to_dna": "to_moltype", "to_json": "to_rich_dict", "reverse_complement": "rc"}


def _crc(*parts):
    import zlib

    return zlib.crc32(":".join(map(str, parts)).encode())


def _snapshot(seq):
    try:
        return [str(seq), list(seq.parent_coordinates())]
    except Exception as e:  # noqa: BLE001
        return [f"<{type(e).__name__}>"]


def run_battery(ctx, seq, m, only=None, fraction=1.0):
    res = ctx.res
    rng = random.Random(f"{ctx.other_seed}:{m.ms}")
    syms = "".join(SYMS[m.mt][:2]) + "-"
    n = len(m.ms)
    other = "".join(rng.choice(syms) for _ in range(max(0, n + rng.choice((-1, 0, 0, 1)))))
    # a near copy, so that equal positions and ordering ties are exercised
    other2 = "".join(c if rng.random() < 0.7 else rng.choice(syms) for c in m.ms)
    try:
        fresh = fresh_seq(ctx.impl, m.mt, m.ms)
    except Exception as e:  # noqa: BLE001
        raise RuntimeError(f"harness: reference sequence cannot be built from {m.ms!r}: {e!r}") from None
    entries = battery_entries(m.mt, other, other2)
    covered = {attr for _, attr, _ in entries}
    for name in dir(fresh):
        if not name.startswith("_") and name not in covered and name not in NOT_READ_ONLY_OR_OUT_OF_SCOPE:
            res.count("unlisted-public-name:" + name)
    res.count("battery-chains")
    vclass = view_feature_class(ctx, m)
    before = _snapshot(seq)
    for label, attr, fn in entries:
        if only is not None:
            if label not in only:
                continue
        elif fraction < 1.0 and _crc(ctx.other_seed, label, "keep") % 1000 >= fraction * 1000:
            continue
        if not hasattr(fresh, attr):
            continue
        group = METHOD_GROUP.get(label.split("/")[0], label.split("/")[0])
        k = _crc(ctx.other_seed, label)
        _seed(k)
        try:
            exp, exp_exc = canon(fn(fresh)), None
        except Exception as e:  # noqa: BLE001
            exp, exp_exc = None, type(e).__name__
        _seed(k)
        err = None
        try:
            got, got_exc = canon(fn(seq)), None
        except Exception as e:  # noqa: BLE001
            got, got_exc, err = None, type(e).__name__, e
        res.evals += 1
        res.count("method:" + label.split("/")[0])
        detail = dict(
            method=label, view_string=m.ms, other=other, got=got, got_exception=got_exc, expected=exp,
            expected_exception=exp_exc, view_class=m.view_class(),
        )
        # a read-only method must leave the view it was called on as it was
        after = _snapshot(seq)
        if after != before:
            res.evals += 1
            ctx.witness(
                f"C01/parity/{ctx.impl}/{group}/alters-the-view-it-was-called-on", [label],
                view_before=before, view_afterwards=after, **detail,
            )
            seq = rebuild(ctx)
            before = _snapshot(seq)
            continue
        if got_exc == exp_exc and got == exp:
            continue
        cls, diagnosis = classify_parity(ctx, m, fn, got, got_exc, vclass)
        if group == "to_rich_dict" and got_exc is None and exp_exc is None and isinstance(got, list) and len(got) > 2:
            pred = predict_sliced_twice(seq, m)
            if pred is not None and pred != m.ms and got[2] == pred:
                cls = "sliced-twice"
                diagnosis = "the serialised string is the displayed string sliced again with the parent coordinates, and the step is applied again on loading"
        detail["diagnosis"] = diagnosis
        prefix = f"C01/parity/{ctx.impl}/{group}/{cls}"
        if err is not None and exp_exc is None:
            ctx.raised(prefix, err, battery=[label], **detail)
        elif got_exc != exp_exc:
            ctx.witness(f"{prefix}/no-{exp_exc}" if got_exc is None else f"{prefix}/raises-{got_exc}-not-{exp_exc}", [label], **detail)
        else:
            ctx.witness(prefix, [label], **detail)


def predict_sliced_twice(seq, m):
    """what a SeqDataView-backed sequence deserialises to if to_rich_dict slices str_value (already sliced and
    stepped) with the plus-strand bounds and the loader then applies the step once more; None if not applicable"""
    v = getattr(seq, "_seq", None)
    if type(v).__name__ != "SeqDataView":
        return None
    try:
        if v.step < 0:
            a, b = v.stop + v._seq_len + 1, v.start + v._seq_len + 1
        else:
            a, b = v.start, v.stop
        out = v.str_value[a:b][:: v.step]
    except Exception:  # noqa: BLE001
        return None
    return comp(out, m.mt) if v.step < 0 else out


def rebuild(ctx, off=None):
    s = build(ctx.impl, ctx.mt0, ctx.s0, ctx.off if off is None else off, ctx.start, ctx.form).seq
    for op in ctx.ops:
        s = apply_real(s, op)
    return s


def classify_parity(ctx, m, fn, got, got_exc, vclass):
    """which structural feature of the view the divergence depends on (decided by re-running, never by values)"""

    def outcome(seq):
        _seed(1)
        try:
            return canon(fn(seq)), None
        except Exception as e:  # noqa: BLE001
            return None, type(e).__name__

    def final(off):
        return rebuild(ctx, off)

    try:
        _seed(1)
        base = outcome(final(ctx.off))
        if ctx.off:
            # same chain, same displayed string, no annotation offset
            alt = outcome(final(0))
            ref = outcome(fresh_seq(ctx.impl, m.mt, m.ms))
            if alt == ref and base != ref:
                return "offset-view", "the same chain without annotation_offset answers correctly"
        if m.rev and m.mt in COMP:
            raw = outcome(fresh_seq(ctx.impl, m.mt, comp(m.ms, m.mt)))
            if base == raw:
                return vclass, "answers as for the un-complemented strand (reads the raw view)"
        if m.seqid is not None and len(m.idx) != m.plen:
            whole = outcome(fresh_seq(ctx.impl, ctx.mt0, ctx.s0))
            if base == whole:
                return vclass, "answers as for the whole parent sequence (ignores the slice)"
    except Exception:  # noqa: BLE001
        pass
    return vclass, None


# ---------------------------------------------------------------------------
# running one chain


class Chain:
    """a real sequence and its model, advanced one operation at a time"""

    def __init__(self, res, case):
        _setup()
        self.res = res
        self.ctx = Ctx(res, case)
        self.light = case.get("light", False)
        self.nops = len(case.get("ops", ()))
        self.k = 0
        self.seq = None
        self.m = None
        self.hostile = False
        self.sources = []
        self.mtclass = "nuc" if case["moltype"] in COMP else "other"

    def begin(self):
        ctx, res = self.ctx, self.res
        m = Model(ctx.s0, ctx.mt0, ctx.off)
        try:
            try:
                built = build(ctx.impl, ctx.mt0, ctx.s0, ctx.off, ctx.start, ctx.form)
            except FormNotApplicable:
                res.count("input-form-not-applicable:" + ctx.form)
                ctx.form = "str"
                built = build(ctx.impl, ctx.mt0, ctx.s0, ctx.off, ctx.start, ctx.form)
        except Exception as e:  # noqa: BLE001
            res.evals += 1
            ctx.raised(f"C01/construct/{ctx.impl}" + ("" if ctx.form == "str" else f"/{INPUT_TYPE[ctx.form]}-input"), e)
            return False
        seq = built.seq
        self.sources = built.sources
        if ctx.start == "collrc":
            m = m.apply(("rc",))
            self.hostile = True
        opname = "construct" if ctx.form == "str" else f"construct-from-{INPUT_TYPE[ctx.form]}"
        if not observe(ctx, seq, m, opname, self.light, last=self.nops == 0):
            return False
        self.seq, self.m = seq, m
        return self.reread_sources("construction")

    def reread_sources(self, when):
        """every object the sequence was derived from must still read, through fresh accessors, as its model says"""
        ctx, res = self.ctx, self.res
        for label, reader, expected in self.sources:
            res.evals += 1
            res.count("source-rereads")
            try:
                got = canon(reader())
            except Exception as e:  # noqa: BLE001
                ctx.raised(f"C01/source-altered/{ctx.impl}/{label}/after-{when}", e)
                return False
            if got != canon(expected):
                ctx.witness(f"C01/source-altered/{ctx.impl}/{label}/after-{when}", got=got, expected=expected)
                return False
        return True

    def step(self, op, advance=True):
        """apply op to both; False = diverged (witness recorded). advance=False leaves the chain where it was."""
        ctx, res, m, seq, impl = self.ctx, self.res, self.m, self.seq, self.ctx.impl
        op = tuple(op)
        self.k += 1
        n = len(m.ms)
        opname = direction_case(op, m)
        prior = m.view_class()
        depth = len(ctx.ops) + (1 if ctx.start == "collrc" else 0)
        ctx.ops.append(op)
        try:
            exp = m.apply(op)
            res.count("op:" + op[0])
            before = None if self.light else _snapshot(seq)
            try:
                new = apply_real(seq, op)
            except IndexError as e:
                res.evals += 1
                if exp == "IndexError":
                    res.count("int-index-out-of-range-agrees")
                    advance = False
                    return True
                ctx.raised(f"C01/{opname}/{impl}", e, expected_str=exp.ms)
                return False
            except Exception as e:  # noqa: BLE001
                res.evals += 1
                ctx.raised(f"C01/{opname}/{impl}", e, expected_str=None if isinstance(exp, str) else exp.ms)
                return False
            if exp == "IndexError":
                res.evals += 1
                ctx.witness(f"C01/{opname}/{impl}/index-out-of-range-accepted", got=str(new))
                return False
            hostile = self.hostile or op_hostile(op, n)
            if not observe(ctx, new, exp, opname, self.light, last=self.k >= self.nops):
                return False
            if before is not None:
                # the operation derived a new object: the view it was applied to must read as before
                res.evals += 1
                res.count("source-rereads")
                after = _snapshot(seq)
                if after != before or after[0] != m.ms:
                    kind = "to_moltype" if op[0] in ("to_rna", "to_dna") else op[0]
                    ctx.witness(f"C01/source-altered/{impl}/view-operated-on/by-{kind}", view_before=before, view_afterwards=after)
                    return False
            if depth >= 1 and hostile:
                res.sig(impl, self.mtclass, prior, op_class(op, n))
            if advance:
                self.seq, self.m, self.hostile = new, exp, hostile
            return True
        finally:
            if not advance:
                ctx.ops.pop()

    def battery(self, only=None, fraction=1.0):
        run_battery(self.ctx, self.seq, self.m, only=only, fraction=fraction)


def run_chain(res, case):
    """case: kind one — impl, moltype, seq, offset, ops, battery (None = all, [] = none, [labels])"""
    ch = Chain(res, case)
    if not ch.begin():
        return
    for op in case["ops"]:
        if not ch.step(op):
            return
    battery = case.get("battery")
    if battery is None or battery:
        ch.battery(only=None if battery is None else set(battery), fraction=case.get("battery_fraction", 1.0))
    ch.reread_sources("chain")


# ---------------------------------------------------------------------------
# generators used by the batch kinds


def rand_string(rng, mt):
    canon_, degen, gaps = SYMS[mt]
    L = rng.choice((0, 1, 2, 3)) if rng.random() < 0.12 else rng.randint(4, 16)
    style = rng.random()
    if style < 0.45:
        alpha = canon_
    elif style < 0.75:
        alpha = canon_ * 3 + degen
    else:
        alpha = canon_ * 3 + degen + gaps * 3
    if mt in COMP and rng.random() < 0.35:
        # codon-structured, with stops, so that translation methods are exercised
        t = "T" if mt == "dna" else "U"
        stops = [t + "AA", t + "AG", t + "GA"]
        cod = []
        while len(cod) * 3 < L:
            cod.append(rng.choice(stops) if rng.random() < 0.25 else "".join(rng.choice(alpha) for _ in range(3)))
        return "".join(cod)[:L] if rng.random() < 0.3 else "".join(cod)
    return "".join(rng.choice(alpha) for _ in range(L))


def rand_bound(rng, n, L):
    r = rng.random()
    if r < 0.14:
        return None
    if r < 0.8:
        return rng.randint(-n - 3, n + 3)
    return rng.randint(-L - 3, L + 3)


def rand_ops(rng, mt, L):
    """ops are drawn against a running *model* length so that bounds straddle the current view"""
    ops = []
    m = Model("x" * L, mt, 0)
    cur_mt = mt
    depth = rng.randint(1, 6)
    for _ in range(depth):
        n = len(m.ms)
        r = rng.random()
        nuc = cur_mt in COMP
        if nuc and r < 0.13:
            op = ("rc",)
        elif nuc and r < 0.23:
            op = ("to_rna",) if rng.random() < (0.75 if cur_mt == "dna" else 0.25) else ("to_dna",)
        elif r < 0.29:
            op = ("int", rng.randint(-n - 1, n))
        else:
            op = ("slice", rand_bound(rng, n, L), rand_bound(rng, n, L), rng.choice(STEPS))
            if n > 3 and rng.random() < 0.5:
                # keep views from collapsing to empty too early: retry once for a non-empty result
                if not m.ms[slice(*op[1:])]:
                    op = ("slice", rand_bound(rng, n, L), rand_bound(rng, n, L), rng.choice(STEPS))
        ops.append(list(op))
        nm = m.apply(tuple(op))
        if not isinstance(nm, str):
            m = nm
            cur_mt = m.mt
    return ops


# ---------------------------------------------------------------------------
# equivalent ways of constructing the same sequence


FORM_OPS = [["slice", 2, -1, None], ["rc"], ["slice", 1, None, 2], ["slice", None, None, -1]]


def run_forms(res, case):
    """every input form x with/without annotation_offset: same observations as the model (hence as each other),
    same rich dict as the plain-str form, sources untouched; then a short chain with coordinates checked"""
    rng = random.Random(case["seed"])
    impl = case["impl"]
    for _ in range(case["n"]):
        mt = rng.choice(("dna", "dna", "rna", "protein", "text"))
        s = rand_string(rng, mt)
        ops = [op for op in FORM_OPS if mt in COMP or op[0] != "rc"]
        for off in (0, rng.choice((3, 5, 17, 101))):
            ref = None
            for form in FORMS[impl] + FORMS_PROBED:
                one = {"kind": "one", "impl": impl, "moltype": mt, "seq": s, "offset": off, "form": form,
                       "ops": ops, "battery": [], "index_sweep": "ends"}
                ctx = Ctx(res, one)
                try:
                    built = build(impl, mt, s, off, "plain", form)
                except FormNotApplicable:
                    res.count("input-form-not-applicable:" + form)
                    continue
                except Exception as e:  # noqa: BLE001
                    if form in FORMS_PROBED:
                        res.count(f"input-form-not-accepted:{impl}:{form}")
                        continue
                    res.evals += 1
                    ctx.raised(f"C01/construct/{impl}/{INPUT_TYPE[form]}-input", e)
                    continue
                res.count(f"forms:{impl}:{form}")
                res.count("forms-with-offset" if off else "forms-without-offset")
                res.sig(impl, "form", form, "offset" if off else "no-offset", "nuc" if mt in COMP else "other")
                try:
                    rd = canon(built.seq.to_rich_dict())
                except Exception as e:  # noqa: BLE001
                    res.evals += 1
                    ctx.raised(f"C01/construct/{impl}/{INPUT_TYPE[form]}-input/to_rich_dict", e)
                    continue
                if form == "str":
                    ref = rd
                    # the offset written to the rich dict is the one asked for
                    res.evals += 1
                    ao = built.seq.to_rich_dict().get("annotation_offset")
                    if ao != off:
                        ctx.witness(f"C01/construct/{impl}/str/rich-dict-offset", got=ao, expected=off)
                elif ref is not None:
                    res.evals += 1
                    if rd != ref:
                        ctx.witness(
                            f"C01/construct/{impl}/{INPUT_TYPE[form]}-input/rich-dict-differs-from-str-input",
                            got=rd, expected=ref,
                        )
                run_chain(res, one)


# ---------------------------------------------------------------------------
# collections: every derived object is right AND every object alive before the operation still reads the same


def _rcs(s, mt):
    return comp(s, mt)[::-1]


class CollModel:
    def __init__(self, names, seqs, mt, rev=None, views=True):
        self.names = list(names)
        self.seqs = dict(seqs)
        self.mt = mt
        self.rev = dict(rev or {n: False for n in names})
        self.views = views
        self.ever_rc = False

    def expected(self):
        obs = {"names": list(self.names), "to_dict": {n: self.seqs[n] for n in self.names}}
        obs["members"] = {n: self.seqs[n] for n in self.names}
        return obs

    def coords_allowed(self, n):
        """a member of a derived collection is either still a view on earlier data or a detached copy that is its
        own parent; which of the two is not specified, and either names exactly the displayed segment. So the
        minus strand is acceptable exactly when some ancestor of the collection was reverse complemented."""
        L = len(self.seqs[n])
        return [[0, L, 1]] + ([[0, L, -1]] if self.ever_rc else [])


def read_collection(obj, model):
    """observations through fresh accessors only"""
    obs = {"names": list(obj.names), "to_dict": dict(obj.to_dict())}
    obs["members"] = {}
    obs["coords"] = {}
    for n in model.names:
        if n not in obs["names"]:
            continue
        seq = obj.get_seq(n)
        obs["members"][n] = str(seq)
        if model.seqs[n]:
            obs["coords"][n] = list(seq.parent_coordinates()[1:])
    return obs


def diff_class(got, exp, model):
    if got["names"] != exp["names"]:
        return "names"
    for key in ("to_dict", "members"):
        if got[key] != exp.get(key, got[key]):
            bad = [n for n in exp[key] if got[key].get(n) != exp[key][n]]
            if model.mt in COMP and all(got[key].get(n) == _rcs(exp[key][n], model.mt) for n in bad):
                return "member-orientation"
            return "member-strings"
    return "coordinates"


def apply_coll_model(m, op):
    new = _apply_coll_model(m, op)
    new.ever_rc = m.ever_rc or op[0] in ("rc", "reverse_complement")
    return new


def _apply_coll_model(m, op):
    kind = op[0]
    if kind in ("rc", "reverse_complement"):
        return CollModel(m.names, {n: _rcs(s, m.mt) for n, s in m.seqs.items()}, m.mt,
                         {n: not r for n, r in m.rev.items()}, m.views)
    if kind == "take_seqs":
        names = [n for n in m.names if n not in op[2]] if op[3] else list(op[2])
        return CollModel(names, {n: m.seqs[n] for n in names}, m.mt, {n: m.rev[n] for n in names}, m.views)
    if kind == "rename_seqs":
        f = RENAMERS[op[2]]
        return CollModel([f(n) for n in m.names], {f(n): s for n, s in m.seqs.items()}, m.mt,
                         {f(n): r for n, r in m.rev.items()}, m.views)
    if kind in ("to_rna", "to_dna"):
        a, b = ("T", "U") if kind == "to_rna" else ("U", "T")
        return CollModel(m.names, {n: s.replace(a, b) for n, s in m.seqs.items()}, kind[3:], m.rev, m.views)
    if kind == "degap":
        return CollModel(m.names, {n: s.replace("-", "") for n, s in m.seqs.items()}, m.mt, m.rev, m.views)
    if kind in ("copy", "deepcopy"):
        return CollModel(m.names, m.seqs, m.mt, m.rev, m.views)
    if kind == "add_seqs":
        seqs = dict(m.seqs)
        seqs.update(op[2])
        rev = dict(m.rev)
        rev.update({n: False for n in op[2]})
        return CollModel(m.names + list(op[2]), seqs, m.mt, rev, m.views)
    raise ValueError(op)


RENAMERS = {"upper": lambda n: n.upper(), "suffix": lambda n: n + "_x", "swapcase": lambda n: n.swapcase()}


def apply_coll_real(obj, op):
    kind = op[0]
    if kind == "take_seqs":
        return obj.take_seqs(list(op[2]), negate=bool(op[3]))
    if kind == "rename_seqs":
        return obj.rename_seqs(RENAMERS[op[2]])
    if kind == "add_seqs":
        return obj.add_seqs(dict(op[2]))
    if kind == "deepcopy":
        import copy

        return obj.deepcopy() if hasattr(obj, "deepcopy") else copy.deepcopy(obj)
    return getattr(obj, kind)()


def rand_collection_history(rng, impl):
    mt = rng.choice(("dna", "dna", "dna", "rna"))
    canon_, degen, _ = SYMS[mt]
    names = ["s1", "s2", "Seq3", "t4"][: rng.randint(2, 4)]
    data = {}
    for n in names:
        alpha = canon_ * 3 + (degen if rng.random() < 0.4 else "") + ("--" if rng.random() < 0.4 else "")
        data[n] = "".join(rng.choice(alpha) for _ in range(rng.randint(1, 12)))
    models = [CollModel(names, data, mt)]
    ops = []
    fresh = 0
    for _ in range(rng.randint(2, 7)):
        i = rng.randrange(len(models))
        m = models[i]
        r = rng.random()
        if r < 0.3:
            op = [rng.choice(("rc", "rc", "reverse_complement")), i]
        elif r < 0.42 and len(m.names) > 1:
            k = rng.randint(1, len(m.names) - 1)
            op = ["take_seqs", i, rng.sample(m.names, k), rng.random() < 0.3]
        elif r < 0.52:
            op = ["rename_seqs", i, rng.choice(sorted(RENAMERS))]
        elif r < 0.6:
            op = ["to_rna" if m.mt == "dna" else "to_dna", i]
        elif r < 0.68:
            op = ["degap", i]
        elif r < 0.76:
            op = [rng.choice(("copy", "deepcopy")) if impl == "old" else "deepcopy", i]
        elif r < 0.82 and impl == "new":
            fresh += 1
            # symbols of the moltype the collection has *now* (it may have been converted)
            op = ["add_seqs", i, {f"added{fresh}": "".join(rng.choice(SYMS[m.mt][0]) for _ in range(rng.randint(1, 6)))}]
        elif r < 0.91:
            op = ["member_rc", i, rng.choice(m.names)]
        else:
            n = rng.choice(m.names)
            L = len(m.seqs[n])
            op = ["member_slice", i, n, rand_bound(rng, L, L), rand_bound(rng, L, L), rng.choice(STEPS)]
        ops.append(op)
        if not op[0].startswith("member_"):
            models.append(apply_coll_model(m, [op[0], None] + op[2:]))
    return {"kind": "coll-one", "impl": impl, "moltype": mt, "data": data, "ops": ops}


def run_collection_history(res, case):
    _setup()
    from cogent3 import make_unaligned_seqs

    impl, mt = case["impl"], case["moltype"]
    data = dict(case["data"])
    done = []

    def witness(mech, **detail):
        res.witness(
            mech, impl=impl, moltype=mt, data=data, ops=done, **detail,
            replay_case={"kind": "coll-one", "impl": impl, "moltype": mt, "data": data, "ops": list(done)},
        )

    def raised(prefix, e, **detail):
        if isinstance(e, ViewInvariantError):
            witness(f"C01/view-invariant/{impl}-collection/{e}", raised_during=prefix, **detail)
        else:
            witness(exc_mechanism(prefix, e), error=repr(e)[:300], **detail)

    try:
        root = make_unaligned_seqs(dict(data), moltype=mt, new_type=(impl == "new"))
    except Exception as e:  # noqa: BLE001
        res.evals += 1
        raised(f"C01/collection/{impl}/construct", e)
        return
    live = [(root, CollModel(list(data), data, mt))]

    def check(i, role, opname, src_index=None):
        """compare live object i with its model; role is 'result' or 'earlier'"""
        obj, model = live[i]
        res.evals += 1
        res.count("collection-rereads" if role == "earlier" else "collection-results")
        if role == "earlier":
            res.count("source-rereads")
        exp = model.expected()
        where = (
            f"C01/collection/{impl}/{opname}/result"
            if role == "result"
            else f"C01/source-altered/{impl}-collection/by-{opname}"
        )
        try:
            got = read_collection(obj, model)
        except Exception as e:  # noqa: BLE001
            raised(where, e, object_index=i)
            return False
        coords = got.pop("coords", {})
        bad_coords = {n: c for n, c in coords.items() if c not in model.coords_allowed(n)}
        if canon(got) != canon(exp) or bad_coords:
            cls = diff_class(got, exp, model)
            if cls == "coordinates":
                got["coords"] = coords
                exp["coords_allowed"] = {n: model.coords_allowed(n) for n in bad_coords}
            if role == "result":
                witness(f"{where}-{cls}", object_index=i, got=got, expected=exp)
            else:
                which = "the-collection-operated-on" if i == src_index else "another-live-collection"
                witness(f"{where}/{which}/{cls}", object_index=i, got=got, expected=exp)
            return False
        return True

    if not check(0, "result", "construct"):
        return
    for op in case["ops"]:
        op = list(op)
        kind, i = op[0], op[1]
        obj, model = live[i]
        done.append(op)
        opname = METHOD_GROUP.get(kind, kind)
        res.count("collection-op:" + kind)
        res.count(f"collection:{impl}:{kind}")
        state = ("rev" if any(model.rev.values()) else "fwd") + ("-views" if model.views else "-detached")
        if kind.startswith("member_"):
            name = op[2]
            s = model.seqs[name]
            res.evals += 1
            try:
                seq = obj.get_seq(name)
                if kind == "member_rc":
                    got, exp = str(seq.rc()), _rcs(s, model.mt)
                else:
                    sl = slice(op[3], op[4], op[5])
                    got = str(seq[sl])
                    exp = s[sl]
                    if op[5] is not None and op[5] < 0:
                        exp = comp(exp, model.mt)
            except Exception as e:  # noqa: BLE001
                raised(f"C01/collection/{impl}/{opname}", e)
                return
            if got != exp:
                witness(f"C01/collection/{impl}/{opname}/result", got=got, expected=exp)
                return
        else:
            try:
                new = apply_coll_real(obj, [kind, None] + op[2:])
            except Exception as e:  # noqa: BLE001
                res.evals += 1
                raised(f"C01/collection/{impl}/{opname}", e)
                return
            live.append((new, apply_coll_model(model, [kind, None] + op[2:])))
            if not check(len(live) - 1, "result", opname):
                return
        if len(done) >= 2:
            res.sig(impl, "collection", kind, state)
        # every object that existed before the operation, read again through fresh accessors
        upto = len(live) - (0 if kind.startswith("member_") else 1)
        for j in range(upto):
            if not check(j, "earlier", opname.replace("_", "-") if kind.startswith("member_") else opname, src_index=i):
                return


def run_case(case):
    res = Result()
    _setup()
    inv0, invd0, br0 = INV["evals"], INV.get("distinct", 0), dict(BR)
    kind = case["kind"]
    if kind == "one":
        run_chain(res, case)
    elif kind == "chains":
        rng = random.Random(case["seed"])
        impl = case["impl"]
        for _ in range(case["n"]):
            mt = rng.choice(("dna",) * 5 + ("rna",) * 2 + ("protein", "text"))
            s = rand_string(rng, mt)
            one = {
                "kind": "one",
                "impl": impl,
                "moltype": mt,
                "seq": s,
                "offset": 0 if impl == "newcoll" else rng.choice((0, 0, 5, 17)),
                "start": "collrc" if impl == "newcoll" and mt in COMP and rng.random() < 0.4 else "plain",
                "form": "str" if impl == "newcoll" or rng.random() < 0.5 else rng.choice(FORMS[impl]),
                "ops": rand_ops(rng, mt, len(s)),
                "other_seed": rng.randrange(2**31),
                "battery": None,
                "battery_fraction": case.get("battery_fraction", 0.5),
                "index_sweep": case.get("index_sweep", "full"),
            }
            run_chain(res, one)
            res.count("chains")
            res.count(f"chains:{impl}")
            res.count("moltype:" + mt)
            if one["offset"]:
                res.count("chains-with-annotation-offset")
                if one["form"] != "str":
                    res.count("chains-with-offset-from-other-input-form")
        res.sample({k: one[k] for k in ("impl", "moltype", "seq", "offset", "form", "ops")})
    elif kind == "forms":
        run_forms(res, case)
    elif kind == "collections":
        rng = random.Random(case["seed"])
        for _ in range(case["n"]):
            one = rand_collection_history(rng, case["impl"])
            run_collection_history(res, one)
            res.count("collection-histories")
        res.sample({k: one[k] for k in ("impl", "moltype", "data", "ops")})
    elif kind == "coll-one":
        run_collection_history(res, case)
    elif kind == "exhaust":
        L = case["L"]
        triples = _exh_triples(L, case.get("pad", 3), case.get("steps", STEPS))
        for path in case["paths"]:
            one = {
                "kind": "one",
                "impl": case["impl"],
                "moltype": "dna",
                "seq": EXH_ALPHA[:L],
                "offset": 0,
                "ops": [],
                "battery": [],
                "light": True,
            }
            ch = Chain(res, one)
            if not ch.begin() or not all(ch.step(["slice", *p]) for p in path):
                continue
            for t in triples:
                ch.step(("slice", *t), advance=False)
            res.count("exhaustive-views")
            res.count("exhaustive-chains", len(triples))
        res.sample({"exhaustive": True, "L": L, "path": case["paths"][0]})
    else:
        raise ValueError(kind)
    res.count("contract-evaluations", INV["evals"] - inv0)
    res.count("contract-distinct-view-states", INV.get("distinct", 0) - invd0)
    for k, v in BR.items():
        d = v - br0.get(k, 0)
        if d:
            res.count(k, d)
    return res


def required(counters, tier):
    need = []
    for label in ("old.SeqView", "new.SeqView", "new.SeqDataView"):
        for b in BRANCHES:
            need.append(f"branch:{label}:{b.strip('_')[4:]}")
    need += [
        "contract-evaluations",
        "battery-chains",
        "op:slice",
        "op:rc",
        "op:int",
        "op:to_rna",
        "op:to_dna",
        "moltype:dna",
        "moltype:rna",
        "moltype:protein",
        "moltype:text",
        "chains-with-annotation-offset",
        "coords:contiguous",
        "coords:strided",
        "exhaustive-chains",
        "method:copy",
        "method:replace",
        "method:resolved_ambiguities",
        "method:to_rna",
        "method:get_translation",
        "source-rereads",
        "chains-with-offset-from-other-input-form",
        "forms-with-offset",
        "forms-without-offset",
        "forms:new:bytes",
        "forms:old:bytes",
        "forms:new:ctor-seq+off",
        "forms:old:ctor-seqview+off",
        "collection-rereads",
        "collection:new:rc",
        "collection:old:rc",
        "collection:new:take_seqs",
        "collection:old:rename_seqs",
        "collection:new:deepcopy",
        "collection:new:member_rc",
    ]
    return [k for k in need if not counters.get(k)]
