"""C11 — likelihood is invariant under relabelling, reordering and re-rooting.

Shape R (relational monitor): two executions of the real code whose results must be related.  Tree surgery
(re-rooting, edge splitting, child shuffling) is done on the harness's own nested-list trees, so the relation does
not depend on cogent3's tree code (that is C09's subject).
"""

import copy
import random

import numpy as np

from vmon.core import Result, exc_mechanism
from vmon.models import lfmodel as M

ID = "C11"
LEVEL = "exploration"
RULE = (
    "seeded problems (codon and protein models are the main load, plus nucleotide/dinucleotide, global and per-edge "
    "scoped parameters, rate bins) x relations: column permutation in motif blocks, row order, child order at every "
    "node, every column repeated k in {2,3}, concatenation additivity (lnL(A+B)=lnL(A)+lnL(B), i.e. merged/repeated "
    "identical columns), reversible models: root moved to every internal node and onto a random point of a random "
    "edge, time-homogeneous: a random edge split in two. Non-trivial = non-identity transformation on >=4 taxa and "
    ">=2 distinct columns; distinct = (model, relation, tree-shape class, scoping)."
)
LEVEL_TEXT = (
    "Each relation compares two log-likelihoods computed by the real code on a transformed problem; no oracle model is "
    "needed, so 61-state codon and 20-state protein models are covered at full size. Sampled over problems; every "
    "internal node is tried as the new root for each reversible problem."
    " Problems are drawn under every expm setting."
    " Relations are repeated with motif probabilities estimated from the alignment, and once per run on an alignment with more than 32767 distinct site patterns below one node."
)
LEVEL_NOTE = "trusted: the harness's own tree surgery (nested lists); tolerance rtol 1e-9 (1e-6 for >16 states)"
TECHNIQUE = "runtime monitoring: relational (metamorphic) monitor over pairs of real executions"
ASSUMPTIONS = [
    "branch lengths >= 0.01 so no transition probability is at rounding level (see C02 G-guard)",
    "re-rooting with per-edge scopes keeps each parameter attached to the same bipartition; scopes never split the two root edges of a rooted tree",
]
ENV = {"NUMBA_BOUNDSCHECK": "1"}
TIMEOUT = {"quick": 1200, "thorough": 7200}

QUICK = ["GTR", "HKY85", "GN", "MG94HKY", "GY94", "CNFGTR", "JTT92", "WG01", "DINUC_conditional"]
ALL = M.NUC_REV + M.NUC_NS + M.CODON + M.PROTEIN + M.DINUC


def gen_cases(rng, tier):
    cases = []
    models = QUICK if tier == "quick" else ALL
    per = 3 if tier == "quick" else 20
    for model in models:
        big = M.kind_of(model) != "nuc"
        for _ in range(per):
            cases.append({"kind": "problems", "model": model, "seed": rng.randrange(2**32), "n": 2 if big else 5})
        for _ in range(1 if tier == "quick" else 6):
            cases.append({"kind": "library", "model": model, "seed": rng.randrange(2**32), "n": 2 if big else 6})
    for _ in range(1 if tier == "quick" else 3):
        cases.append({"kind": "many-patterns", "seed": rng.randrange(2**32)})
    return cases


def relate_many_patterns(res, rng):
    """an alignment with more distinct site patterns below one node than a 16-bit index can hold (> 32767): column
    order must still not matter (pattern numbers are given in order of first appearance)"""
    from cogent3 import get_model, make_aligned_seqs, make_tree

    ntips, ncols = 9, 75000
    names = [f"t{i}" for i in range(ntips)]
    cols = ["".join(rng.choice("ACGT") for _ in names) for _ in range(ncols)]
    nw = f"(({','.join(f'{n}:{round(rng.uniform(0.05, 0.4), 3)}' for n in names[:-1])})n0:0.1,{names[-1]}:0.2);"

    def lnL(order):
        aln = make_aligned_seqs({n: "".join(cols[j][i] for j in order) for i, n in enumerate(names)}, moltype="dna")
        lf = get_model("HKY85").make_likelihood_function(make_tree(nw))
        lf.set_alignment(aln)
        lf.set_motif_probs(dict(A=0.2, C=0.3, G=0.3, T=0.2))
        lf.set_param_rule("kappa", init=2.5)
        return float(lf.lnL)

    fwd = list(range(ncols))
    try:
        a, b = lnL(fwd), lnL(fwd[::-1])
    except Exception as e:  # noqa: BLE001
        res.evals += 1
        res.witness(exc_mechanism("C11/many-patterns", e), error=repr(e)[:200])
        return
    npat = len(set(c[:-1] for c in cols))
    res.evals += 1
    res.count("relation:column-permutation/many-patterns")
    res.count("patterns-below-one-node>32767" if npat > 32767 else "patterns-below-one-node<=32767")
    res.sig("many-patterns", npat > 32767)
    if abs(a - b) > 1e-9 * abs(a):
        res.witness("C11/column-permutation/more-than-32767-patterns-below-a-node", forward=a, reversed=b, distinct_patterns=npat)


# ---------------------------------------------------------------------------
# tree surgery on nested trees (edge = child node's name + length)


def _graph(tree):
    """adjacency: node id -> list of (neighbour id, edge name, length); ids are object ids of nested dicts"""
    adj = {}
    info = {}

    def rec(n):
        adj.setdefault(id(n), [])
        info[id(n)] = n
        for c in n["children"]:
            adj.setdefault(id(c), [])
            adj[id(n)].append((id(c), c["name"], c["length"]))
            adj[id(c)].append((id(n), c["name"], c["length"]))
            rec(c)

    rec(tree)
    return adj, info


def _build_from(adj, info, root_id):
    def rec(nid, parent, edge_name, length):
        node = info[nid]
        is_tip = not node["children"]
        kids = [rec(m, nid, en, ln) for (m, en, ln) in adj[nid] if m != parent]
        return {"name": node["name"] if is_tip else edge_name, "length": length, "children": kids}

    t = rec(root_id, None, "root", None)
    return t


def _suppress_degree2(tree):
    """merge an internal node with one child into its child (sum lengths; keeps the child's name)"""

    def rec(n):
        n["children"] = [rec(c) for c in n["children"]]
        if len(n["children"]) == 1 and n["name"] != "root":
            c = n["children"][0]
            return {"name": c["name"], "length": n["length"] + c["length"], "children": c["children"], "_merged": [n["name"], c["name"]]}
        return n

    return rec(tree)


def reroot_at(tree, node_name):
    t = copy.deepcopy(tree)
    adj, info = _graph(t)
    target = [nid for nid, n in info.items() if n["name"] == node_name and n["children"]][0]
    new = _build_from(adj, info, target)
    new = _suppress_degree2(new)
    return new


def reroot_on_edge(tree, edge_name, frac):
    """new bifurcating root at fraction `frac` along the named edge; halves are named edge_name and edge_name+'_b'"""
    t = copy.deepcopy(tree)

    def find(n):
        for i, c in enumerate(n["children"]):
            if c["name"] == edge_name:
                return n, i
            r = find(c)
            if r:
                return r
        return None

    parent, i = find(t)
    c = parent["children"][i]
    L = c["length"]
    mid = {"name": edge_name + "_b", "length": L * (1 - frac), "children": [c]}
    c["length"] = L * frac
    parent["children"][i] = mid
    # root at mid
    adj, info = _graph(t)
    new = _build_from(adj, info, id(mid))
    # the edge from mid up to the old parent carries the name edge_name+'_b' (it is the other half)
    new = _suppress_degree2(new)
    return new


def split_edge(tree, edge_name, frac):
    t = copy.deepcopy(tree)

    def rec(n):
        for i, c in enumerate(n["children"]):
            if c["name"] == edge_name:
                L = c["length"]
                c["length"] = L * frac
                n["children"][i] = {"name": edge_name + "_b", "length": L * (1 - frac), "children": [c]}
                return True
            if rec(c):
                return True
        return False

    rec(t)
    return t


def shuffle_children(tree, rng):
    t = copy.deepcopy(tree)

    def rec(n):
        rng.shuffle(n["children"])
        for c in n["children"]:
            rec(c)

    rec(t)
    return t


def merged_pairs(tree):
    out = []

    def rec(n):
        if "_merged" in n:
            out.append(n["_merged"])
        for c in n["children"]:
            rec(c)

    rec(tree)
    return out


def strip(tree):
    t = copy.deepcopy(tree)

    def rec(n):
        n.pop("_merged", None)
        for c in n["children"]:
            rec(c)

    rec(t)
    return t


def with_edge_alias(prob, old, new):
    """scoped parameter groups containing edge `old` also cover `new`"""
    p = copy.deepcopy(prob)
    for par, groups in p.get("edge_params", {}).items():
        for g, _v in groups:
            if old in g and new not in g:
                g.append(new)
    return p


# ---------------------------------------------------------------------------


def lnL_of(prob):
    lf = M.build_lf(prob)
    return float(lf.lnL)


def lf_from_library_tree(prob, t, explicit_lengths=True):
    """likelihood function on a cogent3 tree object, every branch length set explicitly from the tree's own nodes
    (so a zero length is honoured instead of being replaced by default_length)"""
    from cogent3 import make_aligned_seqs

    model = prob["model"]
    kw = {"gc": prob["gc"]} if prob.get("gc", 1) != 1 else {}
    sm = M.make_model(model, **kw)
    lf = sm.make_likelihood_function(t, **({"expm": prob["expm"]} if prob.get("expm") else {}))
    lf.set_alignment(make_aligned_seqs(prob["aln"], moltype=M.moltype_of(model)))
    if prob.get("mprobs") is not None:
        lf.set_motif_probs(prob["mprobs"])
    for p_, v in prob["params"].items():
        lf.set_param_rule(p_, init=v)
    if explicit_lengths:
        for node in t.get_edge_vector(include_root=False):
            if node.length is not None:
                lf.set_param_rule("length", edge=node.name, init=float(node.length))
    return lf


def relate_library_tree_ops(res, rng, model):
    """the library's own tree transformations (re-rooting, unrooting, midpoint rooting, sorting, copying) applied
    to the tree of a likelihood problem must not change lnL (reversible models; child order/copy for all)"""
    from cogent3 import make_tree

    big = M.kind_of(model) in ("codon", "protein")
    prob = M.gen_problem(rng, model, ntips=rng.randint(4, 5 if big else 7), ncols=rng.randint(3, 6 if big else 20), ambig=rng.choice([0.0, 0.15]), scoped=False, bins=1, zero_frac=0.0, polytomy=0.2, expm_setting=None if model in M.SOLVED else rng.choice([None, None, "eigen", "pade", "either"]))
    prob["mprobs"] = prob["mprobs"] if "positions" not in (prob["mprobs"] or {}) else None
    dyadic = rng.random() < 0.6  # exact ties for midpoint rooting
    for e in M.edges(prob["tree"]):
        e["length"] = rng.choice([0.0625, 0.125, 0.25, 0.5, 1.0]) if dyadic else round(rng.uniform(0.01, 1.5), 4)
    rooted2 = len(prob["tree"]["children"]) == 2
    if rooted2 and rng.random() < 0.4:
        rng.choice(prob["tree"]["children"])["length"] = 0.0  # outgroup convention: a zero-length root child
    nw = M.newick(prob["tree"])
    rc = {"kind": "library", "model": model, "prob": prob}
    try:
        t0 = make_tree(nw)
        base = float(lf_from_library_tree(prob, t0).lnL)
    except Exception as e:  # noqa: BLE001
        res.evals += 1
        res.witness(exc_mechanism("C11/library-tree/base-evaluation", e), tree=nw, replay_case=rc)
        return
    nstates = {"nuc": 4, "protein": 20, "codon": 61, "dinuc": 16}[M.kind_of(model)]
    rtol = 1e-9 if nstates <= 16 else 1e-6  # 61-state P matrices from the eigen path are good to ~1e-9 absolute; short branches make columns depend on entries ~1e-5
    names = M.tips(prob["tree"])
    internal = [e["name"] for e in M.edges(prob["tree"]) if e["children"]]
    all_positive = all(e["length"] > 0 for e in M.edges(prob["tree"]))
    base_tree = float(lf_from_library_tree(prob, make_tree(nw), explicit_lengths=False).lnL) if all_positive else None
    ops = [("copy", lambda t: t.copy()), ("deepcopy", lambda t: t.deepcopy()), ("sorted", lambda t: t.sorted())]
    if model in M.REVERSIBLE:
        ops += [("unrooted", lambda t: t.unrooted()), ("unrooted_deepcopy", lambda t: t.unrooted_deepcopy()), ("root_at_midpoint", lambda t: t.root_at_midpoint())]
        ops += [(f"rooted_with_tip", lambda t, n=n: t.rooted_with_tip(n)) for n in rng.sample(names, min(2, len(names)))]
        ops += [(f"rooted_at", lambda t, n=n: t.rooted_at(n)) for n in rng.sample(internal, min(2, len(internal)))]
        ops += [("midpoint-of-unrooted", lambda t: t.unrooted().root_at_midpoint())]
    for opname, f in ops:
        try:
            t2 = f(make_tree(nw))
            got = float(lf_from_library_tree(prob, t2).lnL)
        except Exception as e:  # noqa: BLE001
            res.evals += 1
            res.witness(exc_mechanism(f"C11/library-tree/{opname}", e), model=model, tree=nw, replay_case=rc)
            continue
        res.evals += 1
        res.count("relation:library-" + opname)
        if not (abs(got - base) <= rtol * max(1.0, abs(base)) or (np.isinf(got) and np.isinf(base))):
            res.witness(f"C11/library-tree/{opname}/lnL-changes", model=model, got=got, exp=base, tree=nw, transformed=t2.get_newick(with_distances=True), zero_length_root_child=any(c["length"] == 0 for c in prob["tree"]["children"]), replay_case=rc)
        if all_positive:
            # the way users do it: lengths taken from the tree by make_likelihood_function. A transformation of a tree
            # with positive lengths has no business introducing zero-length edges (which the function would replace by
            # default_length), so this must agree as well
            try:
                got2 = float(lf_from_library_tree(prob, t2, explicit_lengths=False).lnL)
                res.evals += 1
                res.count("relation:library-lengths-from-tree")
                if not abs(got2 - base_tree) <= rtol * max(1.0, abs(base_tree)):
                    res.witness(f"C11/library-tree/{opname}/lnL-changes-with-lengths-taken-from-tree", model=model, got=got2, exp=base_tree, tree=nw, transformed=t2.get_newick(with_distances=True), replay_case=rc)
            except Exception as e:  # noqa: BLE001
                res.evals += 1
                res.witness(exc_mechanism(f"C11/library-tree/{opname}/lengths-from-tree", e), model=model, tree=nw, replay_case=rc)
        if len(names) >= 4:
            res.sig(model, "library-" + opname, M.shape_class(prob["tree"]), "dyadic" if dyadic else "real")
    res.count("library-problems")


def run_case(case):
    res = Result()
    if case["kind"] == "library":
        if "prob" in case:
            # replay: re-run the relations on the recorded problem's model with a fixed generator
            relate_library_tree_ops(res, random.Random(case.get("seed", 0)), case["model"])
        else:
            rng = random.Random(case["seed"])
            for _ in range(case["n"]):
                relate_library_tree_ops(res, rng, case["model"])
        return res
    if case["kind"] == "many-patterns":
        relate_many_patterns(res, random.Random(case["seed"]))
        return res
    if case["kind"] == "one":
        relate(res, case["prob"], random.Random(case.get("seed", 0)), only=case.get("relation"))
        return res
    rng = random.Random(case["seed"])
    model = case["model"]
    for i in range(case["n"]):
        big = M.kind_of(model) in ("codon", "protein")
        bins = rng.choice([1, 1, 1, 3]) if M.kind_of(model) == "nuc" else 1
        prob = M.gen_problem(
            rng, model, ntips=rng.randint(4, 5 if big else 7), ncols=rng.randint(3, 8 if big else 25),
            ambig=rng.choice([0.0, 0.15]), scoped=rng.random() < 0.4, bins=bins, zero_frac=0.0,
            expm_setting=None if model in M.SOLVED else rng.choice([None, None, "eigen", "pade", "either"]),
        )
        if prob.get("expm"):
            res.count("expm-setting:" + prob["expm"])
        # G: keep every transition probability well above rounding level
        for e in M.edges(prob["tree"]):
            e["length"] = round(rng.uniform(0.01, 1.5), 4)
        relate(res, prob, rng)
        if i % 2 == 1 and prob.get("mprobs") is not None and "positions" not in prob["mprobs"]:
            # the default route: motif probabilities estimated from the alignment itself (ambiguity codes and gaps in
            # the data); every relation that keeps the composition of the data must still hold
            p2 = copy.deepcopy(prob)
            p2["mprobs"] = None
            p2["mprobs_from_alignment"] = True
            if not M.has_ambiguity(p2):
                amb = "X" if M.kind_of(model) == "protein" else rng.choice("NRY")
                nm0 = sorted(p2["aln"])[0]
                ml_ = {"nuc": 1, "protein": 1, "codon": 3, "dinuc": 2}[M.kind_of(model)]
                k0 = ml_ * rng.randrange(len(p2["aln"][nm0]) // ml_)
                p2["aln"][nm0] = p2["aln"][nm0][:k0] + amb + p2["aln"][nm0][k0 + 1 :]
            res.count("motif-probs-from-alignment")
            relate(res, p2, rng)
        if i == 0:
            res.sample({"model": model, "tree": M.newick(prob["tree"]), "aln": prob["aln"], "params": prob["params"], "edge_params": prob["edge_params"]})
    return res


class _SkipRelation(Exception):
    pass


def relate(res, prob, rng, only=None):
    model = prob["model"]
    kind = M.kind_of(model)
    ml = {"nuc": 1, "protein": 1, "codon": 3, "dinuc": 2}[kind]
    nstates = {"nuc": 4, "protein": 20, "codon": 61, "dinuc": 16}[kind]
    rtol = 1e-9 if nstates <= 16 else 1e-6  # 61-state P matrices from the eigen path are good to ~1e-9 absolute; short branches make columns depend on entries ~1e-5
    seed = rng.randrange(2**32)
    rng = random.Random(seed)
    try:
        base = lnL_of(prob)
    except Exception as e:  # noqa: BLE001
        res.evals += 1
        res.witness(exc_mechanism("C11/base-evaluation", e), replay_case={"kind": "one", "prob": prob, "seed": seed})
        return
    names = list(prob["aln"])
    L = len(prob["aln"][names[0]]) // ml
    cols = [tuple(prob["aln"][n][c * ml : (c + 1) * ml] for n in names) for c in range(L)]
    ncols_distinct = len(set(cols))
    tree = prob["tree"]
    ntips = len(names)
    scoped = "scoped" if prob.get("edge_params") else "global"
    shape = M.shape_class(tree)

    def check(relation, new_prob, factor=1.0, expected=None, nontrivial=True):
        if only and relation != only:
            return
        rc = {"kind": "one", "prob": prob, "seed": seed, "relation": relation}
        try:
            got = lnL_of(new_prob)
        except Exception as e:  # noqa: BLE001
            res.evals += 1
            res.witness(exc_mechanism(f"C11/{relation}", e), model=model, replay_case=rc, transformed_tree=M.newick(new_prob["tree"]))
            return
        exp = base * factor if expected is None else expected
        res.evals += 1
        res.count("relation:" + relation)
        ok = (np.isinf(got) and np.isinf(exp)) or abs(got - exp) <= rtol * max(1.0, abs(exp))
        if not ok:
            res.witness(f"C11/{relation}/{'reversible' if model in M.REVERSIBLE else 'non-reversible'}-{kind}", model=model, got=got, exp=exp, scoped=scoped, transformed_tree=M.newick(new_prob["tree"]), transformed_aln=new_prob["aln"], replay_case=rc)
        if nontrivial and ntips >= 4 and ncols_distinct >= 2:
            res.sig(model, relation, shape, scoped)

    def with_aln(aln):
        p = copy.deepcopy(prob)
        p["aln"] = aln
        return p

    def with_tree(t, p=None):
        p = copy.deepcopy(p or prob)
        p["tree"] = strip(t)
        return p

    # 1 column permutation
    perm = list(range(L))
    rng.shuffle(perm)
    check("column-permutation", with_aln({n: "".join(s[i * ml : (i + 1) * ml] for i in perm) for n, s in prob["aln"].items()}), nontrivial=perm != sorted(perm))
    # 2 row order
    order = names[:]
    rng.shuffle(order)
    check("row-order", with_aln({n: prob["aln"][n] for n in order}), nontrivial=order != names)
    # 3 child order
    check("child-order", with_tree(shuffle_children(tree, rng)))
    # 4 repeat every column k times
    # (with motif probabilities estimated from the data a pseudocount of 0.5 is added whenever some motif is absent -
    # documented - so multiplying the data changes the estimate: not demanded there)
    for k in () if prob.get("mprobs_from_alignment") else (2, 3):
        check(f"repeat-columns-x{k}", with_aln({n: "".join(s[i * ml : (i + 1) * ml] * k for i in range(L)) for n, s in prob["aln"].items()}), factor=k)
    # 5 additivity over concatenation: A + (subset of A's columns, so identical columns are merged internally)
    sub = [rng.randrange(L) for _ in range(rng.randint(1, max(1, L)))]
    sub_aln = {n: "".join(s[i * ml : (i + 1) * ml] for i in sub) for n, s in prob["aln"].items()}
    try:
        if prob.get("mprobs_from_alignment"):
            raise _SkipRelation  # the estimated motif probabilities change with the composition of the data
        sub_lnL = lnL_of(with_aln(sub_aln))
        check("concatenation-additivity", with_aln({n: prob["aln"][n] + sub_aln[n] for n in names}), expected=base + sub_lnL)
    except _SkipRelation:
        pass
    except Exception as e:  # noqa: BLE001
        res.evals += 1
        res.witness(exc_mechanism("C11/concatenation-additivity", e), model=model, replay_case={"kind": "one", "prob": prob, "seed": seed})
    # 6 re-rooting (reversible models)
    if model in M.REVERSIBLE:
        rooted2 = len(tree["children"]) == 2
        root_edges = [c["name"] for c in tree["children"]]
        scoped_edges = {e for groups in prob.get("edge_params", {}).values() for g, _ in groups for e in g}
        internal = [e["name"] for e in M.edges(tree) if e["children"]]
        # G: on a rooted tree the two root edges become one edge after re-rooting; that is only the same model if no
        # scope separates them
        safe = not (rooted2 and (set(root_edges) & scoped_edges))
        if safe:
            for nm in internal:
                t2 = reroot_at(tree, nm)
                p2 = copy.deepcopy(prob)
                for a, b in merged_pairs(t2):
                    pass
                check("reroot-at-internal-node", with_tree(t2, p2))
            e = rng.choice(M.edges(tree))
            if not (rooted2 and e["name"] in root_edges and False):
                t3 = reroot_on_edge(tree, e["name"], rng.choice([0.25, 0.5, 0.9]))
                p3 = with_edge_alias(prob, e["name"], e["name"] + "_b")
                check("reroot-on-edge", with_tree(t3, p3))
        else:
            res.count("reroot-skipped(scoped-root-edges)")
    # 7 edge split (time-homogeneous: the split halves share the edge's parameters)
    e = rng.choice(M.edges(tree))
    t4 = split_edge(tree, e["name"], rng.choice([0.2, 0.5, 0.7]))
    p4 = with_edge_alias(prob, e["name"], e["name"] + "_b")
    check("edge-split", with_tree(t4, p4))
    res.count("problems")
    res.count("model:" + model)


def required(counters, tier):
    need = ["patterns-below-one-node>32767", "relation:column-permutation", "relation:row-order", "relation:child-order", "relation:repeat-columns-x2", "relation:repeat-columns-x3", "relation:concatenation-additivity", "relation:reroot-at-internal-node", "relation:reroot-on-edge", "relation:edge-split", "relation:library-unrooted", "relation:library-root_at_midpoint", "relation:library-rooted_at", "relation:library-rooted_with_tip", "relation:library-sorted"]
    return [n for n in need if not counters.get(n)]
