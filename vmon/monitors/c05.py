"""C05 — substitution processes are valid, calibrated Markov processes.

Pure algebraic invariants on what the real likelihood function / model reports (Q, P, motif probs, bin rates), plus
agreement of every exponentiation back-end with scipy.  No model of cogent3 is needed: the oracle is linear algebra.
"""

import itertools
import math
import random

import numpy as np

from vmon.core import Result, exc_mechanism
from vmon.models import lfmodel as M

ID = "C05"
LEVEL = "exploration"
RULE = (
    "for every continuous-time model (named nucleotide/codon/protein models and user-built dinucleotide predicate "
    "models) x seeded parameter draws within the declared bounds (log-uniform, incl. values at 1e-6/1e6 and near-equal "
    "frequencies) x every edge and rate bin x branch lengths {0, 1e-6 .. 10} x expm settings: Q row sums, sign, "
    "calibration at the model's word probabilities, bin-rate average, P row-stochastic, P(0)=I, "
    "P(s+t)=P(s)P(t), all back-ends (lf settings eigen/checked/pade/either; Fast/Checked/Pade/Taylor/Robust/"
    "SemiSymmetric exponentiator classes) against scipy expm, stationarity and detailed balance. Non-trivial = "
    "non-uniform motif probs and >=1 non-unit rate parameter; distinct = (model, expm setting, decade of the "
    "eigenvector-matrix condition number)."
)
LEVEL_TEXT = (
    "Algebraic invariants of Markov generators/transition matrices are evaluated on every Q and P the real likelihood "
    "function reports across a seeded sweep of models, parameters, lengths and expm settings, and every exponentiator "
    "is compared with scipy on the same matrices, including adversarial (near-defective, badly scaled) ones."
    " User-built nucleotide predicate models (directed, undirected and named predicates in every order) are rebuilt from their definition; acceptance and Q must not depend on predicate order and whatever is accepted as time-reversible must satisfy detailed balance."
    " GeneralStationary parameter vectors must be refused or give a valid generator; rates partitioned across bins without a distribution, and the ordered 'free' distribution, are checked with unequal bin probabilities; Q and the exponentiator of the sequence-alignment route (aligned=False) and the per-bin table of uncalibrated matrices are compared with the definition."
)
LEVEL_NOTE = "trusted: numpy/scipy linear algebra. Sampled parameter space; held = held on the matrices listed in the evidence"
TECHNIQUE = "runtime monitoring: algebraic invariants on observed Q/P matrices + differential check of expm back-ends vs scipy"
ASSUMPTIONS = ["scipy.linalg.expm is the reference exponential", "tolerances: 1e-8 on P entries, 1e-9 relative on Q row sums"]
ENV = {"NUMBA_BOUNDSCHECK": "1"}
TIMEOUT = {"quick": 1200, "thorough": 7200}

ALL_MODELS = M.NUC_REV + M.NUC_NS + M.SOLVED + M.CODON + M.USERCODON + M.PROTEIN + M.DINUC
LENGTHS = [0.0, 1e-6, 1e-3, 0.05, 0.3, 1.0, 3.0, 10.0]


def gen_cases(rng, tier):
    cases = []
    draws = 2 if tier == "quick" else 40
    for model in ALL_MODELS:
        for _ in range(draws):
            cases.append({"kind": "lf", "model": model, "seed": rng.randrange(2**32), "n": 2 if M.kind_of(model) != "nuc" else 5})
    nup = 12 if tier == "quick" else 300
    for _ in range(nup):
        cases.append({"kind": "userpred", "seed": rng.randrange(2**32), "n": 10})
    for _ in range(4 if tier == "quick" else 60):
        cases.append({"kind": "special", "seed": rng.randrange(2**32), "n": 25})
    nadv = 16 if tier == "quick" else 800
    for _ in range(nadv):
        cases.append({"kind": "adversarial", "seed": rng.randrange(2**32), "n": 12})
    return cases


def cond_bucket(Q):
    try:
        w, v = np.linalg.eig(Q)
        c = np.linalg.cond(v)
        return int(min(16, math.floor(math.log10(max(c, 1.0)))))
    except Exception:  # noqa: BLE001
        return -1


def check_Q(res, tag, Q, wp, model, detail):
    n = len(Q)
    scale = max(1.0, np.abs(Q).max())
    res.evals += 1
    res.count("Q-checked")
    if np.abs(Q.sum(axis=1)).max() > 1e-9 * scale:
        res.witness(f"C05/Q-row-sums-nonzero/{tag}", model=model, maxrow=float(np.abs(Q.sum(axis=1)).max()), **detail)
    off = Q - np.diag(np.diag(Q))
    if off.min() < 0:
        res.witness(f"C05/Q-negative-off-diagonal/{tag}", model=model, minimum=float(off.min()), **detail)
    if wp is not None:
        rate = -(wp * np.diag(Q)).sum()
        if abs(rate - 1.0) > 1e-8:
            res.witness(f"C05/Q-not-calibrated/{tag}", model=model, expected_rate=float(rate), **detail)


def check_P(res, tag, P, model, detail):
    res.evals += 1
    res.count("P-checked")
    if P.min() < -1e-12:
        res.witness(f"C05/P-negative/{tag}", model=model, minimum=float(P.min()), **detail)
    if np.abs(P.sum(axis=1) - 1).max() > 1e-9:
        res.witness(f"C05/P-rows-not-stochastic/{tag}", model=model, maxdev=float(np.abs(P.sum(axis=1) - 1).max()), **detail)


def word_probs(model, states, mprobs):
    if M.mprob_kind(model) == "monomer":
        wp = np.array([np.prod([mprobs[ch] for ch in s]) for s in states])
        return wp / wp.sum()
    if M.mprob_kind(model) == "fixed-equal":
        return np.ones(len(states)) / len(states)
    return np.array([mprobs[s] for s in states])


def decide_lf(res, prob, rng):
    model = prob["model"]
    rc = {"kind": "one", "prob": prob}
    fam = M.kind_of(model)
    try:
        lf = M.build_lf(prob)
    except Exception as e:  # noqa: BLE001
        res.evals += 1
        res.witness(exc_mechanism(f"C05/build/{fam}", e), model=model, replay_case=rc)
        return
    sm = lf.model
    states = [str(s) for s in sm.get_alphabet()]
    if M.mprob_kind(model) == "monomers":
        monos = prob["mprobs"]["positions"]  # position-specific: the values the harness set
        wp = np.array([np.prod([monos[p_][ch] for p_, ch in enumerate(st)]) for st in states])
        wp = wp / wp.sum()
    else:
        mp = lf.get_motif_probs()
        mp = {str(k): float(mp[k]) for k in mp.keys()}
        wp = word_probs(model, states, mp)
    bins = prob.get("bins", 1)
    bin_names = (prob.get("bin_names") or [f"bin{i}" for i in range(bins)]) if bins > 1 else [None]
    if bins > 1:
        bprobs = np.array(lf.get_param_value("bprobs"), dtype=float)
        rates = np.array([lf.get_param_value("rate", bin=b) for b in bin_names], dtype=float)
        res.evals += 1
        res.count("bin-rates-checked")
        if abs((bprobs * rates).sum() - 1) > 1e-9 or abs(bprobs.sum() - 1) > 1e-9 or rates.min() <= 0:
            res.witness("C05/bin-rates-do-not-average-to-one", model=model, bprobs=bprobs, rates=rates, replay_case=rc)
    else:
        rates = np.array([1.0])
    nonunit = any(abs(v - 1) > 1e-6 for v in prob["params"].values()) or fam == "protein"
    nonuniform = prob["mprobs"] is not None
    enodes = M.edges(prob["tree"])
    esel = enodes if len(enodes) <= 4 else rng.sample(enodes, 4)
    solved = model in M.SOLVED
    setting = "closed-form" if solved else (prob.get("expm") or "either")
    for e in esel:
        nm = e["name"]
        detail = {"edge": nm, "replay_case": rc}
        if solved:
            # closed-form P (rate_matrix_required=False): the function reports no Q; the generator it must correspond
            # to is rebuilt from the published definition by the harness
            Q, _wp = M.build_Q(model, states, M.edge_param_values(prob, nm), prob["mprobs"], sm=sm)
            res.count("solved-model-edges")
        else:
            try:
                Q = lf.get_rate_matrix_for_edge(nm, calibrated=True).to_array()
            except Exception as ex:  # noqa: BLE001
                res.evals += 1
                res.witness(exc_mechanism("C05/get_rate_matrix_for_edge", ex), model=model, replay_case=rc)
                continue
            check_Q(res, fam, Q, wp, model, detail)
            # uncalibrated = Q * length
            Qt = lf.get_rate_matrix_for_edge(nm, calibrated=False).to_array()
            res.evals += 1
            if not np.allclose(Qt, Q * e["length"], rtol=1e-9, atol=1e-12):
                res.witness("C05/uncalibrated-Q-is-not-Q-times-length", model=model, **detail)
        if nonuniform and nonunit:
            res.sig(model, setting, f"cond1e{cond_bucket(Q)}")
        # stationarity / reversibility of the generator
        if model in M.STATIONARY:
            res.evals += 1
            res.count("stationarity-checked")
            if np.abs(wp @ Q).max() > 1e-9:
                res.witness(f"C05/motif-probs-not-stationary/{fam}", model=model, maxdev=float(np.abs(wp @ Q).max()), **detail)
            F = wp[:, None] * Q
            if model in M.REVERSIBLE and np.abs(F - F.T).max() > 1e-9:
                res.witness(f"C05/detailed-balance-broken/{fam}", model=model, maxdev=float(np.abs(F - F.T).max()), **detail)
        # P at the edge's own length, per bin
        for b, bn in enumerate(bin_names):
            kw = {"bin": bn} if bn else {}
            P = lf.get_psub_for_edge(nm, **kw).to_array()
            check_P(res, fam, P, model, dict(detail, bin=b))
            ref = M.expm(Q, e["length"] * rates[b])
            res.evals += 1
            res.count(f"backend:lf-{setting}")
            if np.abs(P - ref).max() > 1e-8:
                res.witness(f"C05/P-differs-from-expm/lf-{setting}", model=model, maxdiff=float(np.abs(P - ref).max()), bin=b, length=e["length"], **detail)
            if model in M.STATIONARY:
                res.evals += 1
                if np.abs(wp @ P - wp).max() > 1e-9:
                    res.witness(f"C05/motif-probs-not-stationary-under-P/{fam}", model=model, **detail)
                F = wp[:, None] * P
                if np.abs(F - F.T).max() > 1e-9:
                    res.witness(f"C05/detailed-balance-broken-under-P/{fam}", model=model, **detail)
    if bins > 1 and not solved and M.rate_param_names(model):
        # (closed-form models report no Q; for parameter-free models the table accessor raises ValueError because Q has
        # no bin dimension there - DESIGN 7.4, not a statement of this property)
        # the whole table of uncalibrated matrices: entry (bin, edge) is the calibrated Q of that edge times the edge's
        # length times THAT bin's rate, and its exponential is the P the function uses for that bin and edge
        try:
            table = lf.get_all_rate_matrices(calibrated=False)
        except Exception as ex:  # noqa: BLE001
            res.evals += 1
            res.witness(exc_mechanism("C05/get_all_rate_matrices", ex), model=model, replay_case=rc)
            table = {}
        enames_ = {e["name"]: e for e in enodes}
        named = "default-names" if not prob.get("bin_names") else "user-names"
        for key, qd in table.items():
            key = tuple(str(k) for k in (key if isinstance(key, tuple) else (key,)))
            b_ = [k for k in key if k in bin_names]
            e_ = [k for k in key if k in enames_]
            if len(b_) != 1 or len(e_) != 1:
                continue
            Qcal = lf.get_rate_matrix_for_edge(e_[0], calibrated=True).to_array()
            exp_ = Qcal * enames_[e_[0]]["length"] * rates[bin_names.index(b_[0])]
            got_ = qd.to_array()
            res.evals += 1
            res.count("uncalibrated-table-entry-checked")
            res.count("uncalibrated-table:" + named + (":11+bins" if bins > 10 else ""))
            if not np.allclose(got_, exp_, rtol=1e-9, atol=1e-12):
                res.witness(f"C05/uncalibrated-Q-table/entry-is-not-Q-times-length-times-its-bins-rate/{named}", model=model, bin=b_[0], edge=e_[0], maxdiff=float(np.abs(got_ - exp_).max()), replay_case=rc)
                break
            P_ = lf.get_psub_for_edge(e_[0], bin=b_[0]).to_array()
            if np.abs(M.expm(got_, 1.0) - P_).max() > 1e-8:
                res.witness(f"C05/uncalibrated-Q-table/exponential-is-not-the-bins-P/{named}", model=model, bin=b_[0], edge=e_[0], replay_case=rc)
                break
    # length sweep on one edge through the lf (P(0)=I, semigroup)
    e = rng.choice(enodes)
    nm = e["name"]
    if solved:
        Q, _wp = M.build_Q(model, states, M.edge_param_values(prob, nm), prob["mprobs"], sm=sm)
    else:
        Q = lf.get_rate_matrix_for_edge(nm, calibrated=True).to_array()
    Ps = {}
    # the other edges' matrices must not move when this edge's length changes
    others_before = {o["name"]: lf.get_psub_for_edge(o["name"], **({"bin": bin_names[0]} if bin_names[0] else {})).to_array().copy() for o in enodes if o["name"] != nm}
    for t in LENGTHS:
        try:
            lf.set_param_rule("length", edge=nm, init=t)
            kw = {"bin": bin_names[0]} if bin_names[0] else {}
            Ps[t] = lf.get_psub_for_edge(nm, **kw).to_array()
        except Exception as ex:  # noqa: BLE001
            res.evals += 1
            res.witness(exc_mechanism("C05/set-length", ex), model=model, length=t, replay_case=rc)
            continue
        check_P(res, fam, Ps[t], model, {"edge": nm, "length": t, "replay_case": rc})
        ref = M.expm(Q, t * rates[0])
        res.evals += 1
        if np.abs(Ps[t] - ref).max() > 1e-8:
            res.witness(f"C05/P-differs-from-expm/lf-{setting}", model=model, maxdiff=float(np.abs(Ps[t] - ref).max()), length=t, edge=nm, replay_case=rc)
    for onm, before in others_before.items():
        now = lf.get_psub_for_edge(onm, **({"bin": bin_names[0]} if bin_names[0] else {})).to_array()
        res.evals += 1
        res.count("other-edges-unchanged-checked")
        if np.abs(now - before).max() > 1e-12:
            res.witness("C05/changing-one-edge-length-changes-another-edges-P", model=model, changed=nm, other=onm, maxdiff=float(np.abs(now - before).max()), replay_case=rc)
            break
    if 0.0 in Ps:
        res.evals += 1
        res.count("P(0)=I-checked")
        if np.abs(Ps[0.0] - np.eye(len(Q))).max() > 1e-10:
            res.witness("C05/P-at-zero-length-not-identity", model=model, maxdev=float(np.abs(Ps[0.0] - np.eye(len(Q))).max()), replay_case=rc)
    for s_, t_ in ((0.05, 0.3), (0.3, 1.0), (1.0, 3.0)):
        if s_ in Ps and t_ in Ps:
            try:
                lf.set_param_rule("length", edge=nm, init=s_ + t_)
                kw = {"bin": bin_names[0]} if bin_names[0] else {}
                Pst = lf.get_psub_for_edge(nm, **kw).to_array()
            except Exception as ex:  # noqa: BLE001
                res.witness(exc_mechanism("C05/set-length", ex), model=model, replay_case=rc)
                continue
            res.evals += 1
            res.count("semigroup-checked")
            if np.abs(Pst - Ps[s_] @ Ps[t_]).max() > 1e-8:
                res.witness("C05/P-not-multiplicative", model=model, s=s_, t=t_, maxdev=float(np.abs(Pst - Ps[s_] @ Ps[t_]).max()), replay_case=rc)
    # direct exponentiator classes on the lf's Q
    check_backends(res, Q, wp if model in M.REVERSIBLE else None, model, rc, rng)
    res.count("lfs")
    res.count("model:" + model)


def check_backends(res, Q, wp_rev, label, rc, rng, adversarial=False):
    from cogent3.maths import matrix_exponentiation as mx

    ts = [0.0, rng.choice([1e-6, 1e-3]), rng.choice([0.05, 0.3]), rng.choice([1.0, 3.0]), 10.0]
    checked_ok = True
    try:
        mx.CheckedExponentiator(Q)
    except Exception:  # noqa: BLE001
        checked_ok = False
        res.count("checked-exponentiator-raised")
    # first-order accuracy bound of any diagonalisation-based exponential: (relative error with which the
    # decomposition reproduces Q) x ||Qt||. Only granted when the library's own precision test accepts the matrix;
    # when it rejects it, 'checked' must raise and 'either' must have switched to Pade, so no allowance then.
    recon_rel = 0.0
    if checked_ok:
        try:
            r_, v_ = np.linalg.eig(Q)
            recon_rel = float(np.abs(Q - (v_ * r_) @ np.linalg.inv(v_)).max() / max(1.0, np.abs(Q).max()))
        except Exception:  # noqa: BLE001
            recon_rel = 0.0
    backends = [("Fast", mx.FastExponentiator), ("Checked", mx.CheckedExponentiator), ("Pade", mx.PadeExponentiator), ("Taylor", mx.TaylorExponentiator), ("Robust", mx.RobustExponentiator)]
    if wp_rev is not None and wp_rev.min() > 0:
        backends.append(("SemiSymmetric", lambda q: mx.SemiSymmetricExponentiator(wp_rev, q)))
    for name, ctor in backends:
        try:
            ex = ctor(Q)
        except (ArithmeticError, np.linalg.LinAlgError):
            if name in ("Checked", "Fast", "SemiSymmetric"):
                res.refused += 1  # documented: eigen approach declines matrices it cannot diagonalise accurately
                continue
            raise
        for t in ts:
            ref = M.expm(Q, t)
            if name == "Taylor" and np.abs(Q * t).sum(axis=1).max() > 12:
                # G: an unscaled power series cannot be accurate (cancellation) nor is it guaranteed to terminate
                # for large ||Qt||; the class is documented as the last-resort "very slow" method and is not
                # reachable from any expm setting, so large norms are counted as declined, not compared
                res.refused += 1
                res.count("taylor-large-norm-skipped")
                continue
            try:
                P = np.asarray(ex(t))
            except Exception as e:  # noqa: BLE001
                res.evals += 1
                res.witness(exc_mechanism(f"C05/backend-{name}", e), label=label, t=t, replay_case=rc)
                continue
            res.evals += 1
            res.count(f"backend:{name}")
            d = float(np.abs(P - ref).max())
            # G: Taylor stops when numpy.allclose (rtol 1e-5, atol 1e-8) sees no change: its own accuracy contract.
            # G: any exponential of a matrix with ||Qt|| ~ 1e7 (parameters parked at the 1e6 bound) carries absolute
            # rounding error of order eps*||Qt||, scipy's included (Pade and eigen then differ from scipy, and from each
            # other, by ~1e-8): the tolerance grows with the norm
            norm_ = float(np.abs(Q * t).sum(axis=1).max())
            tol = max(1e-8, 1e-13 * norm_)
            if name in ("Fast", "Checked", "SemiSymmetric"):
                tol = max(tol, 10 * recon_rel * norm_)
            if d > (1e-5 if name == "Taylor" else tol):
                if name in ("Fast", "SemiSymmetric") and not checked_ok:
                    res.refused += 1  # G: unchecked eigen back-end on a matrix the checked one rejects
                    continue
                res.witness(f"C05/backend-{name}-differs-from-expm", label=label, t=t, maxdiff=d, cond=cond_bucket(Q), replay_case=rc)
    # the default path ("either"): eigen with precision check, Pade fallback
    from cogent3.evolve.substitution_calculation import ExpDefn

    class _E:  # minimal stand-in for the calculation's input
        pass

    for setting in ("either", "pade", "checked", "eigen"):
        try:
            factory = ExpDefn.calc(None, setting)
            ex = factory(Q)
        except (ArithmeticError, np.linalg.LinAlgError):
            if setting in ("checked", "eigen"):
                res.refused += 1
                continue
            res.evals += 1
            res.witness(f"C05/expm-setting-{setting}-raised", label=label, replay_case=rc)
            continue
        for t in ts:
            ref = M.expm(Q, t)
            P = np.asarray(ex(t))
            res.evals += 1
            res.count(f"setting:{setting}")
            d = float(np.abs(P - ref).max())
            norm_ = float(np.abs(Q * t).sum(axis=1).max())
            tol = max(1e-8, 1e-13 * norm_)
            if setting != "pade":
                tol = max(tol, 10 * recon_rel * norm_)
            if d > tol:
                if setting == "eigen" and not checked_ok:
                    res.refused += 1
                    continue
                res.witness(f"C05/expm-setting-{setting}-differs-from-expm", label=label, t=t, maxdiff=d, cond=cond_bucket(Q), replay_case=rc)
            if adversarial:
                res.sig("adversarial", setting, f"cond1e{cond_bucket(Q)}", label)


def adversarial_Q(rng):
    """Q built by the harness from the published definitions with hostile parameters"""
    model = rng.choice(["HKY85", "TN93", "GTR", "GN", "ssGN", "F81"])
    states = list("TCAG")
    style = rng.choice(["bounds", "equalfreq", "tinyfreq", "mixed", "chain"])
    params = {}
    if style == "chain":
        # nearly defective: a one-way cycle/chain of substitutions, every other rate tiny (all within bounds)
        model = "GN"
        order = rng.sample("ACGT", 4)
        big = {(order[i], order[(i + 1) % 4]) for i in range(3 if rng.random() < 0.7 else 4)}
        tiny = rng.choice([1e-6, 1e-5, 1e-4, 1e-3])
        # T>G is the reference (=1): scale so that the chain rates equal the reference
        for p in M.rate_param_names("GN"):
            f, t = p.split(">")
            params[p] = 1.0 if (f, t) in big else tiny
        if ("T", "G") not in big:
            params = {p: v / tiny for p, v in params.items()}  # reference itself is 'tiny': rescale, stay in bounds
            params = {p: min(1e6, max(1e-6, v)) for p, v in params.items()}
        pi = M.dirichlet(rng, 4)
        Q, wp = M.build_Q(model, states, params, dict(zip(states, pi)))
        return model, style, params, pi, Q
    for p in M.rate_param_names(model):
        if style in ("bounds", "mixed"):
            params[p] = rng.choice([1e-6, 1e-4, 1.0, 1e4, 1e6, math.exp(rng.uniform(-13, 13))])
        else:
            params[p] = math.exp(rng.uniform(-2, 2))
    if style == "equalfreq":
        pi = np.ones(4) / 4
        if rng.random() < 0.5:
            params = {p: 1.0 + rng.choice([0, 1e-9, 1e-12]) for p in params}  # repeated eigenvalues
    elif style in ("tinyfreq", "mixed"):
        pi = np.array([rng.choice([1e-6, 1e-3, 1.0]) * rng.uniform(0.5, 1) for _ in range(4)])
        pi /= pi.sum()
    else:
        pi = M.dirichlet(rng, 4)
    Q, wp = M.build_Q(model, states, params, dict(zip(states, pi)))
    return model, style, params, pi, Q


def run_case(case):
    res = Result()
    kind = case["kind"]
    if kind == "one":
        decide_lf(res, case["prob"], random.Random(0))
        return res
    if kind == "one-adv":
        Q = np.array(case["Q"])
        check_backends(res, Q, None, case["label"], {"kind": "one-adv", "Q": case["Q"], "label": case["label"]}, random.Random(0), adversarial=True)
        return res
    if kind == "special":
        rng = random.Random(case["seed"])
        for _ in range(case["n"]):
            check_general_stationary(res, rng)
            check_partitioned_rate(res, rng)
        return res
    if kind == "one-unaligned":
        check_unaligned_route(res, case["prob"], random.Random(0))
        return res
    if kind == "one-userpred":
        decide_userpred(res, case["spec"])
        return res
    rng = random.Random(case["seed"])
    if kind == "userpred":
        for i in range(case["n"]):
            spec = gen_userpred(rng)
            decide_userpred(res, spec)
            if i == 0:
                res.sample({"user-predicates": spec})
        return res
    if kind == "lf":
        model = case["model"]
        for i in range(case["n"]):
            bins = rng.choice([1, 1, 3, 3, 11]) if M.kind_of(model) == "nuc" and model not in M.SOLVED else (rng.choice([1, 1, 3]) if M.kind_of(model) == "nuc" else 1)
            prob = M.gen_problem(rng, model, ntips=rng.randint(3, 4), ncols=3, ambig=0.0, scoped=rng.random() < 0.4, bins=bins, expm_setting=None if model in M.SOLVED else rng.choice([None, "eigen", "checked", "pade", "either"]), zero_frac=0.15)
            if rng.random() < 0.3:
                prob["params"] = M.random_params(rng, model, wide=True)
            if bins == 3 and i % 2 == 1:
                prob["bin_names"] = ["slow", "medium", "fast"]  # declared order differs from sorted order
            decide_lf(res, prob, rng)
            if i == 0:
                check_unaligned_route(res, prob, rng)
            if i == 0:
                res.sample({"model": model, "params": prob["params"], "edge_params": prob["edge_params"], "mprobs": prob["mprobs"], "expm": prob.get("expm")})
    elif kind == "adversarial":
        for i in range(case["n"]):
            model, style, params, pi, Q = adversarial_Q(rng)
            label = f"{model}/{style}"
            rc = {"kind": "one-adv", "Q": Q.tolist(), "label": label}
            check_Q(res, "harness-built", Q, pi if model not in ("JC69", "K80") else None, model, {"replay_case": rc})
            check_backends(res, Q, pi if model in M.REVERSIBLE else None, label, rc, rng, adversarial=True)
            res.count("adversarial-Q")
            if i == 0:
                res.sample({"adversarial": label, "params": params, "pi": pi.tolist()})
    return res


# ---------------------------------------------------------------------------
# two members of the family the catalogue above does not reach


_GS = {}


def check_general_stationary(res, rng):
    """GS (non-reversible but stationary): a parameter vector is either refused (the stationarity constraint cannot be
    met with non-negative rates) or gives a valid, calibrated generator with the motif probabilities stationary"""
    from cogent3 import DNA
    from cogent3.evolve.ns_substitution_model import GeneralStationary
    from cogent3.maths.optimisers import ParameterOutOfBoundsError

    sm = _GS.get("sm") or _GS.setdefault("sm", GeneralStationary(DNA.alphabet))
    states = [str(x) for x in sm.get_alphabet()]
    pi = np.array(M.dirichlet(rng, 4), dtype=float)
    names = list(sm.parameter_order)
    vals = [round(math.exp(rng.uniform(math.log(0.05), math.log(8.0))), 4) for _ in names]
    rc = {"kind": "one-gs", "pi": pi.tolist(), "params": dict(zip(names, vals))}
    try:
        Q = np.array(sm.calcQ(pi, pi, *vals), dtype=float)
    except ParameterOutOfBoundsError:
        res.refused += 1
        res.count("GS:refused")
        return
    except Exception as ex:  # noqa: BLE001
        res.evals += 1
        res.witness(exc_mechanism("C05/GS/calcQ", ex), replay_case=rc)
        return
    res.count("GS:accepted")
    check_Q(res, "GS", Q, pi, "GS", {"replay_case": rc})
    res.evals += 1
    if np.abs(pi @ Q).max() > 1e-9:
        res.witness("C05/motif-probs-not-stationary/GS", maxdev=float(np.abs(pi @ Q).max()), replay_case=rc)
    check_P(res, "GS", M.expm(Q, 0.3), "GS", {"replay_case": rc})
    res.sig("GS", "accepted", cond_bucket(Q))


def check_partitioned_rate(res, rng):
    """'rate' partitioned across bins without being the ordered parameter (no distribution): whatever partition and bin
    probabilities are set, the multipliers must have bprobs-weighted mean one"""
    from cogent3 import make_aligned_seqs, make_tree
    from cogent3.evolve.substitution_model import TimeReversibleNucleotide

    nb = rng.choice([2, 3, 4])
    bins = [f"b{i}" for i in range(nb)]
    bp = np.array(M.dirichlet(rng, nb, 0.1), dtype=float)
    part = np.array(M.dirichlet(rng, nb, 0.05), dtype=float)
    rc = {"kind": "one-partrate", "bins": bins, "bprobs": bp.tolist(), "partition": part.tolist()}
    try:
        sm = TimeReversibleNucleotide(predicates=["kappa"], partitioned_params="rate")
        lf = sm.make_likelihood_function(make_tree("(a:0.2,b:0.2,c:0.2)"), bins=bins)
        lf.set_alignment(make_aligned_seqs({"a": "ACGTACGTTAGGCC", "b": "ACGTACGCTAGGCT", "c": "ACATACGCTAGACT"}, moltype="dna"))
        lf.set_param_rule("bprobs", init=bp)
        lf.set_param_rule("rate_partn_partition", init=part)
        float(lf.lnL)
        got_bp = np.array(lf.get_param_value("bprobs"), dtype=float)
        rates = np.array([lf.get_param_value("rate", bin=b) for b in bins], dtype=float)
    except Exception as ex:  # noqa: BLE001
        res.evals += 1
        res.witness(exc_mechanism("C05/partitioned-rate/build-or-read", ex), replay_case=rc)
        return
    res.evals += 1
    res.count("partitioned-rate-checked")
    if abs((got_bp * rates).sum() - 1) > 1e-9 or rates.min() < 0:
        res.witness("C05/bin-rates-do-not-average-to-one/partitioned-rate-without-distribution", bprobs=got_bp, rates=rates, replay_case=rc)
    res.sig("partitioned-rate", nb)
    # the ordered 'free' (monotonic) rate distribution with the same unequal bin probabilities
    rc2 = {"kind": "one-freerate", "bins": bins, "bprobs": bp.tolist()}
    try:
        sm2 = TimeReversibleNucleotide(predicates=["kappa"], ordered_param="rate", distribution="free")
        lf2 = sm2.make_likelihood_function(make_tree("(a:0.2,b:0.2,c:0.2)"), bins=bins)
        lf2.set_param_rule("bprobs", init=bp)
        got_bp2 = np.array(lf2.get_param_value("bprobs"), dtype=float)
        rates2 = np.array([lf2.get_param_value("rate", bin=b) for b in bins], dtype=float)
    except Exception as ex:  # noqa: BLE001
        res.evals += 1
        res.witness(exc_mechanism("C05/free-rate-distribution/build-or-read", ex), replay_case=rc2)
        return
    res.evals += 1
    res.count("free-rate-distribution-checked")
    if abs((got_bp2 * rates2).sum() - 1) > 1e-9 or rates2.min() < 0 or (np.diff(rates2) < -1e-12).any():
        res.witness("C05/bin-rates-do-not-average-to-one/free-distribution", bprobs=got_bp2, rates=rates2, replay_case=rc2)


# ---------------------------------------------------------------------------
# the sequence-alignment route (aligned=False): the pair-HMM aligners take Q and the exponentiator from here


def check_unaligned_route(res, prob, rng):
    from cogent3 import make_tree, make_unaligned_seqs

    model = prob["model"]
    if model in M.SOLVED or prob.get("edge_params") or prob.get("bins", 1) > 1 or (prob.get("mprobs") and "positions" in prob["mprobs"]):
        return
    rc = {"kind": "one-unaligned", "prob": prob}
    names = sorted(prob["aln"])[:2]
    t = round(rng.uniform(0.05, 1.0), 4)
    try:
        sm = M.make_model(model, **({"gc": prob["gc"]} if prob.get("gc", 1) != 1 else {}))
        lf = sm.make_likelihood_function(make_tree(f"({names[0]}:{t},{names[1]}:{t})"), aligned=False)
        lf.set_sequences(make_unaligned_seqs({n: prob["aln"][n].replace("-", "") for n in names}, moltype=M.moltype_of(model)))
        if prob.get("mprobs") is not None:
            lf.set_motif_probs(prob["mprobs"])
        for p_, v in prob["params"].items():
            lf.set_param_rule(p_, init=v)
        Q = np.array(lf.get_param_value("Q"), dtype=float)
        P = np.array(lf.get_param_value("Qd")(t), dtype=float)
    except Exception as ex:  # noqa: BLE001
        res.evals += 1
        res.witness(exc_mechanism("C05/unaligned-route/build-or-read", ex), model=model, replay_case=rc)
        return
    states = [str(x) for x in sm.get_alphabet()]
    own, wp = M.build_Q(model, states, prob["params"], prob["mprobs"], sm=sm, gc=prob.get("gc", 1))
    fam = M.kind_of(model)
    check_Q(res, "unaligned-route/" + fam, Q, wp, model, {"replay_case": rc})
    res.evals += 1
    res.count("unaligned-route-checked")
    res.count("unaligned-route:" + M.mprob_kind(model))
    if np.abs(Q - own).max() > 1e-8:
        res.witness(f"C05/unaligned-route/Q-differs-from-definition/{fam}", model=model, maxdiff=float(np.abs(Q - own).max()), replay_case=rc)
    ref = M.expm(own, t)
    if np.abs(P - ref).max() > 1e-8:
        res.witness(f"C05/unaligned-route/P-differs-from-expm/{fam}", model=model, maxdiff=float(np.abs(P - ref).max()), replay_case=rc)


# ---------------------------------------------------------------------------
# user-built nucleotide predicate models: any list of MotifChange predicates (undirected, directed, named), in any order


def decide_userpred(res, spec):
    """spec = {cls, preds: [[kind, x, y]], values: [...], mprobs: {...}, length}"""
    from cogent3 import make_tree
    from cogent3.evolve.ns_substitution_model import NonReversibleNucleotide
    from cogent3.evolve.predicate import MotifChange
    from cogent3.evolve.substitution_model import TimeReversible, TimeReversibleNucleotide

    rc = {"kind": "one-userpred", "spec": spec}

    def mkpreds(order):
        out = []
        for i in order:
            k, x, y = spec["preds"][i]
            if k == "named":
                out.append(x)
            else:
                out.append(MotifChange(x, y, forward_only=(k == "dir")).aliased(f"p{i}"))
        return out

    def names(order):
        return [spec["preds"][i][1] if spec["preds"][i][0] == "named" else f"p{i}" for i in order]

    cls = TimeReversibleNucleotide if spec["cls"] == "rev" else NonReversibleNucleotide
    n = len(spec["preds"])
    orders = [list(range(n)), list(range(n))[::-1]] + ([spec["perm"]] if spec.get("perm") else [])
    directed = any(k == "dir" for k, _, _ in spec["preds"])
    verdicts = []
    Qs = []
    for order in orders:
        try:
            sm = cls(predicates=mkpreds(order), name="userpred")
        except ValueError:
            verdicts.append("refused")
            res.refused += 1
            continue
        except Exception as e:  # noqa: BLE001
            res.evals += 1
            res.witness(exc_mechanism("C05/user-predicates/build", e), replay_case=rc)
            return
        verdicts.append("accepted")
        try:
            lf = sm.make_likelihood_function(make_tree("(a:0.1,b:0.1,c:0.1)"))
            lf.set_motif_probs(spec["mprobs"])
            for i, nm in zip(order, names(order)):
                lf.set_param_rule(nm, init=spec["values"][i])
            lf.set_param_rule("length", edge="a", init=spec["length"])
            states = [str(x) for x in sm.get_alphabet()]
            Q = lf.get_rate_matrix_for_edge("a", calibrated=True).to_array()
            P = lf.get_psub_for_edge("a").to_array()
        except Exception as e:  # noqa: BLE001
            res.evals += 1
            res.witness(exc_mechanism("C05/user-predicates/evaluate", e), replay_case=rc)
            return
        pi = np.array([spec["mprobs"][x] for x in states])
        detail = {"order": order, "replay_case": rc}
        check_Q(res, "user-predicates", Q, pi, "userpred", detail)
        check_P(res, "user-predicates", P, "userpred", detail)
        # the generator from the definition: r_ij = product of the parameters whose predicate covers i->j, times pi_j
        R = np.ones((4, 4))
        for i, (k, x, y) in enumerate(spec["preds"]):
            v = spec["values"][i]
            for a_, sa in enumerate(states):
                for b_, sb in enumerate(states):
                    if a_ == b_:
                        continue
                    if k == "named":
                        hit = M.is_transition(sa, sb) if x == "kappa" else not M.is_transition(sa, sb)
                    else:
                        hit = (sa == x and sb == y) or (k == "sym" and sa == y and sb == x)
                    if hit:
                        R[a_, b_] *= v
        # (time-reversible family: exchangeability times target frequency; non-stationary family: the rate itself)
        own = R * pi[None, :] if spec["cls"] == "rev" else R.copy()
        np.fill_diagonal(own, 0)
        np.fill_diagonal(own, -own.sum(axis=1))
        own /= -(pi * np.diag(own)).sum()
        res.evals += 1
        res.count("user-predicate-models-checked")
        if np.abs(Q - own).max() > 1e-9:
            res.witness("C05/user-predicates/Q-differs-from-definition", got=Q, exp=own, **detail)
        ref = M.expm(Q, spec["length"])
        res.evals += 1
        if np.abs(P - ref).max() > 1e-8:
            res.witness("C05/P-differs-from-expm/user-predicates", maxdiff=float(np.abs(P - ref).max()), **detail)
        if isinstance(sm, TimeReversible):
            # whatever was accepted as time-reversible must be: stationary motif probs and detailed balance
            res.evals += 1
            res.count("user-predicate-reversible-accepted")
            F = pi[:, None] * Q
            if np.abs(pi @ Q).max() > 1e-9:
                res.witness("C05/motif-probs-not-stationary/user-predicates", maxdev=float(np.abs(pi @ Q).max()), directed=directed, **detail)
            if np.abs(F - F.T).max() > 1e-9:
                res.witness("C05/detailed-balance-broken/user-predicates", maxdev=float(np.abs(F - F.T).max()), directed=directed, **detail)
            if np.abs(pi @ P - pi).max() > 1e-9:
                res.witness("C05/motif-probs-not-stationary-under-P/user-predicates", directed=directed, **detail)
        Qs.append(Q)
    res.evals += 1
    res.count("user-predicate-orderings-compared")
    if len(set(verdicts)) > 1:
        res.witness("C05/user-predicates/accepted-or-refused-depending-on-predicate-order", verdicts=verdicts, replay_case=rc)
    elif len(Qs) > 1 and max(np.abs(q - Qs[0]).max() for q in Qs[1:]) > 1e-9:
        res.witness("C05/user-predicates/Q-depends-on-predicate-order", replay_case=rc)
    res.sig("userpred", spec["cls"], n, directed, verdicts[0], any(k == "named" for k, _, _ in spec["preds"]))
    if spec["cls"] == "rev" and directed:
        res.count("user-predicate-reversible-with-directed-term:" + verdicts[0])


def gen_userpred(rng):
    n = rng.randint(1, 4)
    pairs = [a + b for a, b in itertools.permutations("ACGT", 2)]
    rng.shuffle(pairs)
    cls = rng.choice(["rev", "rev", "nonrev"])
    preds = []
    used = set()
    for x, y in pairs:
        if len(preds) >= n:
            break
        k = "dir" if rng.random() < (0.35 if cls == "rev" else 0.7) else "sym"
        # a directed term and its reverse may both be present (x>y and y>x with different values: the masks add up to a
        # symmetric pattern but the process is not reversible); an undirected pair appears once
        if (k, x, y) in used or (k == "sym" and ("sym", y, x) in used):
            continue
        used.add((k, x, y))
        preds.append([k, x, y])
        if k == "dir" and len(preds) < n and rng.random() < 0.4 and ("dir", y, x) not in used:
            used.add(("dir", y, x))
            preds.append(["dir", y, x])
    if cls == "rev" and rng.random() < 0.25:  # named predicates exist for the time-reversible family only
        preds[rng.randrange(len(preds))] = ["named", "kappa", None]
    perm = list(range(len(preds)))
    rng.shuffle(perm)
    mp = M.dirichlet(rng, 4)
    return {"cls": cls, "preds": preds, "perm": perm, "values": [round(math.exp(rng.uniform(-2.5, 2.5)), 6) for _ in preds],
            "mprobs": dict(zip("ACGT", [float(x) for x in mp])), "length": rng.choice([0.0, 0.01, 0.3, 2.0])}


def required(counters, tier):
    need = ["GS:accepted", "GS:refused", "partitioned-rate-checked", "free-rate-distribution-checked", "unaligned-route-checked", "uncalibrated-table:user-names", "uncalibrated-table:default-names:11+bins", "user-predicate-models-checked", "user-predicate-orderings-compared", "user-predicate-reversible-accepted", "user-predicate-reversible-with-directed-term:refused", "solved-model-edges", "other-edges-unchanged-checked", "checked-exponentiator-raised", "Q-checked", "P-checked", "P(0)=I-checked", "semigroup-checked", "stationarity-checked", "bin-rates-checked", "adversarial-Q", "backend:Fast", "backend:Checked", "backend:Pade", "backend:Taylor", "backend:SemiSymmetric", "setting:either", "setting:pade"]
    return [n for n in need if not counters.get(n)]
