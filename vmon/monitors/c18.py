"""C18 — aligners preserve their inputs and are optimal for their own model.

Shape B + R.  The pair-HMM that the real aligner built (state_directions, T, log
emission arrays, position->column indexes) is read off the live
PairEmissionProbs object by wrapping PairEmissionProbs.dp from the harness.  An
independent full-matrix Viterbi (and, for tiny inputs, an explicit enumeration
of every path) over exactly those arrays decides "reported score == optimum ==
score of the returned rows re-scored column by column".  Relations: forced
linear-space (Hirschberg) vs full DP, compiled kernel vs the same kernel as
plain Python vs the pure-python reference.  align_to_ref is decided by
projecting the multiple alignment back onto (reference,row); progressive
alignment by row content and, for two sequences, by optimality for the pair-HMM
it built.
"""

import itertools
import math
import random
import re

import numpy as np

from vmon.core import Result, exc_mechanism

ID = "C18"
LEVEL = "exploration"
RULE = (
    "pairs: every ordered pair of strings over {A,G,C} up to length 3 (quick) / 4 (thorough) x 2 scoring models x "
    "global/local, decided by enumeration of all paths; seeded random pairs of length 1-6 (all paths enumerated) and "
    "1-40 (quick) / 1-90 and 1-150 (thorough): identical, unrelated, low-complexity repeats, indel-mutated copies with adjacent "
    "insertions and deletions, DNA (incl. N) and protein x scoring dict (make_dna_scoring_dict, make_generic_scoring_dict, "
    "random symmetric, random asymmetric, float) x gap open {0..20} x gap extend {0..5} x global/local x "
    "HIRSCHBERG_LIMIT {huge, 0, intermediate} x kernel {compiled, py_func, py_calc_rows}. align_to_ref: 2-6 indel-mutated "
    "copies, every sequence (and 'longest') as reference, DNA/protein, penalty grid. progressive_align/tree_align: 2-6 "
    "sequences, nucleotide/protein/codon models, given or estimated guide tree, indel_rate/indel_length grid, forced "
    "Hirschberg, py_func kernels; every pairwise step inside a progressive alignment (sequence x sequence and "
    "sub-alignment x sub-alignment, read off the live objects incl. predecessor graphs and traceback) is decided like a "
    "pairwise alignment. Non-trivial = pairwise alignment with a gap run in each row (or local alignment that "
    "trims both inputs), MSA in which a reference gap has to be injected into another row, progressive result with gaps; "
    "distinct = (entry point, moltype, algorithm, gap-layout class)."
)
LEVEL_TEXT = (
    "Each pairwise result is checked against an independent Viterbi over the transition/emission arrays observed in the "
    "live pair-HMM (reported score == optimum == re-scored returned rows, 1e-9), exhaustively against all paths for "
    "inputs up to 6x6, and against itself under forced linear-space recursion and under the un-jitted kernels; "
    "align_to_ref is checked by projecting the result back onto every (reference,row) pair; each pairwise step of a "
    "progressive alignment is re-optimised over its observed predecessor graphs and its traceback re-scored. Sampled outside the "
    "small-scope bound; held means held on the executions listed in the evidence."
)
LEVEL_NOTE = (
    "trusted: the pair-HMM arrays read from the live object are the aligner's own model (additionally compared with the "
    "model re-derived from the scoring dict and gap penalties); Python float arithmetic; numpy for log"
)
TECHNIQUE = "runtime monitoring: boundary recorder + independent Viterbi/path enumeration over the observed pair-HMM, differential relations"
ASSUMPTIONS = [
    "the arrays captured from PairEmissionProbs.dp are the model the aligner optimises (cross-checked against the scoring dict / gap penalties)",
    "co-optimal paths may differ between algorithms: only scores, and each path's own score, are compared",
    "a local alignment starts and ends with an aligned (match) column",
    "progressive_align without a guide tree may decline (NotCompleted from the distance / tree step) when no distance is defined: counted as refused",
]
ENV = {"NUMBA_BOUNDSCHECK": "1"}
TIMEOUT = {"quick": 1200, "thorough": 7200}

NEG = float("-inf")
HUGE = 10**15
F18 = "C18/align_to_ref/ref-gap-inside-query-gap-shifts-residues"
# linear-space algorithm, two plain sequences: the path it returns does not score what it reports
HSEQ = "C18/hirschberg/sequences/returned-path-does-not-score-what-is-reported"
# linear-space algorithm on sub-alignments: cutting the predecessor graph at the split column loses / half-keeps indel edges
HPOG = "C18/hirschberg/sub-alignments/split-cuts-indel-edges"


# ---------------------------------------------------------------------------
# case generation


def gen_cases(rng, tier):
    q = tier == "quick"
    cases = []
    maxL = 3 if q else 4
    strings = ["".join(t) for L in range(1, maxL + 1) for t in itertools.product("AGC", repeat=L)]
    chunk = 3 if q else 2
    for lo in range(0, len(strings), chunk):
        cases.append({"kind": "tiny-all", "maxL": maxL, "lo": lo, "hi": min(len(strings), lo + chunk), "models": 1 if q else 2})
    for i in range(16 if q else 160):
        cases.append({"kind": "small", "seed": rng.randrange(2**32), "n": 20 if q else 40, "moltype": "dna" if i % 3 else "protein"})
    for i in range(26 if q else 420):
        maxlen = 40 if q else (90 if i % 5 else 150)
        cases.append(
            {
                "kind": "pairs",
                "seed": rng.randrange(2**32),
                "n": 8 if q else {90: 12, 150: 6}[maxlen],
                "moltype": "dna" if i % 3 else "protein",
                "maxlen": maxlen,
            }
        )
    for i in range(18 if q else 400):
        c = {"kind": "toref", "seed": rng.randrange(2**32), "n": 6 if q else 12, "moltype": "dna" if i % 4 else "protein"}
        if q:
            c["refs"] = 2
        cases.append(c)
    for i in range(20 if q else 320):
        cases.append({"kind": "prog", "seed": rng.randrange(2**32), "n": 5 if q else 7, "model": ["nucleotide", "protein"][i % 2]})
    for i in range(4 if q else 40):
        # codon models are ~100x slower to set up: one problem per case
        cases.append({"kind": "prog", "seed": rng.randrange(2**32), "n": 1, "model": "codon"})
    for i in range(12 if q else 120):
        cases.append({"kind": "sw", "seed": rng.randrange(2**32), "n": 25, "moltype": "dna" if i % 3 else "protein"})
    for i in range(12 if q else 120):
        cases.append({"kind": "reuse", "seed": rng.randrange(2**32), "n": 4, "model": ["nucleotide", "protein", "nucleotide"][i % 3]})
    for i in range(40 if q else 300):
        cases.append({"kind": "history", "seed": rng.randrange(2**32), "steps": 16 if q else 30})
    return cases


def required(counters, tier):
    need = [
        "pairwise:global",
        "pairwise:local",
        "brute-force:global",
        "brute-force:local",
        "hirschberg:ran",
        "kernel:py_func",
        "kernel:py_ref",
        "derivation:checked",
        "toref:msa",
        "toref:class:inside-query-gap",
        "toref:class:at-query-gap-edge",
        "prog:two-seq-optimality",
        "prog:multi",
        "prog:hirschberg-ran",
        "prog:steps:sequences",
        "prog:steps:sub-alignments",
        "prog:model:codon",
        "history:pair-after-edit",
        "history:toref-after-edit",
        "toref:emissions-vs-current-dict",
        "sw:asymmetric:first-longer",
        "sw:asymmetric:second-longer",
        "reuse:cached-tree/same-names",
        "reuse:cached-tree/more-names",
        "reuse:given-tree/tree-lacks-a-sequence",
    ]
    return [k for k in need if not counters.get(k)]


# ---------------------------------------------------------------------------
# boundary recorder: what the live pair-HMM looked like, which algorithm ran

_H = {"installed": False, "depth": 0, "caps": [], "hirsch": 0, "mode": None, "swaps": 0}


def _ref_aligner(
    plan, x_index, y_index, i_low, i_high, j_low, j_high, i_sources, i_off, j_sources, j_off,
    state_directions, T, xscores, yscores, match_scores, mantissas, mantissa, exponents, track, track_enc, viterbi, **kw
):  # fmt: skip
    """adapter: the argument layout Pair.calc_rows uses -> cogent3.align.pairwise.py_calc_rows"""
    from cogent3.align import pairwise

    preds = [
        [[int(v) for v in src[off[k] : off[k + 1]]] for k in range(len(off) - 1)]
        for src, off in ((i_sources, i_off), (j_sources, j_off))
    ]
    return pairwise.py_calc_rows(
        plan, x_index, y_index, i_low, i_high, j_low, j_high, preds, state_directions, T,
        xscores, yscores, match_scores, (mantissas, exponents), track, track_enc, viterbi, **kw
    )  # fmt: skip


def _install():
    if _H["installed"]:
        return
    from cogent3.align import pairwise

    P = pairwise.PairEmissionProbs
    orig_dp, orig_h, orig_init = P.dp, P.hirschberg, pairwise.Pair.__init__

    def dp(self, TM, dp_options, cells=None, backward=False):
        top = _H["depth"] == 0 and cells is None and dp_options.viterbi
        _H["depth"] += 1
        try:
            result = orig_dp(self, TM, dp_options, cells=cells, backward=backward)
        finally:
            _H["depth"] -= 1
        if top:
            M, (X, Y) = self._getEmissionProbs(dp_options.use_logs, dp_options.use_cost_function)
            ch = self.pair.children
            _H["caps"].append(
                {
                    "sd": np.array(TM[0]).astype(int).tolist(),
                    "T": np.array(TM[1], dtype=float),
                    "M": np.array(M, dtype=float),
                    "X": np.array(X, dtype=float),
                    "Y": np.array(Y, dtype=float),
                    "i1": [int(v) for v in ch[0].index],
                    "i2": [int(v) for v in ch[1].index],
                    # predecessor lists of every position (a chain for a sequence, a graph for a sub-alignment)
                    "p1": [[int(v) for v in pre] for pre in ch[0]],
                    "p2": [[int(v) for v in pre] for pre in ch[1]],
                    "tb": [(int(s_), (int(pos[0]), int(pos[1])), (int(bool(dd[0])), int(bool(dd[1])))) for s_, pos, dd in result[1].tlist],
                    "seqs": all(type(c).__name__ == "AlignableSeq" for c in ch),
                    "use_logs": bool(dp_options.use_logs),
                    "local": bool(dp_options.local),
                    "score": float(result[0]),
                }
            )
        return result

    def hirschberg(self, TM, dp_options):
        _H["hirsch"] += 1
        return orig_h(self, TM, dp_options)

    def init(self, *a, **k):
        orig_init(self, *a, **k)
        mode = _H["mode"]
        if mode == "py_func" and hasattr(self.aligner, "py_func"):
            self.aligner = self.aligner.py_func
            _H["swaps"] += 1
        elif mode == "py_ref":
            self.aligner = _ref_aligner
            _H["swaps"] += 1

    P.dp = dp
    P.hirschberg = hirschberg
    pairwise.Pair.__init__ = init
    _H["installed"] = True


class Setting:
    """HIRSCHBERG_LIMIT / kernel choice for the duration of one call into the real code"""

    def __init__(self, limit=HUGE, mode=None):
        self.limit, self.mode = limit, mode

    def __enter__(self):
        from cogent3.align import pairwise

        _install()
        self.saved = pairwise.HIRSCHBERG_LIMIT
        pairwise.HIRSCHBERG_LIMIT = self.limit
        _H.update(mode=self.mode, hirsch=0, swaps=0, depth=0)
        _H["caps"] = []
        return self

    def __exit__(self, *exc):
        from cogent3.align import pairwise

        pairwise.HIRSCHBERG_LIMIT = self.saved
        self.caps, self.hirsch, self.swaps = _H["caps"], _H["hirsch"], _H["swaps"]
        _H.update(mode=None, depth=0)
        _H["caps"] = []
        return False


# ---------------------------------------------------------------------------
# the independent model: plain lists, three loops


class HMM:
    """the observed pair-HMM as Python lists (single bin); each side is a chain (sequence) or a predecessor graph"""

    def __init__(self, cap, n=None, m=None):
        n_obs, m_obs = len(cap["i1"]) - 2, len(cap["i2"]) - 2
        self.ok = (
            cap["use_logs"]
            and all(b == 0 for _, b, _, _ in cap["sd"])
            and (n is None or n == n_obs)
            and (m is None or m == m_obs)
            and len(cap["p1"]) == n_obs + 2
            and len(cap["p2"]) == m_obs + 2
        )
        if not self.ok:
            return
        n, m = n_obs, m_obs
        T = cap["T"]
        self.ns = T.shape[0]
        self.END = self.ns - 1
        self.lT = [[math.log(v) if v > 0 else NEG for v in row] for row in T.tolist()]
        self.states = [(s, dx, dy) for s, _, dx, dy in cap["sd"]]
        self.state_of = {(dx, dy): s for s, dx, dy in self.states}
        self.dir_of = {s: (dx, dy) for s, dx, dy in self.states}
        self.match_states = [s for s, dx, dy in self.states if dx and dy]
        i1, i2 = cap["i1"], cap["i2"]
        M, X, Y = cap["M"][0], cap["X"][0], cap["Y"][0]
        self.n, self.m = n, m
        self.p1, self.p2 = cap["p1"], cap["p2"]
        self.chain = all(p == [k - 1] for k, p in enumerate(self.p1) if k) and all(p == [k - 1] for k, p in enumerate(self.p2) if k)
        self.eM = [[0.0] * (m + 1)] + [[0.0] + [float(M[i1[i], i2[j]]) for j in range(1, m + 1)] for i in range(1, n + 1)]
        self.eX = [0.0] + [float(X[i1[i]]) for i in range(1, n + 1)]
        self.eY = [0.0] + [float(Y[i2[j]]) for j in range(1, m + 1)]
        # the END "emission" the real code adds for a global path
        self.e_end = float(cap["M"][0][-1, -1])

    def emit(self, dx, dy, i, j):
        if dx and dy:
            return self.eM[i][j]
        return self.eX[i] if dx else self.eY[j]

    def viterbi(self, local):
        n, m, ns, lT = self.n, self.m, self.ns, self.lT
        V = [[[NEG] * ns for _ in range(m + 1)] for _ in range(n + 1)]
        best_local = NEG
        if not local:
            V[0][0][0] = 0.0
        for i in range(n + 1):
            for j in range(m + 1):
                for s, dx, dy in self.states:
                    best = NEG
                    for pi in self.p1[i] if dx else (i,):
                        for pj in self.p2[j] if dy else (j,):
                            src = V[pi][pj]
                            for p in range(ns - 1):
                                c = src[p] + lT[p][s]
                                if c > best:
                                    best = c
                    if local and dx and dy and i and j and lT[0][s] > best:
                        best = lT[0][s]  # free start: a local path may begin here
                    if best > NEG:
                        v = best + self.emit(dx, dy, i, j)
                        V[i][j][s] = v
                        if local and dx and dy and v > best_local:
                            best_local = v  # free end
        if local:
            return best_local
        return max(V[pi][pj][s] + lT[s][self.END] for pi in self.p1[n + 1] for pj in self.p2[m + 1] for s in range(ns - 1)) + self.e_end

    def brute(self, local):
        """explicit enumeration of every path (no max-recursion, no table)"""
        n, m, lT, END = self.n, self.m, self.lT, self.END
        best = [NEG]
        count = [0]
        mstates = set(self.match_states)
        succ1 = [[k for k in range(1, n + 1) if i in self.p1[k]] for i in range(n + 1)]
        succ2 = [[k for k in range(1, m + 1) if j in self.p2[k]] for j in range(m + 1)]
        last1, last2 = set(self.p1[n + 1]), set(self.p2[m + 1])

        def rec(i, j, prev, acc):
            if local:
                if prev in mstates:
                    count[0] += 1
                    if acc > best[0]:
                        best[0] = acc
            elif i in last1 and j in last2 and lT[prev][END] > NEG:
                count[0] += 1
                tot = acc + lT[prev][END] + self.e_end
                if tot > best[0]:
                    best[0] = tot
            for s, dx, dy in self.states:
                t = lT[prev][s]
                if t == NEG:
                    continue
                for ni in succ1[i] if dx else (i,):
                    for nj in succ2[j] if dy else (j,):
                        rec(ni, nj, s, acc + t + self.emit(dx, dy, ni, nj))

        if local:
            for i0 in range(1, n + 1):
                for j0 in range(1, m + 1):
                    for s in self.match_states:
                        if lT[0][s] > NEG:
                            rec(i0, j0, s, lT[0][s] + self.eM[i0][j0])
        else:
            rec(0, 0, 0, 0.0)
        return best[0], count[0]

    def score_rows(self, r1, r2, i0, j0, local):
        """score of the path the returned rows describe (two sequences); None if a column is no state of the model"""
        prev, i, j, tot = 0, i0, j0, 0.0
        for a, b in zip(r1, r2):
            dx, dy = int(a != "-"), int(b != "-")
            s = self.state_of.get((dx, dy))
            if s is None:
                return None
            i += dx
            j += dy
            if i > self.n or j > self.m:
                return None
            tot += self.lT[prev][s] + self.emit(dx, dy, i, j)
            prev = s
        if local:
            return tot
        return tot + self.lT[prev][self.END] + self.e_end

    def score_traceback(self, tb):
        """score of a global path given as [(state, (i, j), (dx, dy))]; a string says why it is no path of the model"""
        prev, i, j, tot = 0, 0, 0, 0.0
        for s, (x, y), (dx, dy) in tb:
            if self.dir_of.get(s) != (dx, dy):
                return f"state {s} moved {(dx, dy)}"
            if not (0 <= x <= self.n and 0 <= y <= self.m):
                return f"position {(x, y)} outside the problem"
            if (i not in self.p1[x]) if dx else (x != i):
                return f"step {i}->{x} on the first side is no edge"
            if (j not in self.p2[y]) if dy else (y != j):
                return f"step {j}->{y} on the second side is no edge"
            tot += self.lT[prev][s] + self.emit(dx, dy, x, y)
            prev, i, j = s, x, y
        if i not in self.p1[self.n + 1] or j not in self.p2[self.m + 1]:
            return f"path stops at {(i, j)}, not at the end"
        return tot + self.lT[prev][self.END] + self.e_end


def close(a, b):
    if a is None or b is None:
        return False
    if a == b:
        return True
    if math.isinf(a) or math.isinf(b) or a != a or b != b:
        return False
    return abs(a - b) <= 1e-9 * max(1.0, abs(a), abs(b))


def runs(row):
    return [(m.start(), m.end()) for m in re.finditer("-+", row)]


def layout_class(r1, r2):
    """structure class of a pairwise alignment: gap runs per row, terminal gaps, a gap run abutting one in the other row"""
    g1, g2 = runs(r1), runs(r2)
    L = len(r1)
    term = any(a == 0 or b == L for a, b in g1 + g2)
    ends1 = {b for _, b in g1}
    ends2 = {b for _, b in g2}
    abut = any(a in ends2 for a, _ in g1) or any(a in ends1 for a, _ in g2)
    return (min(len(g1), 3), min(len(g2), 3), "term" if term else "int", "abut" if abut else "sep")


def occurrences(sub, s):
    out, k = [], s.find(sub)
    while k >= 0:
        out.append(k)
        k = s.find(sub, k + 1)
    return out


# ---------------------------------------------------------------------------
# inputs


def alphabet_of(moltype):
    from cogent3 import get_moltype

    return [str(c) for c in get_moltype(moltype).alphabet]


def rand_seq(rng, letters, L):
    return "".join(rng.choice(letters) for _ in range(L))


def mutate(rng, s, letters, p_indel=0.1, p_sub=0.1):
    """indel-mutated copy; insertions and deletions may abut (the layouts that stress gap merging)"""
    out, i = [], 0
    while i < len(s):
        r = rng.random()
        if r < p_indel:
            i += rng.randint(1, 4)
            if rng.random() < 0.3:
                out.append(rand_seq(rng, letters, rng.randint(1, 3)))
            continue
        if r < 2 * p_indel:
            out.append(rand_seq(rng, letters, rng.randint(1, 4)))
        out.append(s[i] if rng.random() > p_sub else rng.choice(letters))
        i += 1
    if rng.random() < 0.15:
        out.append(rand_seq(rng, letters, rng.randint(1, 3)))
    return "".join(out) or rng.choice(letters)


def gen_pair(rng, moltype, maxlen):
    full = alphabet_of(moltype)
    letters = full[:4] if moltype == "dna" else rng.choice([list("ACDEFGHIKLMNPQRSTVWY"), list("AKLMV"), list("GP")])
    if moltype == "dna" and rng.random() < 0.2:
        letters = rng.choice([list("AC"), list("AG"), list("ACG")])
    kind = rng.choice(["identical", "unrelated", "repeat", "mutated", "mutated", "mutated", "heavy", "short-long", "len1"])
    L = rng.randint(1, maxlen)
    a = rand_seq(rng, letters, L)
    if kind == "identical":
        b = a
    elif kind == "unrelated":
        b = rand_seq(rng, letters, rng.randint(1, maxlen))
    elif kind == "repeat":
        unit = rand_seq(rng, letters, rng.randint(1, 3))
        a = (unit * maxlen)[: rng.randint(1, maxlen)]
        b = (unit * maxlen)[rng.randint(0, 2) : rng.randint(3, maxlen + 2)] or unit
    elif kind == "mutated":
        b = mutate(rng, a, letters)
    elif kind == "heavy":
        a, b = mutate(rng, a, letters, 0.2, 0.2), mutate(rng, a, letters, 0.2, 0.2)
    elif kind == "short-long":
        k = rng.randint(0, max(0, L - 3))
        b = a[k : k + rng.randint(1, 4)]
        if rng.random() < 0.5:
            a, b = b, a
    else:
        b = rand_seq(rng, letters, 1)
        if rng.random() < 0.5:
            a, b = b, a
    ambig = False
    if moltype == "dna" and rng.random() < 0.06:
        k = rng.randrange(len(a))
        a = a[:k] + "N" + a[k + 1 :]
        ambig = True
    return a[: maxlen + 10], b[: maxlen + 10], kind, ambig


def gen_scoring(rng, moltype):
    """-> (kind, matrix rows in alphabet order, d, e)"""
    alpha = alphabet_of(moltype)
    n = len(alpha)
    kinds = ["dna", "dna", "generic", "randsym", "float", "asym"] if moltype == "dna" else ["generic", "generic", "randsym", "float", "asym"]
    kind = rng.choice(kinds)
    if kind == "dna":
        from cogent3.align.align import make_dna_scoring_dict

        args = (rng.randint(1, 10), rng.randint(-5, 0), rng.randint(-10, -1))
        Sd = make_dna_scoring_dict(*args)
        S = [[Sd[a, b] for b in alpha] for a in alpha]
        helper = ("make_dna_scoring_dict", args)
    elif kind == "generic":
        from cogent3.align.align import make_generic_scoring_dict

        args = (rng.randint(1, 10), moltype)
        Sd = make_generic_scoring_dict(*args)
        S = [[Sd[a, b] for b in alpha] for a in alpha]
        helper = ("make_generic_scoring_dict", args)
    else:
        helper = None
        if kind == "float":
            val = lambda: round(rng.uniform(-6, 3), 3)  # noqa: E731
            dia = lambda: round(rng.uniform(0.5, 9), 3)  # noqa: E731
        else:
            val = lambda: rng.randint(-8, 2)  # noqa: E731
            dia = lambda: rng.randint(1, 10)  # noqa: E731
        S = [[0] * n for _ in range(n)]
        for i in range(n):
            for j in range(i, n):
                S[i][j] = S[j][i] = dia() if i == j else val()
        if kind == "asym":
            for _ in range(max(2, n // 2)):
                i, j = rng.sample(range(n), 2)
                S[i][j] = S[j][i] + rng.choice([-4, -2, 3, 5])
    d = rng.choice([0, 1, 2, 3.5, 5, 10, 10, 20])
    e = rng.choice([0, 0.5, 1, 1, 2, 2, 5])
    return kind, S, d, e, helper


def check_helper(res, helper, S, moltype):
    """make_dna_scoring_dict / make_generic_scoring_dict against their definitions"""
    alpha = alphabet_of(moltype)
    name, args = helper
    res.evals += 1
    res.count("helper:" + name)
    pur = set("AG")
    for i, a in enumerate(alpha):
        for j, b in enumerate(alpha):
            if name == "make_dna_scoring_dict":
                exp = args[0] if a == b else (args[1] if (a in pur) == (b in pur) else args[2])
            else:
                exp = args[0] if a == b else -1
            if S[i][j] != exp:
                res.witness(f"C18/{name}/wrong-entry", args=list(args), pair=[a, b], got=S[i][j], expected=exp)
                return


def expected_T(d, e):
    """row-normalised exp(-cost) over X, Y, M: open d, extend e, no X<->Y (indel_model.classic_gap_scores docstring)"""
    C = {("X", "X"): e, ("X", "M"): 0.0, ("Y", "Y"): e, ("Y", "M"): 0.0, ("M", "X"): d, ("M", "Y"): d, ("M", "M"): 0.0}
    T = {}
    for a in "XYM":
        row = {b: math.exp(-C[a, b]) if (a, b) in C else 0.0 for b in "XYM"}
        z = sum(row.values())
        for b in "XYM":
            T[a, b] = row[b] / z
    return T


# ---------------------------------------------------------------------------
# pairwise


def call_pairwise(s1, s2, moltype, S, d, e, local, live=None):
    """live = {"Sd": dict, "q1": seq, "q2": seq}: long-lived objects of a history (the caller keeps S == contents of Sd)"""
    from cogent3 import make_seq
    from cogent3.align.align import global_pairwise, local_pairwise

    if live:
        Sd, q1, q2 = live["Sd"], live["q1"], live["q2"]
    else:
        alpha = alphabet_of(moltype)
        Sd = {(a, b): S[i][j] for i, a in enumerate(alpha) for j, b in enumerate(alpha)}
        q1 = make_seq(s1, name="s1", moltype=moltype)
        q2 = make_seq(s2, name="s2", moltype=moltype)
    f = local_pairwise if local else global_pairwise
    aln, score = f(q1, q2, Sd, d, e, return_score=True)
    rows = aln.to_dict()
    return rows, float(score)


def check_pair(res, case):
    """all pairwise clauses for one (s1, s2, scoring, mode)"""
    s1, s2, moltype, S, d, e, local = case["s1"], case["s2"], case["moltype"], case["S"], case["d"], case["e"], bool(case["local"])
    skind = case.get("skind", "?")
    modes = case.get("modes", ["py_func", "py_ref"])
    limits = case.get("limits", [0])
    live = case.get("_live")
    mode_name = "local" if local else "global"
    op = f"C18/pairwise/{mode_name}"
    n, m = len(s1), len(s2)
    replay = {"kind": "one-pair", **{k: case[k] for k in ("s1", "s2", "moltype", "S", "d", "e", "local")}, "skind": skind}
    base = {"s1": s1, "s2": s2, "moltype": moltype, "d": d, "e": e, "local": local, "scoring": skind}

    def bad(mech, **detail):
        res.witness(mech, **base, **detail, replay_case=case.get("_replay") or {**replay, "modes": modes, "limits": limits})

    def rows_ok(rows, tag):
        """clause 1; returns (r1, r2, [(i0, j0) candidates]) or None"""
        res.evals += 1
        if sorted(rows) != ["s1", "s2"]:
            bad(f"{op}/{tag}rows-missing", rows=rows)
            return None
        r1, r2 = rows["s1"], rows["s2"]
        if len(r1) != len(r2):
            bad(f"{op}/{tag}ragged", rows=rows)
            return None
        u1, u2 = r1.replace("-", ""), r2.replace("-", "")
        if not local:
            if u1 != s1 or u2 != s2:
                bad(f"{op}/{tag}degapped-rows-differ-from-input", rows=rows)
                return None
            return r1, r2, [(0, 0)]
        o1, o2 = occurrences(u1, s1) if u1 else [], occurrences(u2, s2) if u2 else []
        if not o1 or not o2:
            bad(f"{op}/{tag}rows-not-contiguous-part-of-input", rows=rows)
            return None
        return r1, r2, [(a, b) for a in o1 for b in o2]

    def rescore(hmm, parsed):
        r1, r2, starts = parsed
        vals = [hmm.score_rows(r1, r2, i0, j0, local) for i0, j0 in starts]
        return vals

    def path_ok(hmm, parsed, reported, tag, rows):
        """reported == score of the returned rows"""
        res.evals += 1
        vals = rescore(hmm, parsed)
        if all(v is None for v in vals):
            bad(f"{op}/{tag}returned-rows-are-no-path-of-the-model", rows=rows)
            return False
        if not any(close(v, reported) for v in vals):
            mech = HSEQ if tag == "hirschberg/" else f"{op}/{tag}reported-score-differs-from-rescored-path"
            bad(mech, rows=rows, reported=reported, rescored=vals)
            return False
        return True

    # --- the real call, full DP -------------------------------------------------------------
    try:
        with Setting(HUGE) as st:
            rows, score = call_pairwise(s1, s2, moltype, S, d, e, local, live)
    except Exception as ex:  # noqa: BLE001
        res.evals += 1
        bad(exc_mechanism(op, ex), error=repr(ex)[:300])
        return
    res.count(f"pairwise:{mode_name}")
    res.count(f"scoring:{skind}")
    parsed = rows_ok(rows, "")
    if len(st.caps) != 1 or st.hirsch:
        res.count("unexpected-capture-count")
        return
    cap = st.caps[0]
    hmm = HMM(cap, n, m)
    if not hmm.ok:
        res.count("model-not-representable")
        return
    res.evals += 1
    if not close(cap["score"], score):
        bad(f"{op}/returned-score-differs-from-viterbi-result", score=score, dp_score=cap["score"])

    # --- model derivation: is the observed HMM the one (S, d, e) define? -------------------
    if not case.get("ambig"):
        check_derivation(res, bad, hmm, cap, s1, s2, moltype, S, d, e, skind)

    # --- clause 2: independent optimum, re-scored path ---------------------------------------
    opt = hmm.viterbi(local)
    res.evals += 1
    if not close(opt, score):
        which = "suboptimal" if opt > score else "exceeds-optimum"
        bad(f"{op}/reported-score-{which}", rows=rows, reported=score, optimum=opt)
    if parsed:
        path_ok(hmm, parsed, score, "", rows)
    small = (n <= 6 and m <= 6) if not local else (n <= 6 and m <= 6 and n * m <= 30)
    if small:
        bf, npaths = hmm.brute(local)
        res.evals += 1
        res.count(f"brute-force:{mode_name}")
        res.count("brute-force:paths", npaths)
        if not close(bf, score):
            bad(f"{op}/reported-score-differs-from-best-enumerated-path", rows=rows, reported=score, best=bf, paths=npaths)
        res.evals += 1
        if not close(bf, opt):
            bad("C18/harness/viterbi-model-disagrees-with-enumeration", optimum=opt, best=bf)

    nontrivial = False
    lay = ("?",)
    if parsed:
        r1, r2, _ = parsed
        lay = layout_class(r1, r2)
        if local:
            trimmed = len(r1.replace("-", "")) < n and len(r2.replace("-", "")) < m
            nontrivial = trimmed or (lay[0] and lay[1])
            lay = lay + ("trim" if trimmed else "full",)
        else:
            nontrivial = bool(lay[0] and lay[1])
    algo_seen = ["dp"]

    # --- clause 3: forced linear space ------------------------------------------------------------
    if not local:
        for limit in limits:
            try:
                with Setting(limit) as sh:
                    rows_h, score_h = call_pairwise(s1, s2, moltype, S, d, e, local, live)
            except Exception as ex:  # noqa: BLE001
                res.evals += 1
                bad(exc_mechanism(f"{op}/hirschberg", ex), error=repr(ex)[:300], limit=limit)
                continue
            if not sh.hirsch:
                res.count("hirschberg:not-applicable")
                continue
            res.count("hirschberg:ran")
            res.count("hirschberg:calls", sh.hirsch)
            algo_seen.append("hirschberg")
            res.evals += 1
            if not close(score_h, score):
                bad(f"{op}/hirschberg/score-differs-from-full-dp", limit=limit, full_dp=score, hirschberg=score_h, rows_full=rows, rows_hirschberg=rows_h)
            ph = rows_ok(rows_h, "hirschberg/")
            if ph:
                path_ok(hmm, ph, score_h, "hirschberg/", rows_h)
                if nontrivial:
                    res.sig("pair", moltype, mode_name, "hirschberg", "same-path" if rows_h == rows else "other-path", *layout_class(ph[0], ph[1]))

    # --- clause 3b: the kernels as plain Python -----------------------------------------------
    if n * m <= 900:
        for mode in modes:
            try:
                with Setting(HUGE, mode) as sp:
                    rows_p, score_p = call_pairwise(s1, s2, moltype, S, d, e, local, live)
            except Exception as ex:  # noqa: BLE001
                res.evals += 1
                bad(exc_mechanism(f"{op}/kernel-{mode}", ex), error=repr(ex)[:300])
                continue
            if not sp.swaps:
                res.count("kernel:not-swapped")
                continue
            res.count(f"kernel:{mode}")
            res.evals += 1
            if not close(score_p, score):
                bad(f"{op}/kernel-{mode}/score-differs-from-compiled-kernel", compiled=score, python=score_p, rows_compiled=rows, rows_python=rows_p)
            pp = rows_ok(rows_p, f"kernel-{mode}/")
            if pp:
                path_ok(hmm, pp, score_p, f"kernel-{mode}/", rows_p)
    if nontrivial:
        res.sig("pair", moltype, mode_name, "dp", skind, *lay)
    res.sample({k: case[k] for k in ("s1", "s2", "moltype", "d", "e", "local")} | {"rows": rows, "score": score})


def check_derivation(res, bad, hmm, cap, s1, s2, moltype, S, d, e, skind):
    """observed T / emissions vs the model that scoring dict + gap penalties define"""
    res.evals += 1
    res.count("derivation:checked")
    name = {(1, 0): "X", (0, 1): "Y", (1, 1): "M"}
    st = {name[dx, dy]: s for s, dx, dy in hmm.states}
    if sorted(st) != ["M", "X", "Y"]:
        bad("C18/pairwise/model/unexpected-state-set", states=hmm.states)
        return
    T = cap["T"]
    ET = expected_T(d, e)
    for a in "XYM":
        for b in "XYM":
            if abs(T[st[a], st[b]] - ET[a, b]) > 1e-12 + 1e-9 * ET[a, b]:
                bad("C18/pairwise/model/transitions-differ-from-gap-penalties", transition=a + b, got=float(T[st[a], st[b]]), expected=ET[a, b])
                return
    begin = [float(T[0, st[a]]) for a in "XYM"]
    nxt = [sum(begin[i] * ET[a, b] for i, a in enumerate("XYM")) for b in "XYM"]
    if abs(sum(begin) - 1) > 1e-6 or any(abs(x - y) > 1e-6 for x, y in zip(begin, nxt)):
        bad("C18/pairwise/model/begin-row-not-stationary", begin=begin)
        return
    if any(float(T[st[a], -1]) != 1.0 for a in "XYM"):
        bad("C18/pairwise/model/end-column", T=T.tolist())
        return
    alpha = alphabet_of(moltype)
    pos = {c: i for i, c in enumerate(alpha)}
    if any(c not in pos for c in s1 + s2):
        return
    logn = math.log(len(alpha))
    straight = transposed = True
    first = None
    for i, a in enumerate(s1, 1):
        for j, b in enumerate(s2, 1):
            got = hmm.eM[i][j]
            if abs(got - (logn + S[pos[a]][pos[b]])) > 1e-9:
                straight = False
                first = first or (a, b, got, logn + S[pos[a]][pos[b]])
            if abs(got - (logn + S[pos[b]][pos[a]])) > 1e-9:
                transposed = False
    gaps_free = all(abs(v) < 1e-12 for v in hmm.eX[1:] + hmm.eY[1:])
    if not gaps_free:
        bad("C18/pairwise/model/gap-emissions-not-neutral", eX=hmm.eX, eY=hmm.eY)
    elif not straight and transposed:
        # S[residue of s2, residue of s1] was used where the caller gave S[residue of s1, residue of s2]
        bad("C18/pairwise/model/scoring-dict-applied-transposed", s1_residue=first[0], s2_residue=first[1], observed_match_score=first[2] - logn, given=first[3] - logn)
    elif not straight:
        bad("C18/pairwise/model/match-emissions-differ-from-scoring-dict", s1_residue=first[0], s2_residue=first[1], observed=first[2], expected=first[3])
    if skind == "asym":
        res.count("derivation:asymmetric-dict")


# ---------------------------------------------------------------------------
# align_to_ref


def app_failure(app, seqs, prefix):
    """mechanism for a NotCompleted: re-run main() to see the exception itself"""
    try:
        app.main(seqs)
    except Exception as ex:  # noqa: BLE001
        return exc_mechanism(prefix, ex), repr(ex)[:300]
    return prefix + "/not-completed", "main() succeeded on re-run"


def project(d, a, b):
    cols = [(x, y) for x, y in zip(d[a], d[b]) if not (x == "-" and y == "-")]
    return "".join(x for x, _ in cols), "".join(y for _, y in cols)


def ref_gaps(row):
    """{reference position: insertion length before it} of a gapped reference row"""
    out, p = {}, 0
    for c in row:
        if c == "-":
            out[p] = out.get(p, 0) + 1
        else:
            p += 1
    return out


def injection_classes(pw, ref, other):
    """where, relative to the query's own gaps, the union of reference gaps forces new columns into each pairwise alignment"""
    union = {}
    for k in other:
        for p, ln in ref_gaps(pw[k][0]).items():
            union[p] = max(union.get(p, 0), ln)
    out = {}
    for k in other:
        r, q = pw[k]
        own = ref_gaps(r)
        # column of reference residue p in this pairwise alignment (len for p == len(ref))
        col, p = {}, 0
        for c, ch in enumerate(r):
            if ch != "-":
                col[p] = c
                p += 1
        col[p] = len(r)
        cls = set()
        for p, ln in union.items():
            if own.get(p, 0) >= ln:
                continue
            c = col[p]
            before = c > 0 and q[c - 1] == "-" and r[c - 1] != "-"
            after = c < len(q) and q[c] == "-"
            if before and after:
                cls.add("inside-query-gap")
            elif before or after:
                cls.add("at-query-gap-edge")
            elif own.get(p, 0):
                cls.add("extends-own-ref-gap")
            else:
                cls.add("between-residues")
        out[k] = cls
    return out


def check_toref(res, case):
    from cogent3 import get_app, make_unaligned_seqs

    data, moltype, ref = case["data"], case["moltype"], case["ref"]
    kw = dict(case.get("kwargs", {}))
    op = "C18/align_to_ref"
    replay = {"kind": "one-toref", "data": data, "moltype": moltype, "ref": ref, "kwargs": kw}

    def bad(mech, **detail):
        res.witness(mech, data=data, moltype=moltype, ref=ref, kwargs=kw, **detail, replay_case=replay)

    live = case.get("_live")  # {"Sd": dict, "S": rows, "apps": {}}: one scoring dict object shared by all apps of a history
    pw_cache = case.get("_pw_cache")
    if live:
        replay = case["_replay"]

    def make_app(name):
        if not live:
            return get_app("align_to_ref", ref_seq=name, moltype=moltype, **kw)
        key = (name, moltype, tuple(sorted(kw.items())))
        if key not in live["apps"]:
            live["apps"][key] = get_app("align_to_ref", ref_seq=name, moltype=moltype, score_matrix=live["Sd"], **kw)
        return live["apps"][key]

    def run(d):
        seqs = make_unaligned_seqs(d, moltype=moltype)
        app = make_app(ref)
        out = app(seqs)
        if not hasattr(out, "to_dict"):
            return None, app_failure(app, seqs, op)
        return out.to_dict(), None

    names = list(data)
    ref_name = ref
    if ref == "longest":
        ref_name = max((len(v), k) for k, v in data.items())[1]
    other = [k for k in names if k != ref_name]
    try:
        with Setting(HUGE) as st_msa:
            msa, fail = run(data)
    except Exception as ex:  # noqa: BLE001
        res.evals += 1
        bad(exc_mechanism(op, ex), error=repr(ex)[:300])
        return
    if live and not fail:
        # the pair-HMMs the app built must be those of the dict's CURRENT contents
        alpha = alphabet_of(moltype)
        pos = {c: i for i, c in enumerate(alpha)}
        logn = math.log(len(alpha))
        for cap, k in zip(st_msa.caps if len(st_msa.caps) == len(other) else [], other):
            hmm = HMM(cap, len(data[ref_name]), len(data[k]))
            if not hmm.ok:
                continue
            res.evals += 1
            res.count("toref:emissions-vs-current-dict")
            wrong = [
                (a, b)
                for i, a in enumerate(data[ref_name], 1)
                for j, b in enumerate(data[k], 1)
                if abs(hmm.eM[i][j] - (logn + live["S"][pos[a]][pos[b]])) > 1e-9
            ]
            if wrong:
                bad(f"{op}/match-emissions-differ-from-scoring-dict", row=k, ref_residue=wrong[0][0], row_residue=wrong[0][1])
                return
    res.evals += 1
    res.count("toref:msa")
    if fail:
        bad(fail[0], error=fail[1])
        return
    if sorted(msa) != sorted(names):
        bad(f"{op}/rows-missing", msa=msa)
        return
    if len({len(v) for v in msa.values()}) != 1:
        bad(f"{op}/ragged", msa=msa)
        return
    res.evals += 1
    wrong = [k for k in names if msa[k].replace("-", "") != data[k]]
    if wrong:
        bad(f"{op}/degapped-rows-differ-from-input", msa=msa, rows=wrong)
        return
    pw = {}
    for k in other:
        pair = {ref_name: data[ref_name], k: data[k]}
        if pw_cache is not None and (ref_name, k) in pw_cache:
            pw[k] = pw_cache[ref_name, k]
            continue
        try:
            with Setting(HUGE):
                # same app, that pair alone; name the reference explicitly so 'longest' cannot pick the other one
                seqs = make_unaligned_seqs(pair, moltype=moltype)
                out = make_app(ref_name)(seqs)
            p = out.to_dict()
        except Exception as ex:  # noqa: BLE001
            res.evals += 1
            bad(exc_mechanism(op + "/pair-alone", ex), error=repr(ex)[:300], pair=pair)
            return
        pw[k] = (p[ref_name], p[k])
        if pw_cache is not None:
            pw_cache[ref_name, k] = pw[k]
    classes = injection_classes(pw, ref_name, other)
    for k in other:
        res.evals += 1
        got = project(msa, ref_name, k)
        for c in classes[k]:
            res.count("toref:class:" + c)
        if classes[k]:
            res.sig("toref", moltype, min(len(names), 4), *sorted(classes[k]), *layout_class(*pw[k])[:2])
        if got != pw[k]:
            mech = F18 if "inside-query-gap" in classes[k] else f"{op}/pairwise-alignment-not-preserved/" + ("+".join(sorted(classes[k])) or "no-injection")
            bad(mech, row=k, msa=msa, projected=got, pairwise=pw[k])
    res.sample({"data": data, "ref": ref, "msa": msa})


def gen_toref(rng, moltype):
    letters = list("ACGT") if moltype == "dna" else rng.choice([list("ACDEFGHIKLMNPQRSTVWY"), list("AKLMV")])
    L = rng.randint(4, 30)
    base = rand_seq(rng, letters, L)
    k = rng.randint(2, 6)
    data = {}
    for i in range(k):
        data[f"s{i}"] = base if (i == 0 and rng.random() < 0.5) else mutate(rng, base, letters, rng.choice([0.05, 0.1, 0.2]), 0.08)
    kw = {}
    if rng.random() < 0.5:
        kw["insertion_penalty"] = rng.choice([2, 5, 10, 20])
        kw["extension_penalty"] = rng.choice([0, 1, 2])
    return data, kw


# ---------------------------------------------------------------------------
# progressive


def newick_for(rng, names):
    """random bifurcating guide tree with positive lengths"""
    items = [f"{n}:{rng.choice([0.01, 0.05, 0.1, 0.3])}" for n in names]
    rng.shuffle(items)
    while len(items) > (2 if len(names) == 2 else 3):
        a = items.pop(rng.randrange(len(items)))
        b = items.pop(rng.randrange(len(items)))
        items.append(f"({a},{b}):{rng.choice([0.01, 0.05, 0.1])}")
    return "(" + ",".join(items) + ");"


def gen_prog(rng, model):
    if model == "codon":
        codons = ["ATG", "GCT", "GCC", "AAA", "GAT", "CTG", "TTC", "GGA", "CAT", "TCA", "CCG", "AGA"]
        L = rng.randint(2, 8)
        base = [rng.choice(codons) for _ in range(L)]
        k = rng.randint(2, 4)
        data = {}
        for i in range(k):
            s = []
            for c in base:
                r = rng.random()
                if r < 0.12:
                    continue
                if r < 0.22:
                    s.append(rng.choice(codons))
                s.append(c if rng.random() > 0.15 else rng.choice(codons))
            data[f"s{i}"] = "".join(s) or rng.choice(codons)
        return data
    letters = list("ACGT") if model == "nucleotide" else list("ACDEFGHIKLMNPQRSTVWY")
    L = rng.randint(3, 30)
    base = rand_seq(rng, letters, L)
    k = rng.choice([2, 2, 3, 4, 5, 6])
    return {f"s{i}": mutate(rng, base, letters, rng.choice([0.05, 0.12]), 0.1) for i in range(k)}


def run_prog(case, limit, mode):
    from cogent3 import get_app, make_tree, make_unaligned_seqs
    from cogent3.align.progressive import tree_align

    data, model = case["data"], case["model"]
    moltype = "protein" if model == "protein" else "dna"
    seqs = make_unaligned_seqs(data, moltype=moltype)
    with Setting(limit, mode) as st:
        if case["entry"] == "app":
            kw = dict(indel_rate=case["indel_rate"], indel_length=case["indel_length"])
            if case.get("tree"):
                kw["guide_tree"] = case["tree"]
            out = get_app("progressive_align", model, **kw)(seqs)
            if not hasattr(out, "to_dict"):
                st.fail = (str(getattr(out, "origin", "?")), str(getattr(out, "message", out))[-600:])
                return None, st
        else:
            m = {"nucleotide": "HKY85", "protein": "JTT92", "codon": "MG94HKY"}[model]
            pv = {"nucleotide": {"kappa": 3.0}, "codon": {"kappa": 3.0, "omega": 0.4}}.get(model)
            tree = make_tree(case["tree"]) if case.get("tree") else None
            out, _ = tree_align(m, seqs, tree=tree, indel_rate=case["indel_rate"], indel_length=case["indel_length"], param_vals=pv, show_progress=False)
    return out.to_dict(), st


def check_prog(res, case):
    data, model = case["data"], case["model"]
    op = f"C18/progressive/{case['entry']}"
    replay = {"kind": "one-prog", **{k: case[k] for k in ("data", "model", "entry", "tree", "indel_rate", "indel_length")}}
    names = sorted(data)
    two = len(names) == 2

    def bad(mech, **detail):
        res.witness(mech, **{k: case[k] for k in ("data", "model", "tree", "indel_rate", "indel_length")}, **detail, replay_case=replay)

    def content_ok(rows, tag):
        res.evals += 1
        if rows is None:
            return False
        if sorted(rows) != names:
            bad(f"{op}/{tag}rows-missing", rows=rows)
            return False
        if len({len(v) for v in rows.values()}) != 1:
            bad(f"{op}/{tag}ragged", rows=rows)
            return False
        wrong = [k for k in names if rows[k].replace("-", "") != data[k]]
        if wrong:
            bad(f"{op}/{tag}degapped-rows-differ-from-input", rows=rows, wrong=wrong)
            return False
        return True

    def attempt(limit, mode, tag):
        try:
            rows, st = run_prog(case, limit, mode)
        except Exception as ex:  # noqa: BLE001
            res.evals += 1
            bad(exc_mechanism(f"{op}/{tag}".rstrip("/"), ex), error=repr(ex)[:300])
            return None, None
        if rows is None:
            if not case.get("tree") and st.fail[0] != "progressive_align":
                # no guide tree could be estimated (e.g. no distance defined between two short unrelated sequences):
                # the app declines with a NotCompleted from the distance / tree step, before any alignment is attempted
                res.refused += 1
                res.count("prog:refused:no-guide-tree@" + st.fail[0])
                return None, None
            res.evals += 1
            bad(f"{op}/{tag}not-completed@{st.fail[0]}", message=st.fail[1])
            return None, None
        return rows, st

    def steps_ok(st_, tag):
        """every pairwise step of the progressive alignment: reported Viterbi score == independent optimum == its own traceback re-scored"""
        for cap in st_.caps:
            hmm = HMM(cap)
            if not hmm.ok:
                res.count("prog:step-not-representable")
                continue
            shape = "sequences" if hmm.chain else "sub-alignments"
            res.count("prog:steps:" + shape)
            res.evals += 2
            opt = hmm.viterbi(False)
            got = hmm.score_traceback(cap["tb"])
            detail = dict(rows=rows, reported=cap["score"], optimum=opt, traceback_rescored=got, sizes=[hmm.n, hmm.m], shape=shape)
            score_ok = close(opt, cap["score"])
            path_ok = not isinstance(got, str) and close(got, cap["score"])
            if tag == "hirschberg/" and not hmm.chain and not (score_ok and path_ok):
                bad(HPOG, **detail)
            elif tag == "hirschberg/" and score_ok and not isinstance(got, str) and not path_ok:
                bad(HSEQ, **detail)
            else:
                if not score_ok:
                    which = "suboptimal" if opt > cap["score"] else "exceeds-optimum"
                    bad(f"{op}/{tag}step-score-{which}/{shape}", **detail)
                if isinstance(got, str):
                    bad(f"{op}/{tag}step-traceback-is-no-path/{shape}", **detail)
                elif not path_ok:
                    bad(f"{op}/{tag}step-traceback-score-differs-from-reported/{shape}", **detail)
            if hmm.n <= 5 and hmm.m <= 5:
                bf, _ = hmm.brute(False)
                res.evals += 1
                res.count("prog:steps:enumerated")
                if not close(bf, opt):
                    bad("C18/harness/viterbi-model-disagrees-with-enumeration", optimum=opt, best=bf, shape=shape)

    rows, st = attempt(HUGE, None, "")
    if rows is None:
        return
    res.count("prog:" + ("two" if two else "multi"))
    res.count("prog:model:" + model)
    if not content_ok(rows, ""):
        return
    steps_ok(st, "")
    gapped = any("-" in v for v in rows.values())
    ngap = min(3, sum(1 for v in rows.values() if "-" in v))
    if gapped:
        res.sig("prog", case["entry"], model, min(len(names), 4), bool(case.get("tree")), ngap, "dp")
    # the alignment of two sequences is a pairwise Viterbi path: the returned rows must score what was reported
    if two and len(st.caps) == 1 and model != "codon":
        cap = st.caps[0]
        got = None
        for first, second in ((names[0], names[1]), (names[1], names[0])):
            hmm = HMM(cap, len(data[first]), len(data[second]))
            if hmm.ok:
                got = hmm.score_rows(rows[first], rows[second], 0, 0, False)
                if close(got, cap["score"]):
                    break
        if hmm.ok or got is not None:
            res.count("prog:two-seq-optimality")
            res.evals += 1
            if not close(got, cap["score"]):
                bad(f"{op}/two-sequences/returned-rows-score-differs-from-viterbi-score", rows=rows, reported=cap["score"], rescored=got)
    # relations: forced linear space, un-jitted kernels
    relations = [(case.get("limit", 0), None, "hirschberg/")]
    if model != "codon":
        relations.append((HUGE, "py_func", "kernel-py_func/"))
    for limit, mode, tag in relations:
        rows2, st2 = attempt(limit, mode, tag)
        if rows2 is None:
            continue
        if mode is None:
            if not st2.hirsch:
                res.count("prog:hirschberg-not-applicable")
                continue
            res.count("prog:hirschberg-ran")
        else:
            if not st2.swaps:
                continue
            res.count("prog:kernel-py_func")
        if not content_ok(rows2, tag):
            continue
        steps_ok(st2, tag)
        res.evals += 1
        s0 = [c["score"] for c in st.caps]
        s1 = [c["score"] for c in st2.caps]
        if len(s0) != len(s1):
            bad(f"{op}/{tag}different-number-of-pairwise-steps", full_dp=s0, other=s1)
        elif s0 and not close(s0[0], s1[0]):
            bad(f"{op}/{tag}first-step-score-differs", full_dp=s0, other=s1, rows_full=rows, rows_other=rows2)
        if gapped:
            res.sig("prog", case["entry"], model, min(len(names), 4), bool(case.get("tree")), ngap, tag, rows2 == rows)
    res.sample({"data": data, "model": model, "rows": rows})


# ---------------------------------------------------------------------------
# histories on long-lived objects: ONE scoring dict per moltype edited in place between calls, the same sequence
# objects and align_to_ref app objects reused; every step is decided against the dict's CURRENT contents

HIST = "C18/history/result-depends-on-earlier-calls-with-the-same-objects"


def _merge(res, r, replace_witnesses=None):
    res.evals += r.evals
    res.refused += r.refused
    for k, v in r.counters.items():
        if not k.startswith("witness:"):
            res.count(k, v)
    for sg in r.sigs:
        res.sig(sg)
    for w in r.witnesses if replace_witnesses is None else replace_witnesses:
        res.witness(w["mechanism"], **w["detail"])


def check_history(res, case):
    from cogent3 import make_seq

    rng = random.Random(case["seed"])
    replay = {"kind": "history", "seed": case["seed"], "steps": case["steps"]}
    state = {}
    for mt in ("dna", "protein"):
        alpha = alphabet_of(mt)
        kind, S, _, _, _ = gen_scoring(rng, mt)
        S = [list(r) for r in S]
        Sd = {(a, b): S[i][j] for i, a in enumerate(alpha) for j, b in enumerate(alpha)}
        letters = list("ACGT") if mt == "dna" else list("AKLMV")
        base = rand_seq(rng, letters, rng.randint(4, 10))
        pool = [base] + [mutate(rng, base, letters, 0.15, 0.15)[:12] for _ in range(3)]
        state[mt] = {"alpha": alpha, "S": S, "Sd": Sd, "apps": {}, "letters": letters, "pool": pool, "objs": {}, "edits": 0}
    log = []

    def seq_obj(st, mt, text, name):
        key = (text, name)
        if key not in st["objs"]:
            st["objs"][key] = make_seq(text, name=name, moltype=mt)
        return st["objs"][key]

    for step in range(case["steps"]):
        mt = rng.choice(["dna", "dna", "protein"])
        st = state[mt]
        alpha, S, Sd = st["alpha"], st["S"], st["Sd"]
        n = len(alpha)
        act = rng.choice(["edit", "edit", "pair", "pair", "pair", "toref"]) if step else "pair"
        if act == "edit":
            how = rng.choice(["mismatch", "asym", "match", "class"])
            i, j = rng.sample(range(n if mt == "protein" else 4), 2)
            if mt == "protein":
                idx = [alpha.index(c) for c in st["letters"]]
                i, j = rng.sample(idx, 2)
            v = rng.randint(-9, 6)
            if how == "mismatch":
                S[i][j] = S[j][i] = v
            elif how == "asym":
                S[i][j] = S[j][i] + rng.choice([-5, -3, 4, 6])
            elif how == "match":
                S[i][i] = rng.randint(1, 12)
            else:
                for a in range(n):
                    if a != i:
                        S[a][i] = S[i][a] = v
            for a in range(n):
                for b in range(n):
                    Sd[alpha[a], alpha[b]] = S[a][b]  # in place: same dict object
            st["edits"] += 1
            log.append([step, mt, "edit:" + how])
            res.count("history:edit")
            continue
        snapshot = [list(r) for r in S]
        if act == "pair":
            t1, t2 = (rng.choice(st["pool"]) for _ in range(2))
            if rng.random() < 0.25:
                t2 = mutate(rng, t1, st["letters"], 0.15, 0.15)[:12]
            local = rng.random() < 0.4
            d, e = rng.choice([1, 2, 5, 10]), rng.choice([0, 1, 2])
            log.append([step, mt, "local" if local else "global", t1, t2, d, e])
            c = {"s1": t1, "s2": t2, "moltype": mt, "S": snapshot, "d": d, "e": e, "local": local, "skind": "history",
                 "modes": [], "limits": [0] if rng.random() < 0.3 else [], "_replay": replay}  # fmt: skip
            r_live = Result()
            check_pair(r_live, {**c, "_live": {"Sd": Sd, "q1": seq_obj(st, mt, t1, "s1"), "q2": seq_obj(st, mt, t2, "s2")}})
            res.count("history:pair")
            if st["edits"]:
                res.count("history:pair-after-edit")
                res.sig("history", mt, "pair", "local" if local else "global", min(st["edits"], 3))
            fresh = lambda: check_pair(r_fresh, c)  # noqa: E731
        else:
            k = rng.randint(3, 4)
            data = {f"s{i}": (st["pool"] + [mutate(rng, st["pool"][0], st["letters"], 0.15, 0.1)[:12]])[i] for i in range(k)}
            if len(set(data.values())) < 2:
                continue
            ref = rng.choice(list(data))
            kw = {"insertion_penalty": rng.choice([5, 10, 20]), "extension_penalty": rng.choice([1, 2])}
            log.append([step, mt, "align_to_ref", data, ref, kw])
            c = {"data": data, "moltype": mt, "ref": ref, "kwargs": kw}
            r_live = Result()
            check_toref(r_live, {**c, "_live": {"Sd": Sd, "S": snapshot, "apps": st["apps"]}, "_replay": replay})
            res.count("history:toref")
            if st["edits"]:
                res.count("history:toref-after-edit")
                res.sig("history", mt, "toref", min(st["edits"], 3))
            # fresh objects: a new dict with the same contents, new app
            fresh = lambda: check_toref(r_fresh, {**c, "_live": {"Sd": {(a, b): snapshot[i][j] for i, a in enumerate(alpha) for j, b in enumerate(alpha)}, "S": snapshot, "apps": {}}, "_replay": replay})  # noqa: E731
        new = [w for w in r_live.witnesses if w["mechanism"] not in (F18, HPOG)]
        if new and step:
            # classify: does the same call with fresh objects (same contents) behave?
            r_fresh = Result()
            fresh()
            if not [w for w in r_fresh.witnesses if w["mechanism"] not in (F18, HPOG)]:
                keep = [w for w in r_live.witnesses if w["mechanism"] in (F18, HPOG)]
                d0 = dict(new[0]["detail"])
                d0.pop("replay_case", None)
                keep.append({"mechanism": HIST, "detail": {"history": log, "step": step, "seen_as": new[0]["mechanism"], "first": d0, "replay_case": replay}})
                _merge(res, r_live, keep)
                return
        _merge(res, r_live)
    res.sample({"history": log[:6]})


# ---------------------------------------------------------------------------
# the smith_waterman app: same oracle as local_pairwise, but the model is built from the arguments AS GIVEN
# (first sequence of the collection x second sequence, S[(motif of first, motif of second)])


def given_model_cap(cap, first, second, moltype, S):
    """a capture whose emissions are re-derived from the scoring dict for (first, second); transitions as observed"""
    alpha = alphabet_of(moltype)
    pos = {c: i for i, c in enumerate(alpha)}
    logn = math.log(len(alpha))
    n, m = len(first), len(second)
    M = np.zeros((1, n + 2, m + 2))
    for i, a in enumerate(first, 1):
        for j, b in enumerate(second, 1):
            M[0, i, j] = logn + S[pos[a]][pos[b]]
    return {
        **cap,
        "M": M,
        "X": np.zeros((1, n + 2)),
        "Y": np.zeros((1, m + 2)),
        "i1": list(range(n + 2)),
        "i2": list(range(m + 2)),
        "p1": [[]] + [[k - 1] for k in range(1, n + 2)],
        "p2": [[]] + [[k - 1] for k in range(1, m + 2)],
    }


def check_sw(res, case):
    from cogent3 import get_app, make_unaligned_seqs

    s1, s2, moltype, S, d, e = case["s1"], case["s2"], case["moltype"], case["S"], case["d"], case["e"]
    skind = case.get("skind", "?")
    op = "C18/smith_waterman"
    replay = {"kind": "one-sw", **{k: case[k] for k in ("s1", "s2", "moltype", "S", "d", "e")}, "skind": skind}

    def bad(mech, **detail):
        res.witness(mech, s1=s1, s2=s2, moltype=moltype, d=d, e=e, scoring=skind, **detail, replay_case=replay)

    alpha = alphabet_of(moltype)
    Sd = {(a, b): S[i][j] for i, a in enumerate(alpha) for j, b in enumerate(alpha)}
    data = {"first": s1, "second": s2}
    try:
        with Setting(HUGE) as st:
            seqs = make_unaligned_seqs(data, moltype=moltype)
            app = get_app("smith_waterman", score_matrix=Sd, insertion_penalty=d, extension_penalty=e, moltype=moltype)
            out = app(seqs)
            if not hasattr(out, "to_dict"):
                mech, err = app_failure(app, seqs, op)
                res.evals += 1
                bad(mech, error=err)
                return
            rows = out.to_dict()
            names = list(out.names)
            reported = out.info.get("align_params", {}).get("sw_score")
    except Exception as ex:  # noqa: BLE001
        res.evals += 1
        bad(exc_mechanism(op, ex), error=repr(ex)[:300])
        return
    order = "first-longer" if len(s1) > len(s2) else ("second-longer" if len(s2) > len(s1) else "equal-length")
    res.count("sw:app")
    res.count("sw:" + order)
    res.count("sw:scoring:" + skind)
    if names != ["first", "second"]:
        res.count("sw:row-order-differs-from-input")  # observation only: the property speaks about rows, not their order
    # clause 1: each NAMED row is a contiguous part of the input with that name
    res.evals += 1
    if sorted(rows) != ["first", "second"]:
        bad(f"{op}/rows-missing", rows=rows)
        return
    r1, r2 = rows["first"], rows["second"]
    if len(r1) != len(r2):
        bad(f"{op}/ragged", rows=rows)
        return
    u1, u2 = r1.replace("-", ""), r2.replace("-", "")
    o1, o2 = occurrences(u1, s1) if u1 else [], occurrences(u2, s2) if u2 else []
    if not o1 or not o2:
        bad(f"{op}/rows-not-contiguous-part-of-the-input-of-that-name", rows=rows)
        return
    if len(st.caps) != 1 or not st.caps[0]["use_logs"]:
        res.count("sw:unexpected-capture")
        return
    cap = st.caps[0]
    # transitions: those the gap penalties define (inner 3x3), then the model for the arguments as given
    name = {(1, 0): "X", (0, 1): "Y", (1, 1): "M"}
    stt = {name[dx, dy]: s_ for s_, _, dx, dy in cap["sd"]}
    ET = expected_T(d, e)
    res.evals += 1
    if any(abs(cap["T"][stt[a], stt[b]] - ET[a, b]) > 1e-12 + 1e-9 * ET[a, b] for a in "XYM" for b in "XYM"):
        bad(f"{op}/transitions-differ-from-gap-penalties")
        return
    hmm = HMM(given_model_cap(cap, s1, s2, moltype, S))
    opt = hmm.viterbi(True)
    res.evals += 2
    if reported is None or not close(float(reported), opt):
        which = "missing" if reported is None else ("suboptimal" if opt > reported else "exceeds-optimum")
        bad(f"{op}/reported-score-{which}-for-the-scoring-dict-as-given", rows=rows, reported=reported, optimum=opt, order=order)
    vals = [hmm.score_rows(r1, r2, a, b, True) for a in o1 for b in o2]
    if reported is not None and not any(close(v, float(reported)) for v in vals):
        bad(f"{op}/reported-score-differs-from-rescored-path-for-the-scoring-dict-as-given", rows=rows, reported=reported, rescored=vals, optimum=opt, order=order)
    if len(s1) <= 6 and len(s2) <= 6 and len(s1) * len(s2) <= 30:
        bf, _ = hmm.brute(True)
        res.evals += 1
        res.count("sw:enumerated")
        if not close(bf, opt):
            bad("C18/harness/viterbi-model-disagrees-with-enumeration", optimum=opt, best=bf)
    lay = layout_class(r1, r2)
    trimmed = len(u1) < len(s1) and len(u2) < len(s2)
    if skind == "asym":
        res.count("sw:asymmetric:" + order)
    if trimmed or (lay[0] and lay[1]) or skind == "asym":
        res.sig("sw", moltype, skind, order, "trim" if trimmed else "full", *lay[:2])
    res.sample({"s1": s1, "s2": s2, "d": d, "e": e, "rows": rows, "sw_score": reported})


def gen_sw(rng, moltype):
    letters = list("ACGT") if moltype == "dna" else rng.choice([list("AKLMV"), list("ACDEFGHIKLMNPQRSTVWY")])
    alpha = alphabet_of(moltype)
    n = len(alpha)
    idx = [alpha.index(c) for c in letters]
    kind = rng.choice(["asym", "asym", "asym", "randsym", "generic"])
    S = [[(rng.randint(2, 10) if i == j else -1) for j in range(n)] for i in range(n)]
    if kind != "generic":
        for i in idx:
            for j in idx:
                if i < j:
                    S[i][j] = S[j][i] = rng.randint(-8, 1)
    if kind == "asym":
        # strongly asymmetric among the letters in use: (a, b) pairs well, (b, a) does not
        for _ in range(max(2, len(idx) // 2)):
            i, j = rng.sample(idx, 2)
            S[i][j], S[j][i] = rng.randint(3, 9), rng.randint(-9, -4)
    core = rand_seq(rng, letters, rng.randint(3, 14))
    a = rand_seq(rng, letters, rng.randint(0, 6)) + core + rand_seq(rng, letters, rng.randint(0, 6))
    b = rand_seq(rng, letters, rng.randint(0, 4)) + mutate(rng, core, letters, 0.1, 0.25) + rand_seq(rng, letters, rng.randint(0, 12))
    if rng.random() < 0.2:
        b = rand_seq(rng, letters, rng.randint(1, 20))
    if rng.random() < 0.5:
        a, b = b, a
    return a[:30], b[:30], kind, S, rng.choice([1, 2, 5, 10, 20]), rng.choice([0, 1, 2])


# ---------------------------------------------------------------------------
# progressive_align: ONE app instance over several collections, and guide trees that do not match the collection.
# Either the app declines (NotCompleted) or it returns one row per input sequence whose degapped content is that input.


def check_reuse(res, case):
    from cogent3 import get_app, make_unaligned_seqs

    model, calls = case["model"], case["calls"]
    moltype = "protein" if model == "protein" else "dna"
    kw = dict(case.get("kwargs", {}))
    op = "C18/progressive/app-reuse"
    replay = {"kind": "one-reuse", "model": model, "calls": calls, "kwargs": kw}
    try:
        app = get_app("progressive_align", model, **kw)
    except Exception as ex:  # noqa: BLE001
        res.evals += 1
        res.witness(exc_mechanism(op + "/constructor", ex), model=model, kwargs=kw, error=repr(ex)[:300], replay_case=replay)
        return
    tree_names = set(case["tree_names"]) if case.get("tree_names") else None
    prev = None
    for k, data in enumerate(calls):
        names = set(data)
        if tree_names is not None:
            rel = "same-names" if names == tree_names else ("tree-lacks-a-sequence" if names > tree_names else "tree-has-extra-tip" if names < tree_names else "names-differ")
            cls = "given-tree/" + rel
        elif prev is None:
            cls = "first-call"
        else:
            rel = "same-names" if names == prev else ("more-names" if names > prev else "fewer-names" if names < prev else "names-differ")
            cls = ("fresh-tree-each-call/" if kw.get("unique_guides") else "cached-tree/") + rel
        prev = names if prev is None else prev  # the tree estimated at the first completed call is the one that is kept

        def bad(mech, **detail):
            res.witness(mech, model=model, kwargs=kw, calls=calls, call=k, situation=cls, **detail, replay_case=replay)

        try:
            with Setting(HUGE):
                out = app(make_unaligned_seqs(data, moltype=moltype))
        except Exception as ex:  # noqa: BLE001
            res.evals += 1
            bad(exc_mechanism(f"{op}/{cls}", ex), error=repr(ex)[:300])
            continue
        res.evals += 1
        res.count("reuse:" + cls)
        if not hasattr(out, "to_dict"):
            res.refused += 1
            res.count("reuse:declined:" + cls)
            if cls == "first-call":
                prev = None
            continue
        rows = out.to_dict()
        res.count("reuse:aligned:" + cls)
        missing = sorted(names - set(rows))
        extra = sorted(set(rows) - names)
        if missing:
            bad(f"{op}/{cls}/input-sequences-missing-from-result", missing=missing, rows=rows)
            continue
        if extra:
            bad(f"{op}/{cls}/rows-that-are-no-input", extra=extra, rows=rows)
            continue
        if len({len(v) for v in rows.values()}) != 1:
            bad(f"{op}/{cls}/ragged", rows=rows)
            continue
        wrong = [n_ for n_ in sorted(names) if rows[n_].replace("-", "") != data[n_]]
        if wrong:
            bad(f"{op}/{cls}/degapped-rows-differ-from-input", wrong=wrong, rows=rows)
            continue
        res.sig("reuse", model, cls, min(len(names), 5), any("-" in v for v in rows.values()))
    res.sample({"calls": calls[:2], "kwargs": kw})


def gen_reuse(rng, model):
    letters = list("ACGT") if model == "nucleotide" else list("ACDEFGHIKLMNPQRSTVWY")
    base = rand_seq(rng, letters, rng.randint(10, 30))
    pool = [f"s{i}" for i in range(6)]

    def coll(names):
        return {n_: mutate(rng, base, letters, 0.08, 0.1) for n_ in names}

    first = rng.sample(pool, rng.randint(3, 5))
    kw = {"indel_rate": rng.choice([0.01, 0.05]), "indel_length": rng.choice([0.1, 0.3])}
    scenario = rng.choice(["cached", "cached", "given", "unique"])
    tree_names = None
    if scenario == "given":
        tnames = list(first)
        tree_names = tnames
        kw["guide_tree"] = newick_for(rng, tnames)
    elif scenario == "unique":
        kw["unique_guides"] = True
    calls = [coll(first)]
    others = [n_ for n_ in pool if n_ not in first]
    for _ in range(rng.randint(2, 3)):
        how = rng.choice(["same", "same", "more", "fewer", "swap"])
        if how == "more" and others:
            names = first + [rng.choice(others)]
        elif how == "fewer" and len(first) > 3:
            names = rng.sample(first, len(first) - 1)
        elif how == "swap" and others:
            names = first[:-1] + [rng.choice(others)]
        else:
            names = list(first)
        rng.shuffle(names)
        calls.append(coll(names))
    if scenario == "given" and rng.random() < 0.5:
        # the very first call already disagrees with the given tree
        calls[0] = coll(first + [others[0]]) if others else calls[0]
    if scenario == "unique":
        tree_names = None
    return {"model": model, "calls": calls, "kwargs": kw, "tree_names": tree_names, "scenario": scenario}


# ---------------------------------------------------------------------------


def run_case(case):
    res = Result()
    kind = case["kind"]
    if kind == "tiny-all":
        maxL = case["maxL"]
        strings = ["".join(t) for L in range(1, maxL + 1) for t in itertools.product("AGC", repeat=L)]
        from cogent3.align.align import make_dna_scoring_dict

        alpha = alphabet_of("dna")
        models = []
        for args, d, e in (((2, -1, -3), 2, 1), ((1, 0, -1), 0.5, 0))[: case.get("models", 2)]:
            Sd = make_dna_scoring_dict(*args)
            models.append(([[Sd[a, b] for b in alpha] for a in alpha], d, e))
        for s1 in strings[case["lo"] : case["hi"]]:
            for s2 in strings:
                for S, d, e in models:
                    for local in (False, True):
                        heavy = len(s1) == 3 and len(s2) == 3
                        check_pair(
                            res,
                            {"s1": s1, "s2": s2, "moltype": "dna", "S": S, "d": d, "e": e, "local": local, "skind": "dna",
                             "modes": ["py_func", "py_ref"] if heavy else [], "limits": [0] if len(s1) >= 3 else []},
                        )  # fmt: skip
                        res.count("tiny-all")
    elif kind in ("small", "pairs"):
        rng = random.Random(case["seed"])
        moltype = case["moltype"]
        for _ in range(case["n"]):
            if kind == "small":
                s1, s2, k, ambig = gen_pair(rng, moltype, 6)
                s1, s2 = s1[:6], s2[:6]
            else:
                s1, s2, k, ambig = gen_pair(rng, moltype, case["maxlen"])
            skind, S, d, e, helper = gen_scoring(rng, moltype)
            if helper:
                check_helper(res, helper, S, moltype)
            size = (len(s1) + 2) * (len(s2) + 2) * 5
            for local in (False, True):
                check_pair(
                    res,
                    {"s1": s1, "s2": s2, "moltype": moltype, "S": S, "d": d, "e": e, "local": local, "skind": skind, "ambig": ambig,
                     "limits": [0, rng.choice([size // 2, size // 4, 60])], "modes": ["py_func", "py_ref"] if rng.random() < 0.5 else []},
                )  # fmt: skip
    elif kind == "history":
        check_history(res, case)
    elif kind == "sw":
        rng = random.Random(case["seed"])
        for _ in range(case["n"]):
            s1, s2, skind, S, d, e = gen_sw(rng, case["moltype"])
            check_sw(res, {"s1": s1, "s2": s2, "moltype": case["moltype"], "S": S, "d": d, "e": e, "skind": skind})
    elif kind == "one-sw":
        check_sw(res, case)
    elif kind == "reuse":
        rng = random.Random(case["seed"])
        for _ in range(case["n"]):
            check_reuse(res, gen_reuse(rng, case["model"]))
    elif kind == "one-reuse":
        check_reuse(res, case)
    elif kind == "one-pair":
        check_pair(res, case)
    elif kind == "toref":
        rng = random.Random(case["seed"])
        for _ in range(case["n"]):
            data, kw = gen_toref(rng, case["moltype"])
            refs = list(data)
            if case.get("refs"):
                refs = rng.sample(refs, min(len(refs), case["refs"]))  # quick: a sample of the reference choices
            refs += ["longest"] if rng.random() < 0.3 else []
            cache = {}
            for ref in refs:
                check_toref(res, {"data": data, "moltype": case["moltype"], "ref": ref, "kwargs": kw, "_pw_cache": cache})
    elif kind == "one-toref":
        check_toref(res, case)
    elif kind == "prog":
        rng = random.Random(case["seed"])
        for _ in range(case["n"]):
            data = gen_prog(rng, case["model"])
            names = sorted(data)
            two = len(names) == 2
            entry = rng.choice(["app", "tree_align"])
            tree = newick_for(rng, names) if (two or rng.random() < 0.6) else None
            if tree is None and entry == "tree_align" and case["model"] != "nucleotide":
                # without a tree tree_align optimises a likelihood function per pair for these models (minutes)
                tree = newick_for(rng, names)
            c = {"data": data, "model": case["model"], "entry": entry, "tree": tree,
                 "indel_rate": rng.choice([1e-10, 0.01, 0.05, 0.2]), "indel_length": rng.choice([0.1, 0.3, 0.6])}  # fmt: skip
            check_prog(res, c)
    elif kind == "one-prog":
        check_prog(res, case)
    return res
