"""C04 — annotations keep denoting the same residues through every view.

Shape B (boundary recorder + executable model).  The harness owns the parent
string(s) and, per feature, the plus-strand span list in *parent* coordinates and
the strand.  A view is (lo, hi, reversed) on the parent (sequences) or on the
alignment columns (alignments).  After every step of a history the real object is
asked for its features (whole view and windows from the boundary lattice,
allow_partial on/off) and every returned feature is compared with the model:

    expected slice      = parent residues of the feature's spans clipped to [lo, hi),
                          joined in plus-strand order, reverse-complemented iff the
                          feature is on '-'  (independent of the view's own strand)
    expected positions  = the same residues as view-relative indices
    expected membership = features whose extent overlaps (allow_partial) / lies
                          inside (not allow_partial) the queried window

A scenario is a plain JSON value; every witness carries the scenario as its
replay case.
"""

import copy as _copy
import os
import random
import tempfile

from vmon.core import Result, exc_mechanism

ID = "C04"
LEVEL = "exploration"
RULE = (
    "Seeded scenarios, each a plain-JSON value. Sequence level: parent of 4-40 (thorough: up to 90) residues, old and "
    "new Sequence types, annotation_offset 0 or >0, 1-4 features of 1-3 spans on either strand whose span ends are "
    "drawn from the boundary lattice (lo, hi, +-1) of every view the history will visit; features are introduced by "
    "add_feature on the root, add_feature on a view (forward or reverse-complemented), an annotation db in absolute "
    "coordinates (BasicAnnotationDb / GffAnnotationDb, features may extend past the sequence ends), or GFF text via "
    "annotate_from_gff; history of depth 0-4 (thorough 1-6) over slice / rc / copy(sliced|unsliced) / copy.deepcopy / "
    "degap / slice-by-feature; a gapped-parent variant ends in degap. After every step: get_features(allow_partial "
    "on/off) for the whole view, for windows drawn from the lattice of view and span boundaries (each written in one "
    "of the forms Python slicing allows: both bounds >= 0, both negative, negative stop with non-negative or omitted "
    "start, negative start with positive or omitted stop, bounds omitted) and by biotype; for each returned feature get_slice(), map coordinates, parent[feature], "
    "get_slice(allow_gaps=True) (covering span, gaps/introns kept, reverse-complemented for a reverse feature) and "
    "get_slice(complete=True) (same as the default when the feature is wholly present). "
    "Alignment level (old Alignment; there is no new-type Alignment in this tree): 1-3 (thorough 1-5) gapped rows, "
    "sequence features on rows introduced by add_feature(seqid=) / loaded db / GFF, alignment features "
    "(on_alignment=True, either strand); history over column slice / rc / copy / deepcopy(sliced|unsliced) / "
    "get_projected_feature (what it writes into the shared db must not change any later query, on the view, its rows "
    "or the root) / slice-by-feature (single contiguous span) followed by queries on the result; after "
    "every step get_features(on_alignment=False|True|None), slices compared as row dicts, aln[feature]; at the end "
    "get_projected_feature onto a chosen row, get_seq(row).get_features and degap().get_features. Collection level "
    "(old/new SequenceCollection): built from strings or from annotated sequence views, add_feature/get_features "
    "over rc / take_seqs / copy, then get_seq + slice. Oracle = Python str slicing on the parent strings. A decided "
    "(feature, query) pair is non-trivial when the feature is multi-span or on '-' or has a span end on/next to a "
    "view or window boundary, after >=1 history step (alignment: also a gap inside the retained part of the row); "
    "distinct = (level, impl, introduction, strand, span count, span/boundary relation classes, view strand, "
    "allow_partial, query kind, last operation, membership|slice)."
)
LEVEL_TEXT = (
    "Seeded random histories with boundary-biased feature placement; every feature query after every step of every "
    "history is compared with a string/interval model (membership, slice, coordinates, obj[feature]); the first "
    "diverging step is the witness and carries the whole scenario as replay case. Sampled, not exhaustive."
)
LEVEL_NOTE = (
    "held = held on the executions listed in the evidence; trusted: Python str slicing, make_seq / make_aligned_seqs / "
    "make_unaligned_seqs as constructors; str(view) / to_dict() of every view is cross-checked against the model "
    "after every step before any feature is judged"
)
TECHNIQUE = "runtime monitoring: boundary recorder + executable string/interval model of views and features"
ASSUMPTIONS = [
    "Python str slicing on the parent string is the reference for 'the same residues'; a feature's slice joins its spans in plus-strand order and is reverse-complemented as a whole when the feature is on '-'",
    "a feature whose extent overlaps a window but none of whose spans does may or may not be returned (not demanded either way); if returned it must slice to the empty string without raising",
    "on a reverse-complemented view the spans given to add_feature may be read as view indices or as plus-strand coordinates from the view's plus-strand start; the reading shown by the returned feature is the one every later query is held to",
    "not checked because dropped by design: strided views, multi-span (or partial) slice-by-feature results, new-type SequenceCollection.rc(); deepcopy(sliced=True|False) of an alignment or collection must keep every feature of its source denoting the same residues (as it does on this tree)",
    "windows lie inside the view (0 <= start < stop <= len); empty or inverted windows and windows beyond the view are not queried",
]
TIMEOUT = {"quick": 3600, "thorough": 28000}

COMP = str.maketrans("ACGTacgt", "TGCAtgca")
BIOTYPES = ("gene", "CDS", "exon")


def rc(s):
    return s.translate(COMP)[::-1]


def flip(strand):
    return "-" if strand == "+" else "+"


# ---------------------------------------------------------------------------
# model


def view_apply(view, step, feats=None):
    """model of one history step on a view (lo, hi, rev); returns the new view"""
    lo, hi, rev = view
    op = step[0]
    if op == "slice":
        a, b = step[1], step[2]
        return (lo + a, lo + b, rev) if not rev else (hi - b, hi - a, rev)
    if op == "rc":
        return (lo, hi, not rev)
    if op in ("copy", "deepcopy", "degap", "project"):
        return view
    if op == "fslice":
        spans, strand = feats[step[1]]
        (a, b) = spans[0]
        return (max(a, lo), min(b, hi), strand == "-")
    raise ValueError(op)


def clip(spans, lo, hi):
    return [(max(a, lo), min(b, hi)) for a, b in spans if max(a, lo) < min(b, hi)]


def exp_slice(parent, spans, strand, lo, hi):
    s = "".join(parent[a:b] for a, b in clip(spans, lo, hi))
    return rc(s) if strand == "-" else s


def exp_slice_gaps(parent, spans, strand, lo, hi):
    """get_slice(allow_gaps=True): the covering span of what the view retains of the feature, everything between
    the spans kept, reverse-complemented when the feature is on '-'"""
    c = clip(spans, lo, hi)
    if not c:
        return ""
    s = parent[min(a for a, _ in c) : max(b for _, b in c)]
    return rc(s) if strand == "-" else s


def intervals(S):
    out = []
    for x in sorted(S):
        if out and out[-1][1] == x:
            out[-1][1] = x + 1
        else:
            out.append([x, x + 1])
    return [tuple(i) for i in out]


def exp_positions(spans, view):
    lo, hi, rev = view
    out = set()
    for a, b in clip(spans, lo, hi):
        for p in range(a, b):
            out.add(hi - 1 - p if rev else p - lo)
    return out


def window_parent(view, a, b):
    lo, hi, rev = view
    return (lo + a, lo + b) if not rev else (hi - b, hi - a)


def status(spans, wlo, whi, ap):
    """'in' / 'out' / 'amb' (extent overlaps the window but no span does: not demanded either way)"""
    a0 = min(a for a, _ in spans)
    b0 = max(b for _, b in spans)
    if not ap:
        return "in" if (a0 >= wlo and b0 <= whi) else "out"
    if any(max(a, wlo) < min(b, whi) for a, b in spans):
        return "in"
    if a0 < whi and b0 > wlo:
        return "amb"
    return "out"


def span_class(a, b, lo, hi, rev):
    """relation of a plus-strand span to the view, named in the *view's* orientation"""
    start, end = ("end", "start") if rev else ("start", "end")
    if b < lo or a > hi:
        return "away"
    if b == lo:
        return f"abuts-view-{start}"
    if a == hi:
        return f"abuts-view-{end}"
    if a < lo and b > hi:
        return "covers-view"
    if a < lo:
        return f"straddles-view-{start}"
    if b > hi:
        return f"straddles-view-{end}"
    t = ""
    if a == lo:
        t += start[0].upper()
    if b == hi:
        t += end[0].upper()
    if t:
        return "inside-touching-" + "".join(sorted(t))
    if a == lo + 1 or b == hi - 1:
        return "inside-near-edge"
    return "inside"


BOUNDARY = ("abuts", "straddles", "touching", "near", "covers")


def feat_classes(spans, view):
    lo, hi, rev = view
    return tuple(sorted({span_class(a, b, lo, hi, rev) for a, b in spans}))


def exc_class(models, view):
    """structural class of a feature that made a query raise, from the model(s) of where its spans are.
    'view-start' / 'view-end' are the view's plus-strand start (lo) and end (hi) on the parent."""
    lo, hi, _ = view
    seen = set()
    for spans in models:
        seen.update(feat_classes(spans, (lo, hi, False)))
    if "abuts-view-start" in seen:
        return "span-ends-at-view-start"
    if "abuts-view-end" in seen:
        return "span-starts-at-view-end"
    if seen <= {"away"}:
        return "feature-outside-view"
    if any(c.startswith("straddles") or c == "covers-view" for c in seen):
        return "feature-partly-inside-view"
    return "feature-inside-view"


# ---------------------------------------------------------------------------
# generators (model only — no cogent3 here)


def gen_history(rng, view, depth, ops):
    hist, views = [], [view]
    for _ in range(depth):
        lo, hi, rev = view
        n = hi - lo
        op = rng.choice(ops)
        if op == "slice":
            if n < 2:
                op = "rc" if "rc" in ops else None
            else:
                r = rng.random()
                if r < 0.2:
                    a, b = 0, rng.randint(1, n - 1)
                elif r < 0.4:
                    a, b = rng.randint(1, n - 1), n
                else:
                    a = rng.randint(0, n - 1)
                    b = rng.randint(a + 1, n)
                    if (a, b) == (0, n):
                        a = 1
                step = ["slice", a, b]
        if op is None:
            continue
        if op == "rc":
            step = ["rc"]
        elif op == "copy":
            step = ["copy", rng.random() < 0.7]
        elif op == "deepcopy":
            step = ["deepcopy", rng.random() < 0.5]
        elif op == "degap":
            step = ["degap"]
        view = view_apply(view, step)
        hist.append(step)
        views.append(view)
    return hist, views


def lattice_of(views, cmin, cmax):
    pts = set()
    for lo, hi, _ in views:
        for p in (lo - 1, lo, lo + 1, hi - 1, hi, hi + 1):
            if cmin <= p <= cmax:
                pts.add(p)
    return sorted(pts)


def gen_spans(rng, cmin, cmax, lattice, max_spans=3):
    nsp = rng.choice([1, 1, 1, 2, 2, 3][: 3 + max_spans])
    nsp = min(nsp, max_spans)
    while nsp > 1 and cmax - cmin + 1 < 2 * nsp:
        nsp -= 1
    if cmax - cmin + 1 < 2:
        return None
    cuts = set()
    tries = 0
    while len(cuts) < 2 * nsp and tries < 200:
        tries += 1
        if lattice and rng.random() < 0.6:
            cuts.add(rng.choice(lattice))
        else:
            cuts.add(rng.randint(cmin, cmax))
    cuts = sorted(cuts)
    if len(cuts) % 2:
        cuts = cuts[:-1]
    if len(cuts) < 2:
        return None
    return [[cuts[i], cuts[i + 1]] for i in range(0, len(cuts), 2)]


def gen_windows(rng, view, spans_list, k):
    lo, hi, rev = view
    n = hi - lo
    pts = {lo, hi, lo + 1, hi - 1}
    for spans in spans_list:
        for a, b in spans:
            pts.update((a - 1, a, a + 1, b - 1, b, b + 1))
    rel = sorted({(hi - p if rev else p - lo) for p in pts if lo <= p <= hi})
    out = []
    for _ in range(k):
        if len(rel) < 2:
            break
        a, b = sorted(rng.sample(rel, 2))
        if b == 0 or a == b:
            continue
        form = "pos"
        if rng.random() < 0.45:
            # the same window written the other ways Python slicing allows
            forms = []
            if a > 0 and b < n:
                forms.append("neg")  # both negative
            if b < n:
                forms.append("negstop")  # start >= 0 (omitted when 0), stop negative
            if a > 0:
                forms.append("negstart")  # start negative, stop > 0 (omitted when it is the end)
            if a == 0 or b == n:
                forms.append("omitted")  # start and/or stop left out
            if forms:
                form = rng.choice(forms)
        out.append([a, b, form])
    return out


def window_kwargs(a, b, n, form):
    """start/stop arguments that denote view[a:b] under Python slicing rules, written in the given form"""
    if form == "neg":
        return {"start": a - n, "stop": b - n}
    if form == "negstop":
        kw = {"stop": b - n}
        if a > 0:
            kw["start"] = a
        return kw
    if form == "negstart":
        kw = {"start": a - n}
        if b < n:
            kw["stop"] = b
        return kw
    if form == "omitted":
        kw = {}
        if a > 0:
            kw["start"] = a
        if b < n:
            kw["stop"] = b
        return kw
    return {"start": a, "stop": b}


def gen_seq_scn(rng, impl, intro, deep=False):
    gapped = intro == "gapped"
    L = rng.choice([rng.randint(4, 10), rng.randint(6, 20), rng.randint(12, 40)])
    if deep and rng.random() < 0.3:
        L = rng.randint(30, 90)
    alphabet = "ACGT" if not gapped else "ACGT-"
    P = "".join(rng.choice(alphabet) for _ in range(L))
    if gapped and "-" not in P:
        P = P[: L // 2] + "-" + P[L // 2 + 1 :]
    off = 0 if rng.random() < 0.45 else rng.choice([1, 2, 3, 7, rng.randint(1, 60)])
    root = (0, L, False)
    pre, v0 = [], root
    cont = "root"
    if intro == "view":
        pre, pv = gen_history(rng, root, rng.randint(1, 2), ("slice", "slice", "rc"))
        v0 = pv[-1]
        cont = rng.choice(["root", "view"])
    start = v0 if cont == "view" else root
    if gapped:
        hist, views = gen_history(rng, start, rng.randint(0, 2), ("slice", "rc"))
        hist.append(["degap"])
        views.append(views[-1])
    else:
        ops = ("slice", "slice", "slice", "rc", "rc", "copy", "deepcopy", "degap")
        depth = rng.choice([0, 1, 1, 2, 2, 3, 4]) if not deep else rng.choice([1, 2, 3, 4, 5, 6])
        hist, views = gen_history(rng, start, depth, ops)
    # features, placed against the boundaries the history visits
    feats = []
    nf = rng.randint(1, 4)
    if intro == "view":
        vlo, vhi, vrev = v0
        n0 = vhi - vlo
        lat_parent = lattice_of(views + [v0], vlo, vhi)
        lat = sorted({(vhi - p if vrev else p - vlo) for p in lat_parent})
        cmin, cmax = 0, n0
    elif intro in ("db", "gff"):
        ext = 3
        cmin, cmax = max(-off, -ext), L + ext
        lat = lattice_of(views, cmin, cmax)
    else:
        cmin, cmax = 0, L
        lat = lattice_of(views, cmin, cmax)
    for i in range(nf):
        spans = gen_spans(rng, cmin, cmax, lat)
        if spans is None:
            continue
        if intro in ("db", "gff"):
            spans = [[a + off, b + off] for a, b in spans]
        feats.append(
            {"name": f"f{i}", "biotype": rng.choice(BIOTYPES), "spans": spans, "strand": rng.choice("+-")}
        )
    scn = {
        "level": "seq",
        "impl": impl,
        "parent": P,
        "offset": off,
        "intro": intro,
        "dbtype": rng.choice(["basic", "gff"]),
        "pre": pre,
        "cont": cont,
        "features": feats,
        "history": hist,
    }
    model = seq_model(scn)
    # optional slice-by-feature step at the end of the history
    if not gapped and rng.random() < 0.15:
        lo, hi, _ = views[-1]
        elig = [nm for nm, (sp, _) in model.items() if len(sp) == 1 and lo <= sp[0][0] and sp[0][1] <= hi]
        if elig:
            step = ["fslice", rng.choice(elig)]
            v = view_apply(views[-1], step, model)
            hist.append(step)
            views.append(v)
            if v[1] - v[0] >= 2 and rng.random() < 0.6:
                h2, v2 = gen_history(rng, v, 1, ("slice", "rc"))
                hist.extend(h2)
                views.extend(v2[1:])
    spans_list = [sp for sp, _ in model.values()]
    scn["windows"] = [gen_windows(rng, v, spans_list, 6 if deep else 3) for v in views]
    if gapped:
        scn["windows"][-1] = []
    return scn


def seq_model(scn):
    """feature name -> (plus-strand spans relative to the parent string, strand on the parent)"""
    L = len(scn["parent"])
    off = scn["offset"]
    out = {}
    v0 = (0, L, False)
    for st in scn["pre"]:
        v0 = view_apply(v0, st)
    for f in scn["features"]:
        spans = [tuple(s) for s in f["spans"]]
        strand = f["strand"]
        if scn["intro"] == "view":
            lo, hi, rev = v0
            if rev:
                spans = sorted((hi - y, hi - x) for x, y in spans)
                strand = flip(strand)
            else:
                spans = [(lo + x, lo + y) for x, y in spans]
        elif scn["intro"] in ("db", "gff"):
            spans = [(a - off, b - off) for a, b in spans]
        out[f["name"]] = (sorted(spans), strand)
    return out


def seq_alt_model(scn):
    """what the features would denote if the spans given to add_feature were stored verbatim as absolute
    coordinates (the mechanism of the add_feature-on-view defect); None when that is the same thing"""
    if scn["intro"] not in ("root", "view", "gapped"):
        return None
    off = scn["offset"]
    alt = {f["name"]: (sorted((a - off, b - off) for a, b in f["spans"]), f["strand"]) for f in scn["features"]}
    return None if alt == seq_model(scn) else alt


def gen_aln_scn(rng, intro, deep=False):
    nrows = rng.randint(1, 3 if not deep else 5)
    A = rng.choice([rng.randint(5, 10), rng.randint(8, 20)])
    if deep and rng.random() < 0.3:
        A = rng.randint(20, 50)
    rows = {}
    for i in range(nrows):
        while True:
            g = []
            while len(g) < A:
                run = rng.choice([1, 1, 2, 3])
                g += (["-"] if rng.random() < 0.3 else [rng.choice("ACGT")]) * run
            row = "".join(c if c == "-" else rng.choice("ACGT") for c in g[:A])
            if len(row.replace("-", "")) >= 2:
                break
        rows[f"s{i}"] = row
    root = (0, A, False)
    ops = ("slice", "slice", "slice", "rc", "rc", "copy", "deepcopy")
    hist, views = gen_history(rng, root, rng.choice([0, 1, 1, 2, 2, 3]) if not deep else rng.choice([1, 2, 3, 4, 5]), ops)
    if rng.random() < 0.2:
        # the order matters: a sliced deep copy taken AFTER a reverse complement
        hist += [["rc"], ["deepcopy", True]]
    lat_cols = lattice_of(views, 0, A)
    seqfeats, alnfeats = [], []
    k = 0
    for name, row in rows.items():
        cols = [i for i, c in enumerate(row) if c != "-"]
        U = len(cols)
        # lattice in this row's sequence coordinates: residue counts at the column boundaries
        lat = sorted({sum(1 for c in cols if c < p) for p in lat_cols} | {min(U, x + 1) for x in [sum(1 for c in cols if c < p) for p in lat_cols]})
        for _ in range(rng.choice([0, 1, 1, 2])):
            spans = gen_spans(rng, 0, U, lat)
            if spans is None:
                continue
            seqfeats.append(
                {"name": f"q{k}", "biotype": rng.choice(BIOTYPES), "row": name, "spans": spans, "strand": rng.choice("+-")}
            )
            k += 1
    if intro == "add":
        for _ in range(rng.choice([0, 1, 1, 2])):
            spans = gen_spans(rng, 0, A, lat_cols, max_spans=2)
            if spans is None:
                continue
            alnfeats.append(
                {"name": f"r{k}", "biotype": "region", "spans": spans, "strand": "+" if rng.random() < 0.8 else "-"}
            )
            k += 1
    if not seqfeats and not alnfeats:
        name = "s0"
        U = len(rows[name].replace("-", ""))
        seqfeats.append({"name": "q0", "biotype": "gene", "row": name, "spans": [[0, max(1, U - 1)]], "strand": "-"})
    project = []
    names = list(rows)
    for f in seqfeats + alnfeats:
        if rng.random() < 0.6:
            project.append([f["name"], rng.choice(names)])
    # some projections happen in the middle of the history: what they write into the shared db must not change
    # what any later query returns
    for pr in list(project):
        if rng.random() < 0.6:
            project.remove(pr)
            hist.insert(rng.randint(0, len(hist)), ["project", pr[0], pr[1]])
    # slice-by-feature (single contiguous span, fully inside the final view), then maybe one more step
    if rng.random() < 0.6:
        v = (0, A, False)
        cf = aln_colfeats(rows, seqfeats, alnfeats)
        for st in hist:
            v = view_apply(v, st, cf)
        elig = [
            nm
            for nm, (sp, _) in cf.items()
            if len(sp) == 1 and v[0] <= sp[0][0] and sp[0][1] <= v[1] and (nm.startswith("q") or (v[0], v[1]) == (0, A))
        ]
        if elig:
            st = ["fslice", rng.choice(elig)]
            hist.append(st)
            v = view_apply(v, st, cf)
            if v[1] - v[0] >= 2 and rng.random() < 0.5:
                hist.extend(gen_history(rng, v, 1, ("slice", "rc"))[0])
    return {
        "level": "aln",
        "rows": rows,
        "intro": intro,
        "dbtype": rng.choice(["basic", "gff"]),
        "seqfeats": seqfeats,
        "alnfeats": alnfeats,
        "history": hist,
        "project": project,
    }


def aln_colfeats(rows, seqfeats, alnfeats):
    """feature name -> (spans in alignment columns, strand); a sequence feature is listed when its residues occupy
    one contiguous run of columns"""
    out = {}
    for f in alnfeats:
        out[f["name"]] = ([tuple(s) for s in f["spans"]], f["strand"])
    for f in seqfeats:
        cols = cols_of(rows[f["row"]], [tuple(s) for s in f["spans"]])
        if cols and cols == list(range(cols[0], cols[-1] + 1)):
            out[f["name"]] = ([(cols[0], cols[-1] + 1)], f["strand"])
        else:
            out[f["name"]] = ([(-2, -1), (-1, 0)], f["strand"])  # not contiguous: never eligible
    return out


def gen_coll_scn(rng, impl):
    n = rng.choice([1, 2, 2, 3, 3])
    seqs = {f"s{i}": "".join(rng.choice("ACGT") for _ in range(rng.randint(4, 20))) for i in range(n)}
    feats = []
    k = 0
    for name, s in seqs.items():
        # several members carry features in the shared db (and now and then one carries none)
        for _ in range(rng.choice([0, 1, 1, 2])):
            spans = gen_spans(rng, 0, len(s), [0, 1, len(s) - 1, len(s)])
            if spans:
                feats.append({"name": f"c{k}", "biotype": rng.choice(BIOTYPES), "row": name, "spans": spans, "strand": rng.choice("+-")})
                k += 1
    for name, s in list(seqs.items())[:2]:
        if not any(f["row"] == name for f in feats) and (name == "s0" or rng.random() < 0.7):
            feats.append({"name": f"c{k}", "biotype": "gene", "row": name, "spans": [[0, 2]], "strand": rng.choice("+-")})
            k += 1
    ops = []
    for _ in range(rng.randint(0, 3)):
        op = rng.choice(["rc", "rc", "take", "copy", "deepcopy", "deepcopy"] if impl == "old" else ["take", "copy"])
        if op == "take":
            keep = sorted(rng.sample(list(seqs), rng.randint(1, n)))
            ops.append(["take", keep])
        elif op == "deepcopy":
            ops.append(["deepcopy", rng.random() < 0.7])
        else:
            ops.append([op])
    if impl == "old" and rng.random() < 0.2:
        ops += [["rc"], ["deepcopy", True]]
    name = rng.choice(list(seqs))
    intro = rng.choice(["add", "db", "members"])
    members = {}
    if intro == "members":
        # the collection is built from annotated sequence *views*
        for nm, s in seqs.items():
            if rng.random() < 0.8:
                h, _ = gen_history(rng, (0, len(s), False), rng.randint(1, 2), ("slice", "slice", "rc") if impl == "old" else ("slice",))
                members[nm] = h
        ops = [o for o in ops if o[0] != "rc"]
    # the sequence handed out by the collection then has a history of its own (incl. copy(), default sliced=True)
    mv = (0, len(seqs[name]), False)
    for st in members.get(name, []):
        mv = view_apply(mv, st)
    seq_hist, _ = gen_history(rng, mv, rng.randint(1, 3), ("slice", "rc", "copy", "copy", "deepcopy"))
    return {
        "level": "coll",
        "impl": impl,
        "seqs": seqs,
        "intro": intro,
        "members": members,
        "features": feats,
        "history": ops,
        "get_seq": [name, seq_hist],
    }


def gen_cases(rng, tier):
    quick = tier == "quick"
    deep = not quick
    cases = []
    per = 20
    reps = 3 if quick else 60
    for _ in range(reps):
        for impl in ("old", "new"):
            for intro in ("root", "view", "db", "gff", "db", "root", "gapped"):
                n = per if intro != "gapped" else per // 2
                cases.append({"kind": "seq", "impl": impl, "intro": intro, "seed": rng.randrange(2**32), "n": n, "deep": deep})
    areps = 4 if quick else 80
    for _ in range(areps):
        for intro in ("add", "add", "db", "gff"):
            cases.append({"kind": "aln", "intro": intro, "seed": rng.randrange(2**32), "n": 12, "deep": deep})
    creps = 2 if quick else 24
    for _ in range(creps):
        for impl in ("old", "new"):
            cases.append({"kind": "coll", "impl": impl, "seed": rng.randrange(2**32), "n": 20})
    cases.append({"kind": "gff-offset-entry"})
    return cases


# ---------------------------------------------------------------------------
# driving the real code


class Ctx:
    def __init__(self, res, scn):
        self.res = res
        self.scn = scn
        self.failed = False
        self.depth = 0
        self.op = "intro"

    def replay(self):
        return {"kind": "one", "scn": self.scn}

    def witness(self, mech, **detail):
        self.failed = True
        self.res.witness(mech, step=self.depth, after=self.op, replay_case=self.replay(), **detail)


def _gff_text(seqid, feats):
    lines = ["##gff-version 3"]
    for f in feats:
        for a, b in f["spans"]:
            lines.append(
                "\t".join([seqid, "vmon", f["biotype"], str(a + 1), str(b), ".", f["strand"], ".", f"ID={f['name']}"])
            )
    return "\n".join(lines) + "\n"


def _write_tmp(text, suffix=".gff"):
    fd, path = tempfile.mkstemp(suffix=suffix, dir=os.getcwd())
    with os.fdopen(fd, "w") as fh:
        fh.write(text)
    return path


def _mk_db(dbtype):
    from cogent3.core.annotation_db import BasicAnnotationDb, GffAnnotationDb

    return GffAnnotationDb() if dbtype == "gff" else BasicAnnotationDb()


class FeatureNotReturned(Exception):
    pass


def seq_step(obj, step):
    op = step[0]
    if op == "slice":
        return obj[step[1] : step[2]]
    if op == "rc":
        return obj.rc()
    if op == "copy":
        return obj.copy(sliced=bool(step[1]))
    if op == "deepcopy":
        return _copy.deepcopy(obj)
    if op == "degap":
        return obj.degap()
    if op == "fslice":
        fs = [f for f in obj.get_features(name=step[1], allow_partial=True)]
        if not fs:
            raise FeatureNotReturned(step[1])
        return obj[fs[0]]
    raise ValueError(op)


def opname(step):
    if step[0] == "copy":
        return "copy" if step[1] else "copy-unsliced"
    return step[0]


def coords_positions(f):
    S = set()
    for a, b in f.map.get_coordinates():
        a, b = int(a), int(b)
        S.update(range(min(a, b), max(a, b)))
    return S


def obj_has_offset(obj):
    try:
        return bool(obj._seq.offset)
    except Exception:  # noqa: BLE001
        return False


OP = ["intro"]  # last operation, for hypotheses that do not apply right after it


def is_nontrivial(ctx, spans, strand, classes):
    return ctx.depth >= 1 and (len(spans) > 1 or strand == "-" or any(k in c for c in classes for k in BOUNDARY))


def explain(hyps, got, relwin, ap):
    """name of the first alternative hypothesis (a model of a known *defect*) that reproduces the WHOLE query
    result: every feature's presence and every returned feature's slice and coordinates.  Used only to name a
    mismatch; deliberately strict so that an unrelated fault is never filed under a defect's name."""
    names = [f.name for f in got]
    for h in hyps or ():
        if h.get("not_after") and h["not_after"] == OP[0]:
            continue
        hm = h["model"]
        hlo, hhi, _ = h["view"]
        wlo, whi = window_parent(h["view"], *relwin)
        ok = all(nm in hm for nm in names)
        for nm, (spans, strand) in hm.items():
            if not ok:
                break
            st = "in" if h.get("no_filter") else status(spans, wlo, whi, ap)
            c = names.count(nm)
            ok = c == 1 if st == "in" else (c == 0 if st == "out" else c <= 1)
        for f in got:
            if not ok:
                break
            spans, strand = hm[f.name]
            try:
                ok = str(f.get_slice()) == exp_slice(h["parent"], spans, strand, hlo, hhi) and coords_positions(f) == exp_positions(
                    spans, h["view"]
                )
            except Exception:  # noqa: BLE001
                continue  # cannot be read (reported under its own mechanism); neither confirms nor refutes
        if ok:
            return h["label"]
    return None


D5 = "C04/degap-keeps-db-without-rebasing"
D8 = "C04/alignment-feature-not-rebased-after-slice"
D11_OLD = "C04/collection-get_features-ignores-member-view-bounds"
D11_NEW = "C04/collection-of-views-keeps-db-without-rebasing"


def named(why, impl):
    """hypothesis label -> mechanism; labels of root causes kept as known findings are complete strings"""
    return why if why.startswith("C04/") else f"C04/{why}/{impl}"


def generic(ctx, level, check, impl):
    """mechanism of a mismatch no hypothesis explains: named by the check and the operation it first appears after"""
    if ctx.op == "fslice":
        return f"C04/slice-by-feature/result-annotations-misplaced/{impl}"
    return f"C04/{level}-{check}/after-{ctx.op}/{impl}"


def fresh_root(parent, view, model, label, off=0, gapped=False, no_filter=False):
    """defect hypothesis: the object was rebuilt from the string the view shows (coordinates restart at 0, plus
    strand = the view's strand) while the annotation db still holds the old absolute coordinates"""
    lo, hi, rev = view
    t = rc(parent[lo:hi]) if rev else parent[lo:hi]
    if gapped:
        t = t.replace("-", "")
    m = {nm: ([(a + off, b + off) for a, b in sp], st) for nm, (sp, st) in model.items() if all(a + off >= 0 for a, _ in sp)}
    return {"label": label, "parent": t, "view": (0, len(t), False), "model": m, "no_filter": no_filter}


def ignores_bounds(parent, view, model):
    """defect hypothesis: the collection returns every feature of the sequence, whatever part of it the member shows"""
    return {"label": D11_OLD, "parent": parent, "view": view, "model": dict(model), "no_filter": True}


def slice_options(ctx, f, parent, spans, strand, view, hyps, got, relwin, ap, level, impl, exp, nt, classes, det):
    """get_slice(allow_gaps=True) and get_slice(complete=True) of a feature whose default slice is already right"""
    res = ctx.res
    lo, hi, rev = view
    res.evals += 1
    res.count(f"{level}:slice-allow-gaps-decisions")
    expg = exp_slice_gaps(parent, spans, strand, lo, hi)
    try:
        g = str(f.get_slice(allow_gaps=True))
    except Exception as e:  # noqa: BLE001
        ctx.witness(exc_mechanism(f"C04/{level}-feature-slice-allow-gaps", e), error=repr(e)[:300], expected=expg, **det)
        return False
    if nt:
        res.sig(level, impl, strand, min(len(spans), 3), classes, rev, ctx.op, "allow-gaps")
    if (strand == "-") != rev:
        res.count("allow-gaps-on-reverse-feature")
    if g != expg:
        why = None
        for h in hyps or ():
            if f.name in h["model"] and explain([h], got, relwin, ap):
                hs, hst = h["model"][f.name]
                if g == exp_slice_gaps(h["parent"], hs, hst, h["view"][0], h["view"][1]):
                    why = h["label"]
                    break
        mech = named(why, impl) if why else generic(ctx, level, "feature-slice-allow-gaps", impl)
        ctx.witness(mech, check="feature-slice-allow-gaps", got=g, expected=expg, map=repr(f.map), **det)
        return False
    # complete=True is documented to fail when the feature is not wholly present; when it is, nothing changes
    whole = all(lo <= a and b <= hi for a, b in spans)
    res.evals += 1
    try:
        gc_ = str(f.get_slice(complete=True))
    except Exception as e:  # noqa: BLE001
        if whole:
            ctx.witness(exc_mechanism(f"C04/{level}-feature-slice-complete", e), error=repr(e)[:300], expected=exp, **det)
            return False
        res.refused += 1
        return True
    res.count(f"{level}:slice-complete-decisions")
    if whole and gc_ != exp:
        ctx.witness(generic(ctx, level, "feature-slice-complete", impl), check="feature-slice-complete", got=gc_, expected=exp, **det)
        return False
    if not whole:
        res.count("complete-on-partial-feature-did-not-fail")
    return True


def check_seq_features(ctx, obj, parent, view, model, hyps, relwin, ap, got, qkind, level="seq"):
    """membership + slice + coordinates + parent[feature] of one query result against the model.
    parent: plus-strand parent string; view: (lo, hi, rev) the object shows; relwin: queried window in
    view-relative indices; hyps: alternative (defect) hypotheses used only to *name* a mismatch."""
    res = ctx.res
    impl = ctx.scn.get("impl", "old")
    intro = ctx.scn["intro"]
    lo, hi, rev = view
    wlo, whi = window_parent(view, *relwin)
    names = [f.name for f in got]
    base = dict(view=view, window=(wlo, whi), allow_partial=ap, query=qkind, got_names=names, level=level)
    for nm in names:
        if nm not in model:
            res.evals += 1
            ctx.witness(generic(ctx, level, "unknown-feature", impl), name=nm, **base)
            return
    for nm, (spans, strand) in model.items():
        st = status(spans, wlo, whi, ap)
        c = names.count(nm)
        res.evals += 1
        res.count(f"{level}:membership-decisions")
        classes = feat_classes(spans, (wlo, whi, rev))
        if is_nontrivial(ctx, spans, strand, classes):
            res.sig(level, impl, intro, strand, min(len(spans), 3), classes, rev, ap, qkind, ctx.op, "m")
        bad = None
        if st == "in" and c == 0:
            bad = "missing-feature"
        elif st == "out" and c > 0:
            bad = "unexpected-feature"
        elif c > 1:
            bad = "duplicate-feature"
        if bad:
            why = explain(hyps, got, relwin, ap)
            mech = named(why, impl) if why else generic(ctx, level, bad, impl)
            ctx.witness(mech, check=bad, feature=nm, spans=spans, strand=strand, expected=st, count=c, **base)
            return
    for f in got:
        spans, strand = model[f.name]
        if status(spans, wlo, whi, ap) == "out":
            continue
        exp = exp_slice(parent, spans, strand, lo, hi)
        classes = feat_classes(spans, view)
        nt = is_nontrivial(ctx, spans, strand, classes)
        det = dict(feature=f.name, spans=spans, strand=strand, **base)
        # slice
        res.evals += 1
        res.count(f"{level}:slice-decisions")
        try:
            g = str(f.get_slice())
        except Exception as e:  # noqa: BLE001
            if obj_has_offset(f.parent):
                pre = "C04/feature-slice/offset-parent"
            elif ctx.op == "fslice":
                pre = "C04/slice-by-feature/feature-slice"
            else:
                pre = f"C04/{level}-feature-slice/{exc_class([spans], view)}"
            ctx.witness(exc_mechanism(pre, e), error=repr(e)[:300], expected=exp, **det)
            return
        if nt:
            res.sig(level, impl, intro, strand, min(len(spans), 3), classes, rev, ap, qkind, ctx.op, "s")
        if g != exp:
            why = explain(hyps, got, relwin, ap)
            if why is None and impl == "new" and level in ("coll", "collseq") and len(clip(spans, lo, hi)) == 1 and not (level == "coll" and ctx.scn.get("intro") == "members"):
                # new-type collection members read their data through the view offset, so the doubled start of a
                # single-span map shows as wrong residues instead of an exception
                why = "feature-slice/single-span-start-counted-twice"
            mech = named(why, impl) if why else generic(ctx, level, "feature-slice", impl)
            ctx.witness(mech, check="feature-slice", got=g, expected=exp, map=repr(f.map), **det)
            return
        # coordinates
        res.evals += 1
        try:
            gp = coords_positions(f)
        except Exception as e:  # noqa: BLE001
            ctx.witness(exc_mechanism(f"C04/{level}-feature-coords", e), error=repr(e)[:300], **det)
            return
        ep = exp_positions(spans, view)
        if gp != ep:
            why = explain(hyps, got, relwin, ap)
            mech = named(why, impl) if why else generic(ctx, level, "feature-coords", impl)
            ctx.witness(mech, check="feature-coords", got=sorted(gp), expected=sorted(ep), map=repr(f.map), **det)
            return
        # parent[feature]
        res.evals += 1
        try:
            g2 = str(f.parent[f])
        except Exception as e:  # noqa: BLE001
            ctx.witness(exc_mechanism(f"C04/{level}-getitem-feature", e), error=repr(e)[:300], **det)
            return
        res.count(f"{level}:getitem-feature")
        if g2 != exp:
            ctx.witness(generic(ctx, level, "getitem-feature", impl), got=g2, expected=exp, **det)
            return
        # the options of get_slice
        # (once per view is enough: a window query returns the same feature bound to the same view)
        if not qkind.startswith("window") and not slice_options(
            ctx, f, parent, spans, strand, view, hyps, got, relwin, ap, level, impl, exp, nt, classes, det
        ):
            return
        if len(spans) > 1:
            res.count("multi-span-decided")
        if strand == "-":
            res.count("minus-strand-decided")
        if any("abuts" in c_ for c_ in classes):
            res.count("abutting-span-decided")
        if any("straddles" in c_ or "covers" in c_ for c_ in classes):
            res.count("partly-inside-decided")


def query_seq(ctx, obj, parent, view, model, hyps, win, ap, level="seq"):
    """one get_features call on a Sequence + all checks; win = None or [a, b, form] (view-relative)"""
    res = ctx.res
    impl = ctx.scn.get("impl", "old")
    n = view[1] - view[0]
    kwargs = {"allow_partial": ap}
    qkind = "whole"
    relwin = (0, n)
    if win is not None:
        a, b, form = win
        relwin = (a, b)
        qkind = "window-" + form
        kwargs.update(window_kwargs(a, b, n, form))
    res.count(f"{level}:query-{qkind}-{'partial' if ap else 'strict'}")
    try:
        got = list(obj.get_features(**kwargs))
    except Exception as e:  # noqa: BLE001
        res.evals += 1
        culprits = []
        for nm in model:
            try:
                list(obj.get_features(name=nm, **kwargs))
            except Exception:  # noqa: BLE001
                culprits.append(nm)
        cls = "no-single-feature"
        if culprits:
            nm = culprits[0]
            alts = [h["model"][nm][0] for h in hyps or () if nm in h["model"] and h["view"] == view]
            cls = exc_class([model[nm][0]] + alts, view)
        if cls == "span-ends-at-view-start":
            pre = f"C04/get_features/{cls}/{impl}"
        elif ctx.op == "fslice":
            pre = "C04/slice-by-feature/get_features"
        else:
            pre = f"C04/{level}-get_features/{cls}"
        ctx.witness(
            exc_mechanism(pre, e),
            error=repr(e)[:300],
            view=view,
            window=window_parent(view, *relwin),
            allow_partial=ap,
            query=qkind,
            kwargs=kwargs,
            level=level,
            culprit_features={nm: model[nm] for nm in culprits},
        )
        return
    check_seq_features(ctx, obj, parent, view, model, hyps, relwin, ap, got, qkind, level=level)


def mixed_windows(n):
    """two fixed windows with mixed-sign bounds for views reached through alignments / collections"""
    if n < 3:
        return []
    return [[1, n - 1, "negstop"], [1, n, "negstart"], [0, n - 1, "negstop"]]


def observe_seq(ctx, obj, parent, view, model, hyps, windows, level="seq"):
    for ap in (True, False):
        query_seq(ctx, obj, parent, view, model, hyps, None, ap, level)
        if ctx.failed:
            return
    for win in windows:
        for ap in (True, False):
            query_seq(ctx, obj, parent, view, model, hyps, win, ap, level)
            if ctx.failed:
                return
    # biotype filter: the same features restricted to the biotype
    bts = {f["name"]: f["biotype"] for f in ctx.scn.get("features", [])}
    if bts and level == "seq":
        bt = sorted(set(bts.values()))[0]
        sub = {nm: v for nm, v in model.items() if bts.get(nm) == bt}
        try:
            got = list(obj.get_features(biotype=bt, allow_partial=True))
        except Exception:  # noqa: BLE001
            return  # the unfiltered query above already reported it
        ctx.res.count("seq:query-biotype")
        check_seq_features(ctx, obj, parent, view, sub, hyps, (0, view[1] - view[0]), True, got, "biotype", level=level)


def db_holds_given_spans(seq, scn):
    """classification aid only: does the db record hold the spans exactly as they were passed to add_feature
    although those were not absolute coordinates?  (the mechanism of the add_feature-on-view defect)"""
    try:
        for f in scn["features"]:
            recs = list(seq.annotation_db.get_features_matching(name=f["name"]))
            if len(recs) != 1:
                return False
            if sorted(tuple(int(x) for x in sp) for sp in recs[0]["spans"]) != sorted(tuple(sp) for sp in f["spans"]):
                return False
        return True
    except Exception:  # noqa: BLE001
        return False


def run_seq_scn(res, scn):
    from cogent3 import make_seq

    ctx = Ctx(res, scn)
    OP[0] = "intro"
    P = scn["parent"]
    L = len(P)
    impl = scn["impl"]
    intro = scn["intro"]
    off = scn["offset"]
    model = seq_model(scn)
    alt = seq_alt_model(scn)
    res.count(f"scenario:seq:{impl}:{intro}")
    try:
        seq = make_seq(P, name="s1", moltype="dna", new_type=impl == "new", annotation_offset=off)
    except Exception as e:  # noqa: BLE001
        res.evals += 1
        ctx.witness(exc_mechanism("C04/make_seq", e), error=repr(e)[:300])
        return
    root = (0, L, False)
    v0, target = root, seq
    tmp = None
    try:
        # ---- introduce the features
        if intro == "view":
            for st in scn["pre"]:
                try:
                    target = seq_step(target, st)
                except Exception as e:  # noqa: BLE001
                    res.evals += 1
                    ctx.witness(exc_mechanism(f"C04/history-{opname(st)}", e), error=repr(e)[:300])
                    return
                v0 = view_apply(v0, st)
        if intro in ("root", "view", "gapped"):
            for f in scn["features"]:
                res.evals += 1
                given = [tuple(s) for s in f["spans"]]
                try:
                    feat = target.add_feature(biotype=f["biotype"], name=f["name"], spans=given, strand=f["strand"])
                except Exception as e:  # noqa: BLE001
                    ctx.witness(exc_mechanism(f"C04/add_feature-{intro}", e), error=repr(e)[:300], feature=f)
                    return
                try:
                    g = str(feat.get_slice())
                except Exception as e:  # noqa: BLE001
                    pre = "C04/feature-slice/offset-parent" if obj_has_offset(target) else f"C04/add_feature-{intro}/returned-feature-slice"
                    ctx.witness(exc_mechanism(pre, e), error=repr(e)[:300], feature=f)
                    return
                spans, strand = model[f["name"]]
                exp = exp_slice(P, spans, strand, v0[0], v0[1])
                if v0[2]:
                    # on a reverse-complemented view "coordinates for this sequence" can be read as indices into the
                    # view (reading A, the model's default) or as plus-strand coordinates counted from the view's
                    # plus-strand start with a plus-strand strand (reading B, what make_feature documents).  The
                    # returned feature shows which one is meant; every later query is held to that reading.
                    spans_b = sorted((v0[0] + x, v0[0] + y) for x, y in given)
                    try:
                        gp = coords_positions(feat)
                    except Exception:  # noqa: BLE001
                        gp = None
                    if g == exp_slice(P, spans_b, f["strand"], v0[0], v0[1]) and gp == exp_positions(spans_b, v0):
                        model[f["name"]] = (spans_b, f["strand"])
                        res.count("add_feature-on-reversed-view:plus-strand-reading")
                        continue
                    if gp != exp_positions(spans, v0):
                        exp = None  # neither reading
                if g != exp:
                    ctx.witness(f"C04/add_feature-{intro}/returned-feature-slice/{impl}", feature=f, got=g, expected=exp, view=v0)
                    return
        elif intro == "db":
            try:
                db = _mk_db(scn["dbtype"])
                for f in scn["features"]:
                    db.add_feature(
                        seqid="s1", biotype=f["biotype"], name=f["name"], spans=[tuple(s) for s in f["spans"]], strand=f["strand"]
                    )
                seq.annotation_db = db
            except Exception as e:  # noqa: BLE001
                res.evals += 1
                ctx.witness(exc_mechanism("C04/intro-db", e), error=repr(e)[:300])
                return
        elif intro == "gff":
            tmp = _write_tmp(_gff_text("s1", scn["features"]))
            try:
                seq.annotate_from_gff(tmp)
            except Exception as e:  # noqa: BLE001
                res.evals += 1
                ctx.witness(exc_mechanism("C04/intro-gff", e), error=repr(e)[:300])
                return
        hyps = []
        if alt is not None and alt != model and db_holds_given_spans(seq, scn):
            hyps.append({"label": "add_feature-stores-view-relative-spans", "parent": P, "view": None, "model": alt, "not_after": "fslice"})

        def hyps_for(view, extra=()):
            out = []
            for h in hyps:
                h = dict(h)
                h["view"] = view
                out.append(h)
            return out + list(extra)

        cur, view = (target, v0) if scn["cont"] == "view" else (seq, root)
        degap_alts = []
        windows = scn["windows"]
        observe_seq(ctx, cur, P, view, model, hyps_for(view), windows[0])
        if ctx.failed:
            return
        # ---- history
        for i, st in enumerate(scn["history"]):
            ctx.depth = i + 1
            ctx.op = opname(st)
            OP[0] = ctx.op
            res.count("op:" + ctx.op)
            if st[0] == "fslice":
                sp = model[st[1]][0]
                if len(sp) != 1 or sp[0][0] < view[0] or sp[0][1] > view[1]:
                    res.count("fslice-not-applicable")
                    break  # the reading chosen on a reversed view moved the feature: step does not apply
            try:
                nxt = seq_step(cur, st)
            except FeatureNotReturned:
                res.evals += 1
                ctx.witness(generic(ctx, "seq", "missing-feature", impl), check="missing-feature", feature=st[1], view=view, query="by-name")
                return
            except Exception as e:  # noqa: BLE001
                res.evals += 1
                cls = "offset-parent" if obj_has_offset(cur) else "plain-parent"
                ctx.witness(exc_mechanism(f"C04/history-{ctx.op}/{cls}", e), error=repr(e)[:300], view=view)
                return
            nview = view_apply(view, st, model)
            expv = P[nview[0] : nview[1]]
            if nview[2]:
                expv = rc(expv)
            gapped_degap = st[0] == "degap" and "-" in P
            if gapped_degap:
                expv = expv.replace("-", "")
            res.evals += 1
            if str(nxt) != expv:
                ctx.witness(f"C04/history-{ctx.op}/view-string/{impl}", got=str(nxt), expected=expv, view=nview)
                return
            cur, view = nxt, nview
            # the degap defect (a brand-new root that keeps the db) can stay invisible at the degap step itself, e.g.
            # on a palindromic view; its hypothesis is therefore carried along the rest of the history
            carried = []
            for h in degap_alts:
                try:
                    h = dict(h, view=view_apply(h["view"], st, h["model"]))
                except Exception:  # noqa: BLE001
                    continue  # the step does not apply in that world (e.g. slice-by-feature of an absent feature)
                if st[0] == "degap":
                    h = fresh_root(h["parent"], h["view"], h["model"], D5)
                carried.append(h)
            degap_alts = carried
            if st[0] == "degap":
                degap_alts.append(fresh_root(P, view, model, D5, off=off, gapped=gapped_degap))
            extra = list(degap_alts)
            if gapped_degap and not expv:
                # G: the slice held only gap characters, so nothing is left to query (empty windows are not queried)
                res.count("gapped-degap-left-nothing")
            elif gapped_degap:
                observe_degapped(ctx, cur, P, view, model, extra)
            else:
                observe_seq(ctx, cur, P, view, model, hyps_for(view, extra), windows[i + 1])
            if ctx.failed:
                return
        res.sample({k: scn[k] for k in ("impl", "parent", "offset", "intro", "features", "history")})
    finally:
        if tmp:
            try:
                os.unlink(tmp)
            except OSError:
                pass


def observe_degapped(ctx, obj, P, view, model, hyps):
    """after degap() of a sequence that has gap characters: every feature still denotes its (non-gap) residues"""
    res = ctx.res
    impl = ctx.scn["impl"]
    lo, hi, rev = view
    h = hyps[0]
    for ap in (True, False):
        res.count("seq:query-after-gapped-degap")
        try:
            got = list(obj.get_features(allow_partial=ap))
        except Exception as e:  # noqa: BLE001
            res.evals += 1
            ctx.witness(exc_mechanism("C04/seq-get_features/after-degap-gapped", e), error=repr(e)[:300], view=view)
            return
        names = [f.name for f in got]
        nn = len(h["parent"])

        def name_of(check):
            why = explain([h], got, (0, nn), ap)
            return why if why else f"C04/seq-{check}/after-degap-gapped/{impl}"

        for nm, (spans, strand) in model.items():
            exp = exp_slice(P, spans, strand, lo, hi).replace("-", "")
            st = status(spans, lo, hi, ap)
            res.evals += 1
            if ctx.depth >= 1:
                res.sig("seq", impl, "gapped", strand, min(len(spans), 3), feat_classes(spans, view), rev, ap, "degap")
            bad = None
            if st == "in" and exp and nm not in names:
                bad = "missing-feature"
            elif st == "out" and nm in names:
                bad = "unexpected-feature"
            if bad:
                ctx.witness(name_of(bad), check=bad, feature=nm, spans=spans, view=view, allow_partial=ap, got_names=names)
                return
        for f in got:
            if f.name not in model:
                continue
            spans, strand = model[f.name]
            if status(spans, lo, hi, ap) == "out":
                continue
            exp = exp_slice(P, spans, strand, lo, hi).replace("-", "")
            res.evals += 1
            try:
                g = str(f.get_slice())
            except Exception as e:  # noqa: BLE001
                ctx.witness(exc_mechanism("C04/seq-feature-slice/after-degap-gapped", e), error=repr(e)[:300], feature=f.name, view=view)
                return
            if g != exp:
                ctx.witness(
                    name_of("feature-slice"), check="feature-slice", feature=f.name, spans=spans, strand=strand, got=g, expected=exp, view=view, allow_partial=ap
                )
                return


# ---------------------------------------------------------------------------
# alignment level


class _Proxy:
    """a Ctx whose witness() is redirected (used to file everything under one structural mechanism)"""

    def __init__(self, ctx, witness):
        self.__dict__["_ctx"] = ctx
        self.__dict__["witness"] = witness

    def __getattr__(self, k):
        return getattr(self._ctx, k)

    def __setattr__(self, k, v):
        setattr(self._ctx, k, v)


def aln_step(obj, step):
    op = step[0]
    if op == "slice":
        return obj[step[1] : step[2]]
    if op == "rc":
        return obj.rc()
    if op == "copy":
        return obj.copy()
    if op == "deepcopy":
        return obj.deepcopy(sliced=bool(step[1]))
    if op == "fslice":
        if step[1].startswith("q"):
            fs = [g for g in obj.get_features(on_alignment=False, allow_partial=True) if g.name == step[1]]
        else:
            fs = [g for g in obj.get_features(on_alignment=True, allow_partial=True) if g.name == step[1]]
        if not fs:
            raise FeatureNotReturned(step[1])
        return obj[fs[0]]
    raise ValueError(op)


def aln_opname(step):
    if step[0] == "deepcopy":
        return "deepcopy-sliced" if step[1] else "deepcopy-unsliced"
    return step[0]


def cols_of(row, spans):
    cols = [i for i, c in enumerate(row) if c != "-"]
    out = []
    for a, b in spans:
        out.extend(cols[a:b])
    return out


def rows_at(rows, cols, minus):
    out = {}
    for r, s in rows.items():
        t = "".join(s[c] for c in cols)
        out[r] = rc(t) if minus else t
    return out


def check_aln_feature(ctx, obj, rows, view, f, cols_all, strand, kind, nt_sig, alt_cols=None, alt_strand=None):
    """slice (as row dict), coordinates and aln[feature] of one alignment-bound feature"""
    res = ctx.res
    lo, hi, rev = view
    first = next(iter(rows.values()))
    if kind == "alnfeat" and rev and not first[lo:hi].replace("-", ""):
        # the alignment reads its own strand from a row's sequence; a row without residues in the view has lost it
        _w = ctx.witness

        def strand_witness(mech, **detail):
            if mech == D8:
                _w(mech, **detail)  # explained by the un-rebased spans alone
            else:
                _w("C04/alignment-feature-strand-read-from-empty-first-row", original_mechanism=mech, **detail)

        ctx = _Proxy(ctx, strand_witness)
    kept = [c for c in cols_all if lo <= c < hi]
    exp = rows_at(rows, kept, strand == "-")
    det = dict(feature=f.name, kind=kind, view=view, feature_columns=cols_all, strand=strand)
    res.evals += 1
    res.count(f"aln:{kind}-slice-decisions")
    sliced_view = lo != 0 or hi != len(next(iter(rows.values())))
    try:
        sl = f.get_slice()
        g = sl.to_dict()
    except Exception as e:  # noqa: BLE001
        ctx.witness(exc_mechanism(f"C04/aln-{kind}-slice", e), error=repr(e)[:300], **det)
        return
    if nt_sig is not None:
        res.sig(*nt_sig, "s")
    if g != exp:
        why = None
        if alt_cols is not None:
            akept = [c for c in alt_cols if lo <= c < hi]
            if g == rows_at(rows, akept, alt_strand == "-"):
                why = "alignment-feature-not-rebased-after-slice"
            elif strand == "-" and g == rows_at(rows, kept, False):
                why = "alignment-feature-strand-ignored"
        mech = f"C04/{why}" if why else f"C04/aln-{kind}-slice/after-{ctx.op}"
        ctx.witness(mech, got=g, expected=exp, map=repr(f.map), **det)
        return
    res.evals += 1
    gp = coords_positions(f)
    ep = {(hi - 1 - c if rev else c - lo) for c in kept}
    if gp != ep:
        mech = f"C04/aln-{kind}-coords/after-{ctx.op}"
        if alt_cols is not None:
            ap_ = {(hi - 1 - c if rev else c - lo) for c in alt_cols if lo <= c < hi}
            if gp == ap_:
                mech = "C04/alignment-feature-not-rebased-after-slice"
        ctx.witness(mech, check="coords", got=sorted(gp), expected=sorted(ep), map=repr(f.map), **det)
        return
    res.evals += 1
    try:
        g2 = f.parent[f].to_dict()
    except Exception as e:  # noqa: BLE001
        ctx.witness(exc_mechanism(f"C04/aln-getitem-feature/{kind}", e), error=repr(e)[:300], **det)
        return
    res.count("aln:getitem-feature")
    if g2 != exp:
        ctx.witness(f"C04/aln-getitem-feature/{kind}/after-{ctx.op}", got=g2, expected=exp, **det)
        return
    # get_slice(allow_gaps=True): every column from the first to the last retained one, gaps kept
    res.evals += 1
    res.count("aln:slice-allow-gaps-decisions")
    expg = rows_at(rows, list(range(min(kept), max(kept) + 1)) if kept else [], strand == "-")
    try:
        gg = f.get_slice(allow_gaps=True).to_dict()
    except Exception as e:  # noqa: BLE001
        ctx.witness(exc_mechanism(f"C04/aln-{kind}-slice-allow-gaps", e), error=repr(e)[:300], expected=expg, **det)
        return
    if (strand == "-") != rev:
        res.count("allow-gaps-on-reverse-feature")
    if gg != expg:
        mech = f"C04/aln-{kind}-slice-allow-gaps/after-{ctx.op}"
        if kind == "alnfeat" and sliced_view:
            # what the stored spans give when they are laid over the sliced alignment as they are (neither shifted
            # nor clipped to it): a span starting at or before the new length still counts towards the covering span
            n_view = hi - lo
            runs = intervals(set(cols_all))
            use = [(x, min(y, n_view)) for x, y in runs if x <= n_view]
            if use:
                cs, ce = min(x for x, _ in use), max(y for _, y in use)
                if gg == rows_at(rows, list(range(lo + cs, lo + ce)), strand == "-"):
                    mech = D8
        ctx.witness(mech, check="slice-allow-gaps", got=gg, expected=expg, map=repr(f.map), **det)
        return
    whole = all(lo <= c < hi for c in cols_all)
    if whole:
        res.evals += 1
        try:
            gc_ = f.get_slice(complete=True).to_dict()
        except Exception as e:  # noqa: BLE001
            ctx.witness(exc_mechanism(f"C04/aln-{kind}-slice-complete", e), error=repr(e)[:300], expected=exp, **det)
            return
        if gc_ != exp:
            ctx.witness(f"C04/aln-{kind}-slice-complete/after-{ctx.op}", got=gc_, expected=exp, **det)


def row_window(row, lo, hi):
    cols = [i for i, c in enumerate(row) if c != "-"]
    return sum(1 for c in cols if c < lo), sum(1 for c in cols if c < hi)


def observe_aln(ctx, obj, rows, view, seqfeats, alnfeats, lenient_empty=False, check_default=True):
    res = ctx.res
    lo, hi, rev = view
    A = len(next(iter(rows.values())))
    sliced_view = lo != 0 or hi != A
    for ap in (True, False):
        # ---- sequence features, projected onto the alignment
        res.count(f"aln:query-seqfeat-{'partial' if ap else 'strict'}")
        got = None
        try:
            got = list(obj.get_features(on_alignment=False, allow_partial=ap))
        except Exception as e:  # noqa: BLE001
            res.evals += 1
            culprits = []
            for f in seqfeats:
                try:
                    list(obj.get_features(seqid=f["row"], name=f["name"], on_alignment=False, allow_partial=ap))
                except Exception:  # noqa: BLE001
                    culprits.append(f)
            cls = "no-single-feature"
            if culprits:
                f = culprits[0]
                slo, shi = row_window(rows[f["row"]], lo, hi)
                if slo == shi:
                    cls = "row-has-no-residue-in-view"
                else:
                    cls = exc_class([[tuple(s) for s in f["spans"]]], (slo, shi, rev))
            pre = f"C04/get_features/{cls}/old" if cls == "span-ends-at-view-start" else f"C04/aln-get_features-seqfeat/{cls}"
            ctx.witness(
                exc_mechanism(pre, e),
                error=repr(e)[:300],
                view=view,
                allow_partial=ap,
                culprit_features=culprits,
            )
            return
        names = [f.name for f in got]
        if lenient_empty and not got:
            res.count("aln:deepcopy-sliced-dropped-annotations")
        else:
            for f in seqfeats:
                spans = [tuple(s) for s in f["spans"]]
                slo, shi = row_window(rows[f["row"]], lo, hi)
                kept = [c for c in cols_of(rows[f["row"]], spans) if lo <= c < hi]
                a0, b0 = spans[0][0], spans[-1][1]
                if ap:
                    st = "in" if kept else ("amb" if (a0 <= shi and b0 >= slo) else "out")
                else:
                    st = "in" if (shi > slo and a0 >= slo and b0 <= shi) else "out"
                c = names.count(f["name"])
                res.evals += 1
                res.count("aln:seqfeat-membership-decisions")
                bad = None
                if st == "in" and c == 0:
                    bad = "missing-feature"
                elif st == "out" and c > 0:
                    bad = "unexpected-feature"
                elif c > 1:
                    bad = "duplicate-feature"
                if bad:
                    ctx.witness(
                        f"C04/aln-get_features-seqfeat/{bad}/after-{ctx.op}",
                        feature=f,
                        view=view,
                        allow_partial=ap,
                        expected=st,
                        count=c,
                        got_names=names,
                        row_window=(slo, shi),
                    )
                    return
        by = {f["name"]: f for f in seqfeats}
        for g in got:
            if g.name not in by:
                res.evals += 1
                ctx.witness("C04/aln-get_features-seqfeat/unknown-feature", name=g.name, view=view, allow_partial=ap, got_names=names)
                return
            f = by[g.name]
            spans = [tuple(s) for s in f["spans"]]
            slo, shi = row_window(rows[f["row"]], lo, hi)
            classes = feat_classes(spans, (slo, shi, rev))
            gappy = "gap-inside" if "-" in rows[f["row"]][lo:hi].strip("-") else "no-inner-gap"
            nt = ctx.depth >= 1 or gappy == "gap-inside"
            sig = ("aln", "seqfeat", ctx.scn["intro"], f["strand"], min(len(spans), 3), classes, rev, ap, gappy, ctx.op) if nt else None
            check_aln_feature(ctx, obj, rows, view, g, cols_of(rows[f["row"]], spans), f["strand"], "seqfeat", sig)
            if ctx.failed:
                return
            if "-" in rows[f["row"]]:
                res.count("aln:seqfeat-through-gapped-row")
    for ap in (True, False):
        # ---- alignment features
        if not alnfeats:
            continue
        res.count(f"aln:query-alnfeat-{'partial' if ap else 'strict'}")
        try:
            gota = list(obj.get_features(on_alignment=True, allow_partial=ap))
        except Exception as e:  # noqa: BLE001
            res.evals += 1
            n_view = hi - lo
            if sliced_view and isinstance(e, RuntimeError) and any(a > n_view for f in alnfeats for a, _ in f["spans"]):
                # what un-rebased spans must do: a span that starts beyond the sliced alignment is "located outside"
                mech = D8
            else:
                mech = exc_mechanism("C04/aln-get_features-alnfeat", e)
            ctx.witness(mech, error=repr(e)[:300], view=view, allow_partial=ap, alnfeats=alnfeats)
            return
        anames = [f.name for f in gota]
        if lenient_empty and not gota:
            continue
        for f in alnfeats:
            spans = [tuple(s) for s in f["spans"]]
            st = status(spans, lo, hi, ap)
            c = anames.count(f["name"])
            res.evals += 1
            res.count("aln:alnfeat-membership-decisions")
            bad = None
            if st == "in" and c == 0:
                bad = "missing-feature"
            elif st == "out" and c > 0:
                bad = "unexpected-feature"
            elif c > 1:
                bad = "duplicate-feature"
            if bad:
                if sliced_view and bad == "unexpected-feature" and sorted(anames) == sorted(x["name"] for x in alnfeats):
                    # no window is applied at all: every alignment feature comes back exactly once
                    mech = D8
                else:
                    mech = f"C04/aln-get_features-alnfeat/{bad}/after-{ctx.op}"
                ctx.witness(mech, check=bad, feature=f, view=view, allow_partial=ap, expected=st, count=c, got_names=anames)
                return
        bya = {f["name"]: f for f in alnfeats}
        for g in gota:
            if g.name not in bya:
                continue  # sequence features are not expected here, but the property does not forbid extra kinds
            f = bya[g.name]
            spans = [tuple(s) for s in f["spans"]]
            if status(spans, lo, hi, ap) == "out":
                continue
            cols = [c for a, b in spans for c in range(a, b)]
            # alternative: spans applied to the current view without re-basing
            alt_cols = [c + lo for c in cols]
            classes = feat_classes(spans, view)
            sig = ("aln", "alnfeat", f["strand"], len(spans), classes, rev, ap, ctx.op) if ctx.depth >= 1 else None
            check_aln_feature(ctx, obj, rows, view, g, cols, f["strand"], "alnfeat", sig, alt_cols=alt_cols, alt_strand=f["strand"])
            if ctx.failed:
                return
    # ---- default query = both kinds
    if not check_default:
        return  # G: get_projected_feature documents that it adds a record to the db; what kind is not specified
    res.evals += 1
    try:
        both = [f.name for f in obj.get_features(allow_partial=True)]
        a = [f.name for f in obj.get_features(on_alignment=False, allow_partial=True)]
        b = [f.name for f in obj.get_features(on_alignment=True, allow_partial=True)] if alnfeats else []
    except Exception:  # noqa: BLE001
        return  # reported above when it concerns one of the specific queries
    if sorted(both) != sorted(a + b):
        ctx.witness("C04/aln-get_features-default/not-union-of-both-kinds", got=both, seq_kind=a, aln_kind=b, view=view)


def run_aln_scn(res, scn):
    from cogent3 import make_aligned_seqs

    ctx = Ctx(res, scn)
    rows = scn["rows"]
    A = len(next(iter(rows.values())))
    intro = scn["intro"]
    res.count(f"scenario:aln:{intro}")
    tmp = None
    try:
        try:
            aln = make_aligned_seqs(dict(rows), moltype="dna", array_align=False)
        except Exception as e:  # noqa: BLE001
            res.evals += 1
            ctx.witness(exc_mechanism("C04/make_aligned_seqs", e), error=repr(e)[:300])
            return
        view = (0, A, False)
        # ---- introduce
        try:
            if intro == "add":
                for f in scn["seqfeats"]:
                    res.evals += 1
                    feat = aln.add_feature(
                        seqid=f["row"], biotype=f["biotype"], name=f["name"], spans=[tuple(s) for s in f["spans"]], strand=f["strand"]
                    )
                    g = feat.get_slice().to_dict()
                    exp = rows_at(rows, cols_of(rows[f["row"]], [tuple(s) for s in f["spans"]]), f["strand"] == "-")
                    if g != exp:
                        ctx.witness("C04/aln-add_feature/returned-seqfeat-slice", feature=f, got=g, expected=exp)
                        return
            elif intro == "db":
                db = _mk_db(scn["dbtype"])
                for f in scn["seqfeats"]:
                    db.add_feature(
                        seqid=f["row"], biotype=f["biotype"], name=f["name"], spans=[tuple(s) for s in f["spans"]], strand=f["strand"]
                    )
                aln.annotation_db = db
            elif intro == "gff":
                text = "##gff-version 3\n" + "".join(
                    _gff_text(f["row"], [f]).split("\n", 1)[1] for f in scn["seqfeats"]
                )
                tmp = _write_tmp(text)
                aln.annotate_from_gff(tmp)
            for f in scn["alnfeats"]:
                res.evals += 1
                feat = aln.add_feature(
                    biotype=f["biotype"], name=f["name"], spans=[tuple(s) for s in f["spans"]], on_alignment=True, strand=f["strand"]
                )
                g = feat.get_slice().to_dict()
                cols = [c for a, b in f["spans"] for c in range(a, b)]
                exp = rows_at(rows, cols, f["strand"] == "-")
                if g != exp:
                    cls = "minus-strand" if f["strand"] == "-" else "plus-strand"
                    ctx.witness(f"C04/aln-add_feature/returned-alnfeat-slice/{cls}", feature=f, got=g, expected=exp, map=repr(feat.map))
                    return
        except Exception as e:  # noqa: BLE001
            res.evals += 1
            ctx.witness(exc_mechanism(f"C04/aln-intro-{intro}", e), error=repr(e)[:300])
            return
        cur = aln
        observe_aln(ctx, cur, rows, view, scn["seqfeats"], scn["alnfeats"])
        if ctx.failed:
            return
        lenient = False
        projected = False
        colfeats = aln_colfeats(rows, scn["seqfeats"], scn["alnfeats"])
        byname = {f["name"]: f for f in scn["seqfeats"] + scn["alnfeats"]}
        for i, st in enumerate(scn["history"]):
            ctx.depth = i + 1
            ctx.op = aln_opname(st)
            res.count("aln-op:" + ctx.op)
            if st[0] == "project":
                if lenient:
                    continue
                ok = do_project(ctx, cur, rows, view, byname[st[1]], st[2])
                if ctx.failed:
                    return
                if ok:
                    projected = True
                    res.count("aln:projection-inside-history")
                    # nothing a projection writes may change what later queries return, on any object sharing the db
                    observe_aln(ctx, cur, rows, view, scn["seqfeats"], scn["alnfeats"], lenient_empty=lenient, check_default=False)
                    if ctx.failed:
                        return
                    observe_seq_rows(ctx, cur, rows, scn["seqfeats"], view)
                    if ctx.failed:
                        return
                    if cur is not aln:
                        observe_seq_rows(ctx, aln, rows, scn["seqfeats"], (0, A, False))
                        if ctx.failed:
                            return
                continue
            if st[0] == "fslice":
                sp = colfeats[st[1]][0]
                unsliced = (view[0], view[1]) == (0, A)
                if len(sp) != 1 or sp[0][0] < view[0] or sp[0][1] > view[1] or lenient or not (st[1] in {f["name"] for f in scn["seqfeats"]} or unsliced):
                    res.count("aln-fslice-not-applicable")
                    break
            try:
                nxt = aln_step(cur, st)
            except FeatureNotReturned:
                res.evals += 1
                ctx.witness(f"C04/aln-missing-feature/before-{ctx.op}", feature=st[1], view=view, query="by-name")
                return
            except Exception as e:  # noqa: BLE001
                res.evals += 1
                ctx.witness(exc_mechanism(f"C04/aln-history-{ctx.op}", e), error=repr(e)[:300], view=view)
                return
            nview = view_apply(view, st, colfeats)
            expd = rows_at(rows, list(range(nview[0], nview[1])), nview[2])
            res.evals += 1
            try:
                gd = nxt.to_dict()
            except Exception as e:  # noqa: BLE001
                ctx.witness(exc_mechanism(f"C04/aln-history-{ctx.op}/to_dict", e), error=repr(e)[:300], view=nview)
                return
            if gd != expd:
                ctx.witness(f"C04/aln-history-{ctx.op}/view-rows", got=gd, expected=expd, view=nview)
                return
            cur, view = nxt, nview
            observe_aln(ctx, cur, rows, view, scn["seqfeats"], scn["alnfeats"], lenient_empty=lenient, check_default=not projected)
            if ctx.failed:
                return
            if st[0] == "fslice":
                res.count("aln:slice-by-feature-then-query")
                observe_seq_rows(ctx, cur, rows, scn["seqfeats"], view)
                if ctx.failed:
                    return
        if lenient:
            return  # annotations may legitimately be gone; the per-row entry points below would only repeat that
        # ---- end of history: projection to rows
        base = ctx.op
        ctx.op = base + "+project"
        for fname, target in scn["project"]:
            do_project(ctx, cur, rows, view, byname[fname], target)
            if ctx.failed:
                return
        ctx.op = base
        observe_seq_rows(ctx, cur, rows, scn["seqfeats"], view)
        if ctx.failed:
            return
        if cur is not aln:
            observe_seq_rows(ctx, aln, rows, scn["seqfeats"], (0, A, False))
            if ctx.failed:
                return
        observe_degap_rows(ctx, cur, rows, scn["seqfeats"], view)
        res.sample({k: scn[k] for k in ("rows", "intro", "seqfeats", "alnfeats", "history")})
    finally:
        if tmp:
            try:
                os.unlink(tmp)
            except OSError:
                pass


def do_project(ctx, cur, rows, view, f, target):
    """get_projected_feature of feature f (as the view returns it) onto row `target`; True when a projection was made"""
    res = ctx.res
    lo, hi, rev = view
    fname = f["name"]
    is_aln = "row" not in f
    try:
        if is_aln:
            cands = [g for g in cur.get_features(on_alignment=True, allow_partial=True) if g.name == fname]
        else:
            cands = [g for g in cur.get_features(seqid=f["row"], on_alignment=False, allow_partial=True) if g.name == fname]
    except Exception:  # noqa: BLE001
        return False  # reported by the observation of this view
    if not cands:
        return False
    spans = [tuple(s) for s in f["spans"]]
    cols = [c for a, b in spans for c in range(a, b)] if is_aln else cols_of(rows[f["row"]], spans)
    kept = [c for c in cols if lo <= c < hi]
    if not kept:
        return False  # G: a feature with no residue in the view need not be returned, so nothing to project
    if is_aln and (lo, hi) != (0, len(rows[target])):
        return False  # alignment features on a sliced view are misplaced already (known finding): nothing to learn
    t = "".join(rows[target][c] for c in kept).replace("-", "")
    exp = rc(t) if f["strand"] == "-" else t
    res.evals += 1
    res.count("aln:projected-feature-decisions")
    kind = "alnfeat" if is_aln else "seqfeat"
    try:
        pf = cur.get_projected_feature(seqid=target, feature=cands[0])
        g = str(pf.get_slice())
    except Exception as e:  # noqa: BLE001
        slo, shi = row_window(rows[target], lo, hi)
        cls = "target-row-has-no-residue-in-view" if slo == shi else ("no-target-residue-under-feature" if not t else "target-residues-under-feature")
        ctx.witness(exc_mechanism(f"C04/aln-projected-feature/{kind}/{cls}", e), error=repr(e)[:300], feature=f, target=target, view=view, expected=exp)
        return False
    res.sig("aln", "project", kind, f["strand"], len(spans), rev, "gap-in-target" if "-" in "".join(rows[target][c] for c in kept) else "no-gap", target == f.get("row"))
    if g != exp:
        ctx.witness(f"C04/aln-projected-feature/{kind}/after-{ctx.op}", feature=f, target=target, view=view, got=g, expected=exp, map=repr(pf.map))
        return False
    return True


def observe_seq_rows(ctx, cur, rows, seqfeats, view):
    """get_seq(row) of the view: sequence-level queries on what the alignment hands out (same db as the alignment)"""
    res = ctx.res
    lo, hi, rev = view
    if not seqfeats:
        return
    base_op = ctx.op
    try:
        for r, row in rows.items():
            U = row.replace("-", "")
            slo, shi = row_window(row, lo, hi)
            if slo == shi:
                continue  # an empty sequence has no window to query
            model = {f["name"]: ([tuple(s) for s in f["spans"]], f["strand"]) for f in seqfeats if f["row"] == r}
            ctx.op = base_op + "+get_seq"
            res.evals += 1
            try:
                s = cur.get_seq(r)
                sv = str(s)
            except Exception as e:  # noqa: BLE001
                ctx.witness(exc_mechanism("C04/aln-get_seq", e), error=repr(e)[:300], row=r, view=view)
                return
            expv = rc(U[slo:shi]) if rev else U[slo:shi]
            if sv != expv:
                ctx.witness("C04/aln-get_seq/view-string", got=sv, expected=expv, row=r, view=view)
                return
            res.count("aln:get_seq-queries")
            # also a row without features of its own is queried: nothing may be reported for it
            for ap in (True, False):
                for win in [None] + mixed_windows(shi - slo):
                    query_seq(ctx, s, U, (slo, shi, rev), model, None, win, ap, level="alnrow")
                    if ctx.failed:
                        return
    finally:
        ctx.op = base_op


def observe_degap_rows(ctx, cur, rows, seqfeats, view):
    """degap() of the final view: the collection it returns is asked for the features of every row"""
    res = ctx.res
    lo, hi, rev = view
    if not seqfeats:
        return
    base_op = ctx.op
    ctx.op = base_op + "+degap"
    res.evals += 1
    try:
        coll = cur.degap()
    except Exception as e:  # noqa: BLE001
        ctx.witness(exc_mechanism("C04/aln-degap", e), error=repr(e)[:300], view=view)
        return
    res.count("aln-op:degap")
    for r, row in rows.items():
        U = row.replace("-", "")
        slo, shi = row_window(row, lo, hi)
        if slo == shi:
            continue
        model = {f["name"]: ([tuple(s) for s in f["spans"]], f["strand"]) for f in seqfeats if f["row"] == r}
        if not model:
            continue
        for ap in (True, False):
            res.evals += 1
            try:
                got = list(coll.get_features(seqid=r, allow_partial=ap))
            except Exception as e:  # noqa: BLE001
                try:
                    lost_id = coll.get_seq(r).parent_coordinates()[0] is None
                except Exception:  # noqa: BLE001
                    lost_id = False
                if lost_id and isinstance(e, (KeyError, ValueError)):
                    # the degapped sequences are brand-new roots without a seqid, so the collection cannot find
                    # the records of the db it still carries
                    mech = D5
                else:
                    mech = exc_mechanism("C04/aln-degap/collection-get_features", e)
                ctx.witness(mech, error=repr(e)[:300], row=r, view=view, allow_partial=ap)
                return
            rview = (slo, shi, rev)
            hy = [fresh_root(U, rview, model, D5, no_filter=True), fresh_root(U, rview, model, D5), ignores_bounds(U, rview, model)]
            check_seq_features(ctx, None, U, rview, model, hy, (0, shi - slo), ap, got, "degap-collection", level="alndegap")
            if ctx.failed:
                return


# ---------------------------------------------------------------------------
# collection level


def twice(s, model, view):
    """defect hypothesis for new-type sequences: slicing by a single-span map counts the span start twice"""
    if view != (0, len(s), False):
        return []
    m = {nm: ([(a + a, b + a)], st) for nm, (sp, st) in model.items() if len(sp) == 1 for a, b in sp}
    return [{"label": "feature-slice/single-span-start-counted-twice", "parent": s, "view": view, "model": m}]


def run_coll_scn(res, scn):
    from cogent3 import make_seq, make_unaligned_seqs

    ctx = Ctx(res, scn)
    OP[0] = "intro"
    impl = scn["impl"]
    seqs = scn["seqs"]
    new_type = impl == "new"
    res.count(f"scenario:coll:{impl}")
    views = {r: (0, len(s), False) for r, s in seqs.items()}
    from_views = scn["intro"] == "members"
    try:
        if from_views:
            members = []
            for r, s in seqs.items():
                sq = make_seq(s, name=r, moltype="dna", new_type=new_type)
                for f in scn["features"]:
                    if f["row"] == r:
                        sq.add_feature(biotype=f["biotype"], name=f["name"], spans=[tuple(x) for x in f["spans"]], strand=f["strand"])
                for st in scn["members"].get(r, []):
                    sq = seq_step(sq, st)
                    views[r] = view_apply(views[r], st)
                members.append(sq)
            coll = make_unaligned_seqs(members, moltype="dna", new_type=new_type)
            res.count("coll:built-from-views")
        else:
            coll = make_unaligned_seqs(dict(seqs), moltype="dna", new_type=new_type)
        if scn["intro"] == "add":
            for f in scn["features"]:
                res.evals += 1
                feat = coll.add_feature(
                    seqid=f["row"], biotype=f["biotype"], name=f["name"], spans=[tuple(s) for s in f["spans"]], strand=f["strand"]
                )
                g = str(feat.get_slice())
                exp = exp_slice(seqs[f["row"]], [tuple(s) for s in f["spans"]], f["strand"], 0, len(seqs[f["row"]]))
                if g != exp:
                    sp = [tuple(x) for x in f["spans"]]
                    why = None
                    if len(sp) == 1:
                        a, b = sp[0]
                        if g == exp_slice(seqs[f["row"]], [(a + a, b + a)], f["strand"], 0, len(seqs[f["row"]])):
                            why = "feature-slice/single-span-start-counted-twice"
                    mech = f"C04/{why}/{impl}" if why else f"C04/coll-add_feature/returned-feature-slice/{impl}"
                    ctx.witness(mech, feature=f, got=g, expected=exp)
                    return
        elif scn["intro"] == "db":
            db = _mk_db("basic")
            for f in scn["features"]:
                db.add_feature(seqid=f["row"], biotype=f["biotype"], name=f["name"], spans=[tuple(s) for s in f["spans"]], strand=f["strand"])
            coll.annotation_db = db
    except Exception as e:  # noqa: BLE001
        res.evals += 1
        ctx.witness(exc_mechanism(f"C04/coll-intro-{scn['intro']}", e), error=repr(e)[:300])
        return
    present = set(seqs)
    cur = coll

    def models(r):
        return {f["name"]: ([tuple(x) for x in f["spans"]], f["strand"]) for f in scn["features"] if f["row"] == r}

    def observe():
        for r in sorted(present):
            s = seqs[r]
            view = views[r]
            n = view[1] - view[0]
            res.evals += 1
            try:
                sv = str(cur.get_seq(r))
            except Exception as e:  # noqa: BLE001
                ctx.witness(exc_mechanism("C04/coll-get_seq", e), error=repr(e)[:300], row=r)
                return
            expv = rc(s[view[0] : view[1]]) if view[2] else s[view[0] : view[1]]
            if sv != expv:
                ctx.witness(f"C04/coll-member/view-string/{impl}", got=sv, expected=expv, row=r, view=view)
                return
            model = models(r)
            hyps = twice(s, model, view) if new_type else []
            if from_views and new_type:
                hyps.append(fresh_root(s, view, model, D11_NEW, no_filter=True))
            hyps.append(ignores_bounds(s, view, model))
            for ap in (True, False):
                res.evals += 1
                res.count(f"coll:query-{impl}")
                try:
                    got = list(cur.get_features(seqid=r, allow_partial=ap))
                except Exception as e:  # noqa: BLE001
                    cls = exc_class([sp for sp, _ in model.values()], view)
                    pre = f"C04/get_features/{cls}/{impl}" if cls == "span-ends-at-view-start" else "C04/coll-get_features"
                    ctx.witness(exc_mechanism(pre, e), error=repr(e)[:300], row=r, allow_partial=ap, view=view)
                    return
                check_seq_features(ctx, None, s, view, model, hyps, (0, n), ap, got, "collection", level="coll")
                if ctx.failed:
                    return

    observe()
    if ctx.failed:
        return
    for i, st in enumerate(scn["history"]):
        ctx.depth = i + 1
        ctx.op = st[0]
        OP[0] = ctx.op
        res.count("coll-op:" + st[0])
        try:
            if st[0] == "rc":
                cur = cur.rc()
                views = {r: view_apply(v, ["rc"]) for r, v in views.items()}
            elif st[0] == "take":
                keep = [k for k in st[1] if k in present]
                if not keep:
                    continue
                cur = cur.take_seqs(keep)
                present = set(keep)
            elif st[0] == "copy":
                cur = cur.copy() if impl == "old" else _copy.deepcopy(cur)
            elif st[0] == "deepcopy":
                ctx.op = "deepcopy-sliced" if st[1] else "deepcopy-unsliced"
                OP[0] = ctx.op
                cur = cur.deepcopy(sliced=bool(st[1]))
        except Exception as e:  # noqa: BLE001
            res.evals += 1
            ctx.witness(exc_mechanism(f"C04/coll-history-{st[0]}", e), error=repr(e)[:300])
            return
        observe()
        if ctx.failed:
            return
    # get_seq, then a history on the sequence the collection handed out
    r, hist = scn["get_seq"]
    if r not in present:
        return
    s = seqs[r]
    model = models(r)  # only this sequence's features: anything else returned is an extra
    view = views[r]
    if view[1] - view[0] < 1:
        return
    ctx.op = "get_seq"
    OP[0] = ctx.op
    ctx.depth += 1
    try:
        obj = cur.get_seq(r)
    except Exception as e:  # noqa: BLE001
        res.evals += 1
        ctx.witness(exc_mechanism("C04/coll-get_seq", e), error=repr(e)[:300], row=r)
        return
    for st in [None] + list(hist):
        if st is not None:
            if st[0] == "slice" and st[2] > view[1] - view[0]:
                break
            ctx.op = "get_seq+" + opname(st)
            OP[0] = ctx.op
            ctx.depth += 1
            res.count("collseq-op:" + opname(st))
            try:
                obj = seq_step(obj, st)
            except Exception as e:  # noqa: BLE001
                res.evals += 1
                ctx.witness(exc_mechanism(f"C04/coll-get_seq-history-{opname(st)}", e), error=repr(e)[:300], view=view)
                return
            view = view_apply(view, st)
        expv = s[view[0] : view[1]]
        if view[2]:
            expv = rc(expv)
        res.evals += 1
        if str(obj) != expv:
            ctx.witness(f"C04/coll-get_seq/view-string/{impl}", got=str(obj), expected=expv, view=view)
            return
        for ap in (True, False):
            for win in [None] + mixed_windows(view[1] - view[0]):
                query_seq(ctx, obj, s, view, model, None, win, ap, level="collseq")
                if ctx.failed:
                    return


# ---------------------------------------------------------------------------
# the documented offset argument of annotate_from_gff


def run_gff_offset_entry(res):
    from cogent3 import make_seq

    P = "ACGTTGCAAGGCTA"
    off = 2
    feats = [{"name": "g1", "biotype": "gene", "spans": [[4, 8]], "strand": "+"}]
    for impl in ("old", "new"):
        tmp = _write_tmp(_gff_text("s1", feats))
        res.evals += 1
        res.count("gff-offset-entry")
        try:
            s = make_seq(P[off:], name="s1", moltype="dna", new_type=impl == "new")
            s.annotate_from_gff(tmp, offset=off)
            got = [str(f.get_slice()) for f in s.get_features(allow_partial=True)]
            if got != [P[4:8]]:
                res.witness(f"C04/annotate_from_gff-offset/feature-slice/{impl}", got=got, expected=[P[4:8]], replay_case={"kind": "gff-offset-entry"})
        except Exception as e:  # noqa: BLE001
            res.witness(
                exc_mechanism("C04/annotate_from_gff-offset", e),
                error=repr(e)[:300],
                impl=impl,
                replay_case={"kind": "gff-offset-entry"},
            )
        finally:
            os.unlink(tmp)


# ---------------------------------------------------------------------------


def run_scn(res, scn):
    if scn["level"] == "seq":
        run_seq_scn(res, scn)
    elif scn["level"] == "aln":
        run_aln_scn(res, scn)
    elif scn["level"] == "coll":
        run_coll_scn(res, scn)


def run_case(case):
    res = Result()
    kind = case["kind"]
    if kind == "one":
        run_scn(res, case["scn"])
    elif kind == "gff-offset-entry":
        run_gff_offset_entry(res)
    else:
        rng = random.Random(case["seed"])
        for _ in range(case["n"]):
            if kind == "seq":
                scn = gen_seq_scn(rng, case["impl"], case["intro"], case.get("deep", False))
            elif kind == "aln":
                scn = gen_aln_scn(rng, case["intro"], case.get("deep", False))
            else:
                scn = gen_coll_scn(rng, case["impl"])
            run_scn(res, scn)
    return res


REQUIRED = [
    "scenario:seq:old:root",
    "scenario:seq:new:root",
    "scenario:seq:old:view",
    "scenario:seq:new:view",
    "scenario:seq:old:db",
    "scenario:seq:new:db",
    "scenario:seq:old:gff",
    "scenario:seq:new:gff",
    "seq:query-whole-partial",
    "seq:query-whole-strict",
    "seq:query-window-pos-partial",
    "seq:query-window-pos-strict",
    "seq:query-window-negstop-partial",
    "seq:query-window-negstop-strict",
    "seq:query-window-negstart-strict",
    "seq:query-window-neg-strict",
    "seq:query-window-omitted-strict",
    "seq:slice-decisions",
    "seq:slice-allow-gaps-decisions",
    "aln:slice-allow-gaps-decisions",
    "allow-gaps-on-reverse-feature",
    "seq:getitem-feature",
    "op:slice",
    "op:rc",
    "op:copy",
    "op:deepcopy",
    "op:degap",
    "multi-span-decided",
    "minus-strand-decided",
    "partly-inside-decided",
    "aln:query-seqfeat-partial",
    "aln:query-alnfeat-partial",
    "aln:seqfeat-slice-decisions",
    "aln:alnfeat-slice-decisions",
    "aln:seqfeat-through-gapped-row",
    "aln:getitem-feature",
    "aln:projected-feature-decisions",
    "aln:projection-inside-history",
    "aln:slice-by-feature-then-query",
    "aln-op:slice",
    "aln-op:rc",
    "coll:query-old",
    "coll:query-new",
    "collseq-op:copy",
    "coll-op:deepcopy",
    "aln-op:deepcopy-sliced",
]


def required(counters, tier):
    return [k for k in REQUIRED if not counters.get(k)]
