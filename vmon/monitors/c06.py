"""C06 — sequence file formats round-trip and all parsers of a format agree.

Shape B + R (boundary recorder + relational/differential).  The oracle is the
name -> sequence mapping the harness generated (plain Python str/list): what is
written with ``obj.write(path)`` must come back from ``load_(un)aligned_seqs``;
every FASTA parser variant must return the generated records; the chunked line
streamer must return the generated lines for every chunk size; both GenBank
parsers must return the generated LOCUS name, sequence and feature locations.
"""

import os
import pathlib
import random
import shutil
import string
import tempfile

from vmon.core import Result, exc_mechanism

ID = "C06"
LEVEL = "exploration"
RULE = (
    "seeded object sets (1-6 sequences; lengths from the wrap lattice {1,9,10,11,49,50,51,59,60,61,119,120,121} or "
    "random 1..260; DNA/RNA/protein incl. gaps and ambiguity codes; names plain / exactly 9,10,11 chars / longer / "
    "hostile printable ASCII built from tokens such as '>', '|', ' ', ';', ':', brackets, quotes, '~{', restricted per "
    "format to what the format can represent) x container {ArrayAlignment, Alignment, SequenceCollection} x format "
    "{fasta(+fa,mfa suffixes), phylip, paml, gde, json} x compression {plain, .gz, .bz2, .zip} written with "
    "obj.write and loaded back with load_aligned_seqs / load_unaligned_seqs / load_seq; harness-written FASTA texts "
    "(line widths, LF/CRLF, with/without final newline, compressed or not) through every FASTA parser variant; text "
    "files through iter_splitlines for every chunk size 1..len+1 (small files) or a lattice of sizes (larger) and "
    "iter_line_blocks; every plain fasta/phylip/paml/gde file written above handed to the format's registered parser "
    "(get_parser / PARSERS) as Path, str, list of lines, tuple of lines, lines that keep their LF or CRLF endings (as "
    "readlines() gives), and to the load_aligned / load_unaligned apps, incl. widths 61..260 so that PHYLIP "
    "continuation lines occur; generated GenBank files (1-3 LOCUS records, features with join/complement/partial/single-base "
    "locations, wrapped location lines) through minimal_parser / rich_parser / the legacy line parser / the loaders. "
    "Non-trivial = a hostile or boundary-length name, or a sequence length on the wrap lattice, or a chunk boundary "
    "inside a line, or a multi-span / minus-strand feature; distinct = (format, compression, container class, name "
    "class, length class) resp. (parser family, text layout, label class) resp. (compression, eol, chunk-size "
    "class) resp. (genbank parser, location structure class)."
)
LEVEL_TEXT = (
    "The real writers and loaders are driven with seeded name/sequence sets biased to the line-wrap and name-width "
    "boundaries of each format and to hostile printable-ASCII names; what is loaded is compared with the generated "
    "mapping (names in order, sequences; PHYLIP names up to the writer's 9-character truncation). All FASTA parser "
    "variants, every line-chunk size and the GenBank parsers are compared with the generated records."
    " The string writers (to_fasta / to_phylip, which take no explicit order) are read back by the line parsers, many objects per worker process."
)
LEVEL_NOTE = (
    "held = held on the executions listed in the evidence; trusted: Python str/list semantics, the harness's own "
    "FASTA / GenBank text writers, gzip/bz2/zipfile as used by the code under test"
)
TECHNIQUE = "runtime monitoring: write/load round trip against the generated mapping + differential check of parser variants and chunk sizes"
ASSUMPTIONS = [
    "the generated name -> sequence mapping (Python str) is the reference",
    "a format is only asked to carry names it can represent: no leading/trailing whitespace anywhere, no whitespace "
    "in PHYLIP/PAML names, PHYLIP names unique in their first 9 characters, equal lengths for PHYLIP/PAML",
    "sequences are upper case (the bytes FASTA parser upper-cases by design)",
    "GenBank LOCUS names contain no whitespace; only nucleotide records are generated",
]
TIMEOUT = {"quick": 900, "thorough": 7200}

LATTICE = [1, 9, 10, 11, 49, 50, 51, 59, 60, 61, 119, 120, 121]
FORMATS = ["fasta", "phylip", "paml", "gde", "json"]
CMPS = ["", ".gz", ".bz2", ".zip"]
CONTAINERS = ["ArrayAlignment", "Alignment", "SequenceCollection"]
ALPHA = {
    "dna": ("ACGT", "NRYWSKMBDHV", "-?"),
    "rna": ("ACGU", "NRYWSKMBDHV", "-?"),
    "protein": ("ACDEFGHIKLMNPQRSTVWY", "XBZ", "-?"),
}
PLAIN = string.ascii_lowercase + string.digits + "_"
PRINTABLE = "".join(chr(c) for c in range(0x21, 0x7F))
TOKENS = [">", ">", "|", " ", ";", ":", "[", "]", "(", ")", ",", "=", "#", "%", "'", '"', "\\", "/", "*", "?", "~{", "~}",
          "~{ab~}", "~{~}", "~", "{", "}", "@", "&", "<", "$", "!", "^", "`", "+", "-", ".", "  ", "_"]
NAME_STYLES = ["plain", "len9", "len10", "len11", "long", "hostile", "hostile-nospace", "hostile-len", "spaced"]
FASTA_SUFFIXES = ["fasta", "fasta", "fa", "mfa"]
F13 = "C06/fasta-bytes-parser-splits-on-inner->"
HZ = "C06/text-open/printable-ascii-decoded-as-hz"


def gen_cases(rng, tier):
    quick = tier == "quick"
    cases = []
    n_rt, per_rt = (100, 3) if quick else (1000, 5)
    for i in range(n_rt):
        cases.append({"kind": "roundtrip", "seed": rng.randrange(2**32), "n": per_rt, "stratum": i, "all_cmp": not quick})
    n_fp, per_fp = (30, 8) if quick else (150, 20)
    for i in range(n_fp):
        cases.append({"kind": "fasta-parsers", "seed": rng.randrange(2**32), "n": per_fp, "stratum": i})
    n_sl, per_sl = (30, 4) if quick else (150, 8)
    for i in range(n_sl):
        cases.append({"kind": "splitlines", "seed": rng.randrange(2**32), "n": per_sl, "stratum": i, "small": 200 if quick else 400})
    n_gb, per_gb = (30, 6) if quick else (150, 20)
    for i in range(n_gb):
        cases.append({"kind": "genbank", "seed": rng.randrange(2**32), "n": per_gb, "stratum": i})
    return cases


# ---------------------------------------------------------------------------
# generators (harness side, plain Python)


def gen_name(rng, style):
    for _ in range(100):
        if style == "plain":
            nm = "s" + "".join(rng.choice(PLAIN) for _ in range(rng.randint(1, 7)))
        elif style in ("len9", "len10", "len11"):
            nm = "".join(rng.choice(string.ascii_letters + string.digits) for _ in range(int(style[3:])))
        elif style == "long":
            nm = "".join(rng.choice(string.ascii_letters + string.digits + "_.") for _ in range(rng.randint(12, 40)))
        elif style == "spaced":
            nm = "s" + "".join(rng.choice(PLAIN) for _ in range(rng.randint(1, 8)))
            nm += "".join(" " + "".join(rng.choice(string.ascii_letters) for _ in range(rng.randint(1, 6))) for _ in range(rng.randint(1, 3)))
        else:
            pieces = []
            for _ in range(rng.randint(1, 12)):
                r = rng.random()
                if r < 0.4:
                    pieces.append(rng.choice(TOKENS))
                elif r < 0.7:
                    pieces.append(rng.choice(PRINTABLE))
                else:
                    pieces.append(rng.choice(string.ascii_letters))
            nm = "".join(pieces)
            if style == "hostile-nospace":
                nm = nm.replace(" ", "")
            if style == "hostile-len":
                n = rng.choice([9, 10, 11])
                nm = nm.replace(" ", "")
                while len(nm) < n:
                    nm += rng.choice(PRINTABLE)
                nm = nm[:n]
        nm = nm.strip()
        if nm:
            return nm
    return "fallback"


def gen_names(rng, n, style):
    names = []
    while len(names) < n:
        # one name of the forced style, the rest a mixture
        st = style if not names else rng.choice([style, style, "plain", rng.choice(NAME_STYLES)])
        nm = gen_name(rng, st)
        if nm not in names:
            names.append(nm)
    return names


def gen_seq(rng, mt, L, gaps):
    canon, ambig, gapc = ALPHA[mt]
    p_amb = rng.choice([0.0, 0.05, 0.3])
    p_gap = rng.choice([0.05, 0.2, 0.5]) if gaps else 0.0
    out = []
    i = 0
    while i < L:
        r = rng.random()
        if r < p_gap:
            run = min(L - i, rng.choice([1, 1, 2, 3, 10]))
            out.append(rng.choice(gapc[0] * 4 + gapc[1]) * run)
            i += run
        elif r < p_gap + p_amb:
            out.append(rng.choice(ambig))
            i += 1
        else:
            out.append(rng.choice(canon))
            i += 1
    s = "".join(out)
    if s and all(c in gapc for c in s):
        # keep one residue: all-gap rows are the business of other properties (C03/C08)
        k = rng.randrange(L)
        s = s[:k] + rng.choice(canon) + s[k + 1 :]
    return s


def gen_length(rng, forced=None):
    if forced is not None:
        return forced
    r = rng.random()
    if r < 0.6:
        return rng.choice(LATTICE)
    if r < 0.95:
        return rng.randint(1, 130)
    return rng.choice([130, 179, 180, 181, 240, 260])


def name_class(names):
    """class of the most hostile name of a set"""
    joined = "\n".join(names)
    if ">" in joined:
        return "has->"
    if "~{" in joined:
        return "has-~{"
    if any(c in joined for c in "%#"):
        return "has-%#"
    if any(c in joined for c in "'\"\\"):
        return "has-quote"
    if any(not (c.isalnum() or c in "_. \n") for c in joined):
        return "punct"
    if " " in joined:
        return "space"
    ml = max(len(n) for n in names)
    if ml in (9, 10, 11):
        return f"len{ml}"
    return "long" if ml > 11 else "plain"


def len_class(L):
    if L in LATTICE:
        return f"L{L}"
    if L < 60:
        return "rand<60"
    if L <= 120:
        return "rand60-120"
    return "rand>120"


def representable(fmt, names, seqs):
    """can the format carry these names / sequences at all"""
    if any(n != n.strip() or not n for n in names) or len(set(names)) != len(names):
        return False
    if fmt in ("phylip", "paml"):
        # PHYLIP separates the name field from the sequence by position/whitespace; PAML writes each name on a line of
        # its own, so a name with internal blanks is representable there (and round-trips on the reference tree)
        if fmt == "phylip" and any(any(c.isspace() for c in n) for n in names):
            return False
        if fmt == "paml" and any(any(c.isspace() and c != " " for c in n) for n in names):
            return False
        if len({len(s) for s in seqs}) != 1:
            return False
    if fmt == "phylip" and len({n[:9] for n in names}) != len(names):
        return False
    return True


# ---------------------------------------------------------------------------
# round trips


class Scratch:
    """a private directory under the worker's cwd, removed on exit"""

    def __enter__(self):
        self.path = pathlib.Path(tempfile.mkdtemp(prefix="c06-", dir=os.getcwd()))
        return self.path

    def __exit__(self, *a):
        shutil.rmtree(self.path, ignore_errors=True)


def names_ok(fmt, written, got):
    if len(written) != len(got):
        return "count-differs"
    if fmt != "phylip":
        if written == got:
            return None
        return "order-differs" if sorted(written) == sorted(got) else "names-differ"
    for w, g in zip(written, got):
        if len(w) <= 9:
            if g != w:
                return "names-differ"
        elif not (w.startswith(g) and len(g) >= 9):
            return "names-differ"
    return None


def hz_suspect(head):
    """classifier only (never the oracle): would the text-mode opener take these pure-ASCII bytes for HZ-GB-2312?"""
    if b"~{" not in head:
        return False
    try:
        from chardet import detect

        return str(detect(head)["encoding"]).upper().startswith("HZ")
    except Exception:  # noqa: BLE001
        return False


def check_roundtrip(res, spec):
    """one object written in one format/compression and loaded back; spec is a literal, replayable dict"""
    import cogent3

    names, seqs, mt = spec["names"], spec["seqs"], spec["moltype"]
    container, fmt, suffix, cmp = spec["container"], spec["fmt"], spec["suffix"], spec["cmp"]
    load_mt = spec.get("load_moltype", mt)
    as_path = spec.get("as_path", False)
    fkw = {"format": fmt} if spec.get("explicit_format") else {}
    replay = dict(spec, kind="one-roundtrip")
    detail = dict(names=names, seqs=seqs, moltype=mt, container=container, file=f"x.{suffix}{cmp}", replay_case=replay)
    aligned = container != "SequenceCollection"
    data = dict(zip(names, seqs))
    nc, lc = name_class(names), len_class(max(len(s) for s in seqs))
    res.count(f"rt:{fmt}{cmp}")
    res.count(f"container:{container}")
    res.count(f"nameclass:{nc}")
    res.count(f"moltype:{mt}")
    if fkw:
        res.count("explicit-format-argument")
    try:
        if aligned:
            obj = cogent3.make_aligned_seqs(data, moltype=mt, array_align=container == "ArrayAlignment")
        else:
            obj = cogent3.make_unaligned_seqs(data, moltype=mt)
        ok = list(obj.names) == names and obj.to_dict() == data
    except Exception as e:  # noqa: BLE001  construction is not this property's subject
        res.count("construct-failed:" + type(e).__name__)
        return
    if not ok:
        res.count("construct-not-faithful")
        return
    if cmp == "" and fmt in ("fasta", "phylip"):
        # the same writer reached through the string method (no file, no explicit order): its text, read by the
        # format's line parser, must give the same names, order and sequences
        check_text_writer(res, obj, fmt, names, seqs, detail)
    with Scratch() as d:
        path = d / f"x.{suffix}{cmp}"
        arg = path if as_path else str(path)
        res.evals += 1
        try:
            obj.write(arg, **fkw)
        except Exception as e:  # noqa: BLE001
            cls = "zip" if cmp == ".zip" else fmt
            res.witness(exc_mechanism(f"C06/write/{cls}", e), error=repr(e)[:300], **detail)
            return
        head = b""
        try:
            raw = read_bytes(path, cmp)
            head = raw[:100]
            detail["file_text"] = raw.decode("latin-1")[:1500]
        except Exception as e:  # noqa: BLE001
            res.witness(f"C06/write/{'zip' if cmp == '.zip' else fmt}/file-unreadable-{type(e).__name__}", error=repr(e)[:300], **detail)
            return
        loaders = [("load", None)]
        if spec.get("load_seq", True) and fmt != "json":  # a json file of a collection is not a Sequence json
            loaders.append(("load_seq", None))
        for which, _ in loaders:
            try:
                if which == "load_seq":
                    s = cogent3.load_seq(arg, moltype=load_mt, **fkw)
                    gnames, gseqs = [s.name], [str(s)]
                    wnames, wseqs = names[:1], seqs[:1]
                elif aligned:
                    got = cogent3.load_aligned_seqs(arg, moltype=load_mt, array_align=container == "ArrayAlignment", **fkw)
                    gnames = list(got.names)
                    gd = got.to_dict()
                    gseqs = [gd[n] for n in gnames]
                    wnames, wseqs = names, seqs
                else:
                    got = cogent3.load_unaligned_seqs(arg, moltype=load_mt, **fkw)
                    gnames = list(got.names)
                    gd = got.to_dict()
                    gseqs = [gd[n] for n in gnames]
                    wnames, wseqs = names, seqs
            except Exception as e:  # noqa: BLE001
                res.evals += 1
                if fmt != "fasta" and hz_suspect(head):
                    res.witness(HZ, stage=which, fmt=fmt, error=repr(e)[:300], **detail)
                elif fmt in ("fasta",) and any(">" in n for n in names):
                    res.witness(F13, stage=which, error=repr(e)[:300], **detail)
                else:
                    res.witness(exc_mechanism(f"C06/{which}/{fmt}{'/zip' if cmp == '.zip' else ''}", e), error=repr(e)[:300], **detail)
                continue
            res.evals += 1
            res.count(f"decided:{which}")
            bad = names_ok(fmt, wnames, gnames)
            if bad is None and gseqs != wseqs:
                bad = "seqs-differ"
            if which == "load":
                res.sig(fmt, cmp or "plain", container, nc, lc)
            if bad:
                if fmt == "fasta" and any(">" in n for n in wnames) and bad != "seqs-differ":
                    mech = F13
                elif fmt != "fasta" and hz_suspect(head):
                    mech = HZ
                else:
                    mech = f"C06/roundtrip/{fmt}/{which}/{bad}"
                res.witness(mech, stage=which, fmt=fmt, got_names=gnames, got_seqs=gseqs, **detail)
        if cmp == "" and fmt != "json":
            # the written file handed to the format's registered parser by every input route, and to the app loaders
            check_routes(res, path, raw, fmt, names, seqs, mt, aligned, detail)


def check_routes(res, path, raw, fmt, names, seqs, mt, aligned, detail):
    """every way of handing the written (plain) file to the registered parser returns the written records"""
    import cogent3
    from cogent3.parse.sequence import PARSERS, get_parser

    text = raw.decode("ascii")
    lines = text.splitlines()
    keep = text.splitlines(keepends=True)  # as readlines() gives them
    crlf = [l + "\r\n" for l in lines]
    L = max(len(q) for q in seqs)
    blocks = "one-block" if L <= 60 else "two-blocks" if L <= 120 else "more-blocks"
    if fmt == "phylip" and L > 60:
        res.count("routes:phylip-continuation-lines")
    head = raw[:100]
    has_gt = fmt == "fasta" and any(">" in n for n in names)

    def decide(route, rclass, got_names, got_seqs, exp_seqs):
        res.evals += 1
        res.sig("routes", fmt, route, blocks, "aligned" if aligned else "collection")
        bad = names_ok(fmt, names, got_names)
        if bad is None and got_seqs != exp_seqs:
            bad = "seqs-differ"
        if bad:
            if has_gt and rclass == "path" and bad != "seqs-differ":
                mech = F13
            elif fmt != "fasta" and rclass == "path" and hz_suspect(head):
                mech = HZ
            else:
                mech = f"C06/routes/{fmt}/{rclass}/{bad}"
            res.witness(mech, route=route, fmt=fmt, got_names=got_names[:8], got_seqs=[q[:200] for q in got_seqs[:8]], **detail)

    try:
        parser = get_parser(fmt)
        if parser is not PARSERS[fmt]:
            res.witness(f"C06/routes/{fmt}/get_parser-is-not-registry-entry", **detail)
    except Exception as e:  # noqa: BLE001
        res.witness(exc_mechanism(f"C06/routes/{fmt}/get_parser", e), error=repr(e)[:300], **detail)
        return
    routes = [
        ("Path", "path", path),
        ("str", "path", str(path)),
        ("list", "lines", list(lines)),
        ("tuple", "lines", tuple(lines)),
        ("list-with-eol", "lines-with-eol", list(keep)),
        ("tuple-with-eol", "lines-with-eol", tuple(keep)),
        ("list-with-crlf", "lines-with-eol", crlf),
    ]
    for route, rclass, arg in routes:
        res.count(f"route:{fmt}:{route}")
        try:
            got = [(str(a), str(b)) for a, b in parser(arg)]
        except TypeError as e:
            if "not implemented for" in str(e) and isinstance(arg, tuple):
                res.refused += 1  # the bytes FASTA parser declines tuples with an explicit TypeError
                res.count(f"route-refused:{fmt}:{route}")
                continue
            res.evals += 1
            res.witness(exc_mechanism(f"C06/routes/{fmt}/{rclass}", e), route=route, error=repr(e)[:300], **detail)
            continue
        except Exception as e:  # noqa: BLE001
            res.evals += 1
            if has_gt and rclass == "path":
                res.witness(F13, route=route, error=repr(e)[:300], **detail)
            elif fmt != "fasta" and rclass == "path" and hz_suspect(head):
                res.witness(HZ, route=route, fmt=fmt, error=repr(e)[:300], **detail)
            else:
                res.witness(exc_mechanism(f"C06/routes/{fmt}/{rclass}", e), route=route, error=repr(e)[:300], **detail)
            continue
        decide(route, rclass, [a for a, _ in got], [b for _, b in got], seqs)
    # the app loaders read the file themselves and hand the parser a list of lines
    apps = [("load_aligned", seqs), ("load_unaligned", [q.replace("-", "").replace("?", "") for q in seqs])] if aligned else [
        ("load_unaligned", [q.replace("-", "").replace("?", "") for q in seqs])
    ]
    for appname, exp_seqs in apps:
        route = f"app-{appname}"
        res.count(f"route:{fmt}:{route}")
        try:
            app = cogent3.get_app(appname, format=fmt, moltype=mt)
            r = app(path)
        except Exception as e:  # noqa: BLE001
            res.evals += 1
            res.witness(exc_mechanism(f"C06/routes/{fmt}/app", e), route=route, error=repr(e)[:300], **detail)
            continue
        if not r and type(r).__name__ == "NotCompleted":
            res.evals += 1
            msg = str(getattr(r, "message", ""))
            last = msg.strip().splitlines()[-1] if msg.strip() else ""
            res.witness(f"C06/routes/{fmt}/app/not-completed-{last.split(':')[0].split('.')[-1][:40] or 'unknown'}", route=route, message=msg[-600:], **detail)
            continue
        gnames = list(r.names)
        gd = r.to_dict()
        decide(route, "app", gnames, [gd[n] for n in gnames], exp_seqs)


def check_text_writer(res, obj, fmt, names, seqs, detail):
    from cogent3.parse.fasta import MinimalFastaParser
    from cogent3.parse.phylip import MinimalPhylipParser

    res.evals += 1
    try:
        text = obj.to_fasta() if fmt == "fasta" else obj.to_phylip()
        parser = MinimalFastaParser if fmt == "fasta" else MinimalPhylipParser
        got = [(str(n), str(q)) for n, q in parser(text.splitlines())]
    except Exception as e:  # noqa: BLE001
        if fmt == "fasta" and any(">" in n for n in names):
            res.witness(F13, stage="to_fasta", error=repr(e)[:300], **detail)
        else:
            res.witness(exc_mechanism(f"C06/to_{fmt}-text", e), error=repr(e)[:300], **detail)
        return
    res.count(f"decided:to_{fmt}-text")
    gnames = [n for n, _ in got]
    bad = names_ok(fmt, names, gnames)
    if bad is None and [q for _, q in got] != seqs:
        bad = "seqs-differ"
    if bad:
        mech = F13 if fmt == "fasta" and any(">" in n for n in names) and bad != "seqs-differ" else f"C06/roundtrip/{fmt}/to_{fmt}-text/{bad}"
        res.witness(mech, stage=f"to_{fmt}", fmt=fmt, got_names=gnames, got_seqs=[q for _, q in got], **detail)


def roundtrip_batch(res, case):
    rng = random.Random(case["seed"])
    st = case["stratum"]
    for k in range(case["n"]):
        first = k == 0
        container = CONTAINERS[st % 3] if first else rng.choice(CONTAINERS)
        style = NAME_STYLES[(st // 3) % len(NAME_STYLES)] if first else rng.choice(NAME_STYLES)
        forcedL = LATTICE[(st // 3) % len(LATTICE)] if first else None
        mt = ["dna", "rna", "protein"][(st // 9) % 3] if first else rng.choice(["dna", "rna", "protein"])
        n = rng.randint(1, 6)
        names = gen_names(rng, n, style)
        aligned = container != "SequenceCollection"
        if aligned:
            L = gen_length(rng, forcedL)
            seqs = [gen_seq(rng, mt, L, gaps=True) for _ in names]
        else:
            equal = rng.random() < 0.5
            L = gen_length(rng, forcedL)
            gaps = rng.random() < 0.25
            seqs = [gen_seq(rng, mt, L if (equal or i == 0) else gen_length(rng), gaps=gaps) for i, _ in enumerate(names)]
        res.count(f"len-lattice:{L}" if L in LATTICE else "len-random")
        if first:
            res.sample({"names": names, "seqs": [s[:70] for s in seqs], "moltype": mt, "container": container})
        for fmt in FORMATS:
            if not representable(fmt, names, seqs):
                res.count(f"skipped-unrepresentable:{fmt}")
                continue
            cmps = CMPS if case.get("all_cmp") else ["", rng.choice(CMPS[1:])]
            for cmp in cmps:
                spec = {
                    "names": names,
                    "seqs": seqs,
                    "moltype": mt,
                    "container": container,
                    "fmt": fmt,
                    "suffix": rng.choice(FASTA_SUFFIXES) if fmt == "fasta" else fmt,
                    "cmp": cmp,
                    "as_path": rng.random() < 0.5,
                    "load_moltype": None if (fmt != "json" and rng.random() < 0.15) else mt,
                }
                if fmt != "json" and rng.random() < 0.12:
                    # format named explicitly instead of being taken from the suffix
                    spec["suffix"] = "txt"
                    spec["explicit_format"] = True
                check_roundtrip(res, spec)


# ---------------------------------------------------------------------------
# FASTA parser agreement


def write_bytes(path, data, cmp):
    import bz2
    import gzip
    import zipfile

    if cmp == "":
        path.write_bytes(data)
    elif cmp == ".gz":
        with gzip.open(path, "wb") as f:
            f.write(data)
    elif cmp == ".bz2":
        with bz2.open(path, "wb") as f:
            f.write(data)
    elif cmp == ".zip":
        with zipfile.ZipFile(path, "w") as z:
            z.writestr(path.name[: -len(".zip")], data)


def read_bytes(path, cmp):
    import bz2
    import gzip
    import zipfile

    if cmp == ".gz":
        with gzip.open(path, "rb") as f:
            return f.read()
    if cmp == ".bz2":
        with bz2.open(path, "rb") as f:
            return f.read()
    if cmp == ".zip":
        with zipfile.ZipFile(path) as z:
            names = z.namelist()
            if len(names) != 1:
                raise ValueError(f"zip archive has members {names}")
            return z.read(names[0])
    return pathlib.Path(path).read_bytes()


def fasta_text(records, width, eol, final_newline, label_char=">"):
    lines = []
    for label, seq in records:
        lines.append(label_char + label)
        w = width or len(seq)
        lines.extend(seq[i : i + w] for i in range(0, len(seq), w))
    return eol.join(lines) + (eol if final_newline else "")


def check_fasta_parsers(res, spec):
    from cogent3.parse import fasta as F
    from cogent3.parse.sequence import get_parser
    from cogent3.util.io import iter_splitlines

    records = [tuple(r) for r in spec["records"]]
    text, cmp, chunk = spec["text"], spec["cmp"], spec.get("chunk_size", 61)
    labels = [r[0] for r in records]
    nc = name_class(labels)
    layout = spec.get("layout", "?")
    replay = dict(spec, kind="one-fasta")
    raw = text.encode("ascii")
    with Scratch() as d:
        path = d / f"p.fasta{cmp}"
        write_bytes(path, raw, cmp)

        def from_textio():
            with open(path, newline="") as f:  # plain files only
                return list(F.iter_fasta_records(f))

        variants = [
            ("bytes", "path", lambda: list(F.iter_fasta_records(path))),
            ("bytes", "str", lambda: list(F.iter_fasta_records(str(path)))),
            ("bytes", "bytes", lambda: list(F.iter_fasta_records(raw))),
            ("bytes", "registry", lambda: list(get_parser("fasta")(path))),
            ("lines", "list-via-iter_fasta_records", lambda: list(F.iter_fasta_records(text.splitlines()))),
            ("lines", "strict-path", lambda: list(F.MinimalFastaParser(str(path), strict=True))),
            ("lines", "nonstrict-path", lambda: list(F.MinimalFastaParser(path, strict=False))),
            ("lines", "strict-streamed", lambda: list(F.MinimalFastaParser(iter_splitlines(path, chunk_size=chunk), strict=True))),
            ("lines", "nonstrict-streamed", lambda: list(F.MinimalFastaParser(iter_splitlines(path, chunk_size=chunk), strict=False))),
            ("lines", "FastaParser", lambda: [(n, str(s)) for n, s in F.FastaParser(text.splitlines())]),
        ]
        if cmp == "":
            variants.append(("bytes", "textio", from_textio))
        results = {}
        for family, name, fn in variants:
            res.evals += 1
            res.count(f"fasta-parser:{name}")
            try:
                got = [(str(a), str(b)) for a, b in fn()]
            except Exception as e:  # noqa: BLE001
                if family == "bytes" and any(">" in l for l in labels):
                    res.witness(F13, variant=name, error=repr(e)[:300], text=text, records=records, replay_case=replay)
                elif family == "lines" and name.endswith(("path", "streamed")) and hz_suspect(raw[:100]):
                    res.witness(HZ, variant=name, error=repr(e)[:300], text=text, records=records, replay_case=replay)
                else:
                    res.witness(exc_mechanism(f"C06/fasta-parsers/{family}/{name}", e), error=repr(e)[:300], text=text, records=records, replay_case=replay)
                continue
            results[name] = got
            res.sig("fasta-parsers", family, name, layout, cmp or "plain", nc)
            if got != records:
                if len(got) != len(records):
                    what = "count-differs"
                elif [g[0] for g in got] != labels:
                    what = "labels-differ"
                else:
                    what = "seqs-differ"
                if family == "bytes" and any(">" in l for l in labels) and what != "seqs-differ":
                    mech = F13
                elif hz_suspect(raw[:100]) and family == "lines" and name.endswith(("path", "streamed")):
                    mech = HZ
                else:
                    mech = f"C06/fasta-parsers/{family}/{what}"
                res.witness(mech, variant=name, got=got[:8], expected=records[:8], text=text, cmp=cmp, replay_case=replay)
        res.count("fasta-parsers:texts")


def fasta_batch(res, case):
    rng = random.Random(case["seed"])
    st = case["stratum"]
    for k in range(case["n"]):
        first = k == 0
        style = NAME_STYLES[st % len(NAME_STYLES)] if first else rng.choice(NAME_STYLES)
        mt = rng.choice(["dna", "rna", "protein"])
        labels = gen_names(rng, rng.randint(1, 5), style)
        records = [(l, gen_seq(rng, mt, gen_length(rng), gaps=rng.random() < 0.5)) for l in labels]
        width = [60, 60, 70, 80, 10, 1, 0][(st + k) % 7]
        eol = "\r\n" if rng.random() < 0.3 else "\n"
        final = rng.random() < 0.8
        text = fasta_text(records, width, eol, final)
        spec = {
            "records": [list(r) for r in records],
            "text": text,
            "cmp": CMPS[(st + k) % 4] if first else rng.choice(CMPS),
            "chunk_size": rng.choice([1, 2, 3, 7, 59, 60, 61, 62, 63, 4096]),
            "layout": f"w{width}-{'crlf' if eol != chr(10) else 'lf'}-{'nl' if final else 'nonl'}",
        }
        if first:
            res.sample({"fasta_text": text[:300]})
        check_fasta_parsers(res, spec)


# ---------------------------------------------------------------------------
# chunked line streaming


def chunk_class(k, lines, total):
    lens = {len(l) for l in lines}
    if k == 1:
        return "k=1"
    if k >= total:
        return "k>=file"
    if k in lens or k - 1 in lens:
        return "k=line(+eol)"
    if lens and k < min(lens):
        return "k<shortest"
    if lens and k > max(lens):
        return "k>longest"
    return "k-between"


def check_splitlines(res, spec):
    from cogent3.util.io import iter_line_blocks, iter_splitlines

    lines, eol, final, cmp = spec["lines"], spec["eol"], spec["final_newline"], spec["cmp"]
    text = eol.join(lines) + (eol if final else "")
    assert text.splitlines() == lines, "harness: generated lines are not what str.splitlines gives"
    raw = text.encode("ascii")
    n = len(text.replace("\r\n", "\n"))
    sizes = spec.get("chunk_sizes")
    if sizes is None:
        if n <= spec.get("small", 200):
            sizes = list(range(1, n + 2))
            res.count("splitlines:exhaustive-files")
        else:
            sizes = sorted({1, 2, 3, 7, 59, 60, 61, 62, 63, 4096, max(1, n - 1), n, n + 1} | {len(l) + d for l in lines[:3] for d in (0, 1, 2) if len(l) + d > 0})
            res.count("splitlines:lattice-files")
    with Scratch() as d:
        path = d / f"t.txt{cmp}"
        write_bytes(path, raw, cmp)
        for k in sizes:
            res.evals += 1
            res.count("splitlines:chunk-sizes")
            replay = dict(spec, kind="one-splitlines", chunk_sizes=[k])
            try:
                got = list(iter_splitlines(path, chunk_size=k))
            except Exception as e:  # noqa: BLE001
                if hz_suspect(raw[:100]):
                    res.witness(HZ, chunk_size=k, error=repr(e)[:300], text=text, replay_case=replay)
                    break
                res.witness(exc_mechanism("C06/iter_splitlines", e), chunk_size=k, error=repr(e)[:300], text=text, replay_case=replay)
                continue
            res.sig("splitlines", cmp or "plain", "crlf" if eol == "\r\n" else "lf", "nl" if final else "nonl", chunk_class(k, lines, n))
            if got != lines:
                if hz_suspect(raw[:100]):
                    res.witness(HZ, chunk_size=k, got=got[:12], expected=lines[:12], text=text, replay_case=replay)
                    break
                if len(got) < len(lines):
                    what = "lines-merged-or-lost"
                elif len(got) > len(lines):
                    what = "extra-lines"
                else:
                    what = "content-differs"
                res.witness(f"C06/iter_splitlines/{what}", chunk_size=k, got=got[:12], expected=lines[:12], text=text, cmp=cmp, replay_case=replay)
        # blocks of lines
        for num in (1, 2, 3, len(lines), len(lines) + 1, None):
            k = sizes[len(sizes) // 2]
            res.evals += 1
            res.count("line-blocks")
            replay = dict(spec, kind="one-splitlines", chunk_sizes=[k])
            try:
                blocks = list(iter_line_blocks(path, num_lines=num, chunk_size=k))
            except Exception as e:  # noqa: BLE001
                if hz_suspect(raw[:100]):
                    res.witness(HZ, num_lines=num, error=repr(e)[:300], text=text, replay_case=replay)
                    break
                res.witness(exc_mechanism("C06/iter_line_blocks", e), num_lines=num, chunk_size=k, text=text, replay_case=replay)
                continue
            flat = [l for b in blocks for l in b]
            sizes_ok = num is None or num == 0 or all(len(b) == num for b in blocks[:-1]) and all(0 < len(b) <= num for b in blocks[-1:])
            if flat != lines or not sizes_ok:
                if hz_suspect(raw[:100]):
                    res.witness(HZ, num_lines=num, got=blocks[:6], text=text, replay_case=replay)
                    break
                res.witness("C06/iter_line_blocks/" + ("lines-differ" if flat != lines else "block-size"), num_lines=num, chunk_size=k, got=blocks[:6], expected=lines[:12], text=text, replay_case=replay)


def gen_text_lines(rng, flavour, small):
    if flavour == "fasta":
        recs = [(gen_name(rng, rng.choice(NAME_STYLES)), gen_seq(rng, "dna", gen_length(rng) if not small else rng.choice([1, 9, 10, 11, 30, 59, 60, 61]), True)) for _ in range(rng.randint(1, 3))]
        lines = fasta_text(recs, 60, "\n", False).split("\n")
    elif flavour == "phylip":
        L = rng.choice([10, 59, 60, 61, 119, 120, 121]) if not small else rng.choice([5, 10, 20])
        n = rng.randint(1, 3)
        lines = [f"{n}  {L}"]
        for i in range(n):
            s = gen_seq(rng, "dna", L, True)
            lines += [("%-10s" % f"seq{i}" if b == 0 else " " * 10) + s[b : b + 60] for b in range(0, L, 60)]
    else:
        lines = []
        for _ in range(rng.randint(1, 6 if small else 40)):
            r = rng.random()
            if r < 0.15:
                lines.append("")
            elif r < 0.25:
                lines.append(" " * rng.randint(1, 5))
            elif r < 0.35 and not small:
                lines.append("".join(rng.choice(PRINTABLE + " \t") for _ in range(rng.randint(100, 400))).strip("\t"))
            else:
                lines.append("".join(rng.choice(PRINTABLE + "  ") for _ in range(rng.randint(1, 30))))
    return lines


def splitlines_batch(res, case):
    rng = random.Random(case["seed"])
    st = case["stratum"]
    for k in range(case["n"]):
        small = k % 2 == 0
        flavour = ["fasta", "phylip", "random"][(st + k // 2) % 3]
        lines = gen_text_lines(rng, flavour, small)
        final = rng.random() < 0.7
        if not final:
            # without a final newline the last line must be visible
            while lines and lines[-1] == "":
                lines.pop()
            if not lines:
                lines = ["x"]
        eol = "\r\n" if rng.random() < 0.3 else "\n"
        spec = {"lines": lines, "eol": eol, "final_newline": final, "cmp": CMPS[(st + k) % 4], "small": case.get("small", 200)}
        if k == 0:
            res.sample({"lines": lines[:6], "eol": eol, "final_newline": final})
        check_splitlines(res, spec)


# ---------------------------------------------------------------------------
# GenBank


FEATURE_TYPES = ["gene", "CDS", "mRNA", "exon", "misc_feature", "repeat_region", "tRNA", "variation"]


def gb_location(feat):
    """GenBank location string for 0-based half-open sorted spans"""

    def seg(a, b, first, last):
        lo = ("<" if feat.get("partial5") and first else "") + str(a + 1)
        hi = (">" if feat.get("partial3") and last else "") + str(b)
        if b == a + 1 and not lo.startswith("<") and not hi.startswith(">") and feat.get("single_base", True):
            return str(a + 1)
        return f"{lo}..{hi}"

    spans = feat["spans"]
    n = len(spans)
    segs = [seg(a, b, i == 0, i == n - 1) for i, (a, b) in enumerate(spans)]
    if feat["strand"] == 1:
        return segs[0] if n == 1 else "join(" + ",".join(segs) + ")"
    if n == 1:
        return f"complement({segs[0]})"
    if feat.get("syntax", "cj") == "cj":
        return "complement(join(" + ",".join(segs) + "))"
    return "join(" + ",".join(f"complement({s})" for s in reversed(segs)) + ")"


def wrap_at_commas(text, width):
    out, cur = [], ""
    for piece in text.replace(",", ",\0").split("\0"):
        if cur and len(cur) + len(piece) > width:
            out.append(cur)
            cur = ""
        cur += piece
    out.append(cur)
    return out


def wrap_words(text, width):
    out, cur = [], ""
    for w in text.split(" "):
        if cur and len(cur) + 1 + len(w) > width:
            out.append(cur)
            cur = w
        else:
            cur = w if not cur else cur + " " + w
    out.append(cur)
    return out


def gb_record_text(rec):
    L = len(rec["seq"])
    out = ["LOCUS       %-16s %11d bp    %-6s  %-8s %s %s" % (rec["locus"], L, rec["mol"], rec["topology"], "BCT", "01-JAN-2000")]
    out.append("DEFINITION  generated record.")
    out.append("ACCESSION   %s" % rec["locus"])
    out.append("VERSION     %s.1" % rec["locus"])
    out.append("KEYWORDS    .")
    out.append("SOURCE      Escherichia coli")
    out.append("  ORGANISM  Escherichia coli")
    out.append("            Bacteria; Proteobacteria; Gammaproteobacteria.")
    out.append("FEATURES             Location/Qualifiers")
    for feat in rec["features"]:
        loc = wrap_at_commas(gb_location(feat), 58)
        out.append("     %-16s%s" % (feat["type"], loc[0]))
        out.extend(" " * 21 + l for l in loc[1:])
        for k, v in feat.get("quals", []):
            if v is None:
                out.append(" " * 21 + "/" + k)
            elif isinstance(v, int):
                out.append(" " * 21 + f"/{k}={v}")
            else:
                ws = wrap_words(f'/{k}="{v}"', 58)
                out.extend(" " * 21 + l for l in ws)
    out.append("ORIGIN")
    s = rec["seq"].lower()
    for i in range(0, L, 60):
        chunk = s[i : i + 60]
        out.append("%9d %s" % (i + 1, " ".join(chunk[j : j + 10] for j in range(0, len(chunk), 10))))
    out.append("//")
    return out


def gen_gb_record(rng, idx, forcedL=None):
    style = rng.choice(["acc", "acc", "len9", "len10", "len11", "len16", "long", "punct"])
    if style == "acc":
        locus = "".join(rng.choice(string.ascii_uppercase) for _ in range(2)) + "%06d" % rng.randrange(10**6)
    elif style == "punct":
        locus = rng.choice(string.ascii_uppercase) + "".join(rng.choice(string.ascii_letters + string.digits + "_.-|:") for _ in range(rng.randint(3, 14)))
    else:
        n = {"len9": 9, "len10": 10, "len11": 11, "len16": 16, "long": rng.randint(17, 24)}[style]
        locus = rng.choice(string.ascii_uppercase) + "".join(rng.choice(string.ascii_uppercase + string.digits + "_") for _ in range(n - 1))
    locus = f"{locus}{idx}" if style == "acc" else locus
    mol = rng.choice(["DNA", "DNA", "DNA", "mRNA", "RNA"])
    L = gen_length(rng, forcedL)
    mt = "rna" if mol == "RNA" else "dna"
    seq = gen_seq(rng, mt, L, gaps=False)
    feats = [{"type": "source", "spans": [[0, L]], "strand": 1, "quals": [["organism", "Escherichia coli"], ["mol_type", "genomic DNA"]]}]
    for _ in range(rng.randint(0, 5)):
        nsp = min(rng.choice([1, 1, 1, 2, 3, 6, 12]), max(1, L // 2))
        cuts = sorted(rng.sample(range(L + 1), min(L + 1, 2 * nsp)))
        spans = [[cuts[i], cuts[i + 1]] for i in range(0, len(cuts) - 1, 2)]
        if not spans:
            continue
        quals = []
        if rng.random() < 0.7:
            quals.append(["gene", "g" + "".join(rng.choice(PLAIN) for _ in range(rng.randint(1, 6)))])
        if rng.random() < 0.3:
            quals.append(["note", " ".join("".join(rng.choice(string.ascii_lowercase) for _ in range(rng.randint(2, 9))) for _ in range(rng.randint(1, 25)))])
        if rng.random() < 0.2:
            quals.append(["pseudo", None])
        if rng.random() < 0.3:
            quals.append(["codon_start", rng.randint(1, 3)])
        if rng.random() < 0.2:
            quals.append(["translation", "".join(rng.choice("ACDEFGHIKLMNPQRSTVWY") for _ in range(rng.randint(5, 150)))])
        feats.append(
            {
                "type": rng.choice(FEATURE_TYPES),
                "spans": spans,
                "strand": rng.choice([1, 1, -1]),
                "syntax": rng.choice(["cj", "cj", "jc"]),
                "partial5": rng.random() < 0.15,
                "partial3": rng.random() < 0.15,
                "single_base": rng.random() < 0.7,
                "quals": quals,
            }
        )
    return {"locus": locus, "mol": mol, "topology": rng.choice(["linear", "circular"]), "seq": seq, "features": feats}


def loc_class(feat):
    n = len(feat["spans"])
    return ("1" if n == 1 else "2-3" if n <= 3 else ">3", "minus-" + feat.get("syntax", "cj") if feat["strand"] == -1 else "plus",
            "partial" if feat.get("partial5") or feat.get("partial3") else "full")


def check_genbank(res, spec):
    import cogent3
    from cogent3.parse import genbank as G

    recs, eol, cmp = spec["records"], spec["eol"], spec["cmp"]
    replay = dict(spec, kind="one-genbank")
    lines = [l for r in recs for l in gb_record_text(r)]
    text = eol.join(lines) + eol
    raw = text.encode("ascii")
    multi = "multi-record" if len(recs) > 1 else "single-record"
    exp_names = [r["locus"] for r in recs]
    exp_seqs = [r["seq"].upper() for r in recs]
    exp_feats = [[(f["type"], [tuple(s) for s in f["spans"]], f["strand"]) for f in r["features"]] for r in recs]
    res.count("genbank:files")
    res.count(f"genbank:{multi}-files")
    for r in recs:
        res.count("genbank:records")
        for f in r["features"]:
            if f["strand"] == -1:
                res.count("genbank:minus-strand-features")
            if len(f["spans"]) > 1:
                res.count("genbank:join-features")
    detail = dict(text=text[:3000], expected_names=exp_names, replay_case=replay)

    def minimal_obs(parsed):
        return (
            [p["locus"] for p in parsed],
            [str(p["sequence"]).upper() for p in parsed],
            [[(f["type"], [tuple(map(int, c)) for c in f["location"].get_coordinates()] if f.get("location") is not None else None, f["location"].strand if f.get("location") is not None else None) for f in p.get("features", [])] for p in parsed],
        )

    def rich_obs(parsed):
        names, seqs, feats = [], [], []
        for name, s in parsed:
            names.append(name)
            seqs.append(str(s))
            fs = []
            for f in s.annotation_db.get_features_matching():
                fs.append((f["biotype"], [tuple(map(int, c)) for c in f["spans"]], {"+": 1, "-": -1}.get(f["strand"], f["strand"])))
            feats.append(fs)
            if getattr(s, "name", name) != name:
                names[-1] = f"{name} (seq.name={s.name})"
        return names, seqs, feats

    with Scratch() as d:
        path = d / f"r.gb{cmp}"
        write_bytes(path, raw, cmp)
        variants = [
            ("minimal", "path", lambda: minimal_obs(list(G.minimal_parser(path)))),
            ("minimal", "str", lambda: minimal_obs(list(G.minimal_parser(str(path))))),
            ("minimal", "bytes", lambda: minimal_obs(list(G.minimal_parser(raw)))),
            ("rich", "path", lambda: rich_obs(list(G.rich_parser(path)))),
            ("legacy-lines", "list", lambda: minimal_obs(list(G.MinimalGenbankParser(text.splitlines())))),
        ]
        for parser, src, fn in variants:
            res.evals += 1
            res.count(f"genbank-parser:{parser}")
            try:
                names, seqs, feats = fn()
            except Exception as e:  # noqa: BLE001
                res.witness(exc_mechanism(f"C06/genbank/{multi}", e), parser=parser, source=src, error=repr(e)[:300], **detail)
                continue
            for r in recs:
                for f in r["features"][1:]:
                    res.sig("genbank", parser, *loc_class(f))
            res.sig("genbank", parser, multi, "crlf" if eol == "\r\n" else "lf", cmp or "plain")
            if names != exp_names:
                what = "record-count" if len(names) != len(exp_names) else "locus-names"
                res.witness(f"C06/genbank/{parser}/{what}", source=src, got=names, **detail)
                continue
            if seqs != exp_seqs:
                res.witness(f"C06/genbank/{parser}/sequence", source=src, got=[s[:200] for s in seqs], expected=[s[:200] for s in exp_seqs], **detail)
            if feats != exp_feats:
                bad = None
                for gf, ef in zip(feats, exp_feats):
                    if len(gf) != len(ef):
                        bad = ("feature-count", gf, ef)
                        break
                    for g1, e1 in zip(gf, ef):
                        if g1 != e1:
                            what = "type" if g1[0] != e1[0] else "spans" if g1[1] != e1[1] else "strand"
                            bad = (f"feature-{what}", g1, e1)
                            break
                    if bad:
                        break
                res.witness(f"C06/genbank/{parser}/{bad[0]}", source=src, got=bad[1], expected=bad[2], **detail)
        # the loaders registered for the suffix
        for which in ("load_unaligned_seqs", "load_seq"):
            res.evals += 1
            res.count(f"genbank-parser:{which}")
            mt = "rna" if all(r["mol"] == "RNA" for r in recs) else ("dna" if all(r["mol"] != "RNA" for r in recs) else "text")
            try:
                if which == "load_seq":
                    s = cogent3.load_seq(path, moltype=mt)
                    names, seqs = [s.name], [str(s)]
                    en, es = exp_names[:1], exp_seqs[:1]
                else:
                    if len(set(exp_names)) != len(exp_names):
                        continue
                    sc = cogent3.load_unaligned_seqs(path, moltype=mt)
                    names = list(sc.names)
                    dd = sc.to_dict()
                    seqs = [dd[n] for n in names]
                    en, es = exp_names, exp_seqs
            except Exception as e:  # noqa: BLE001
                res.witness(exc_mechanism(f"C06/genbank/{multi}", e), parser=which, error=repr(e)[:300], **detail)
                continue
            if names != en:
                res.witness(f"C06/genbank/{which}/names", got=names, **detail)
            elif seqs != es:
                res.witness(f"C06/genbank/{which}/sequence", got=[s[:200] for s in seqs], expected=[s[:200] for s in es], **detail)


def genbank_batch(res, case):
    rng = random.Random(case["seed"])
    st = case["stratum"]
    for k in range(case["n"]):
        nrec = [1, 1, 1, 2, 1, 3][(st + k) % 6]
        forcedL = LATTICE[(st * 7 + k) % len(LATTICE)] if k % 2 == 0 else None
        recs = []
        while len(recs) < nrec:
            r = gen_gb_record(rng, len(recs), forcedL)
            if r["locus"] not in [x["locus"] for x in recs]:
                recs.append(r)
        spec = {"records": recs, "eol": "\r\n" if rng.random() < 0.25 else "\n", "cmp": CMPS[(st + k) % 3] if k else ""}
        if k == 0:
            res.sample({"genbank_text": "\n".join(gb_record_text(recs[0]))[:600]})
        check_genbank(res, spec)


# ---------------------------------------------------------------------------


def run_case(case):
    res = Result()
    kind = case["kind"]
    if kind == "roundtrip":
        roundtrip_batch(res, case)
    elif kind == "one-roundtrip":
        check_roundtrip(res, case)
    elif kind == "fasta-parsers":
        fasta_batch(res, case)
    elif kind == "one-fasta":
        check_fasta_parsers(res, case)
    elif kind == "splitlines":
        splitlines_batch(res, case)
    elif kind == "one-splitlines":
        check_splitlines(res, case)
    elif kind == "genbank":
        genbank_batch(res, case)
    elif kind == "one-genbank":
        check_genbank(res, case)
    else:
        raise ValueError(f"unknown case kind {kind!r}")
    return res


def required(counters, tier):
    need = []
    for fmt in FORMATS:
        for cmp in CMPS:
            need.append(f"rt:{fmt}{cmp}")
    need += [f"container:{c}" for c in CONTAINERS]
    need += [f"nameclass:{c}" for c in ("has->", "has-~{", "punct", "space", "len9", "len10", "len11", "long", "plain")]
    need += [f"len-lattice:{L}" for L in LATTICE]
    need += [f"moltype:{m}" for m in ALPHA]
    need += ["decided:load", "decided:load_seq", "fasta-parsers:texts", "fasta-parser:path", "fasta-parser:strict-streamed",
             "fasta-parser:nonstrict-path", "fasta-parser:textio", "splitlines:exhaustive-files", "splitlines:lattice-files",
             "line-blocks", "genbank:single-record-files", "genbank:multi-record-files", "genbank:minus-strand-features",
             "genbank:join-features", "genbank-parser:minimal", "genbank-parser:rich", "routes:phylip-continuation-lines"]
    need += [f"route:{fmt}:{r}" for fmt in ("fasta", "phylip", "paml", "gde")
             for r in ("Path", "str", "list", "tuple", "list-with-eol", "tuple-with-eol", "app-load_aligned", "app-load_unaligned")]
    return [k for k in need if not counters.get(k)]
