"""C17 — annotation databases return exactly the matching records.

Shape B (boundary recorder + executable model).  The model of an annotation db is a
Python list of record dicts; every query is answered by a linear scan of that list
implementing the documented semantics; every mutation / persistence operation is
applied to the list as well and the real db is compared with it after every step.

GFF3 and GenBank text is *generated from the model* (1-based closed coordinates, one
row per span resp. join()/complement()/</> locations) and loaded through the real
parsers; the loaded spans must be the 0-based half-open originals.
"""

import collections
import copy
import io
import os
import pickle
import random
import re
import shutil
import tempfile
import threading

from vmon.core import Result, exc_mechanism

ID = "C17"
LEVEL = "exploration"
RULE = (
    "seeded random histories on BasicAnnotationDb / GffAnnotationDb / GenbankAnnotationDb: 0-25 records over 1-3 seqids "
    "(shared names, 1-3 spans given unsorted/inverted, strands +,-,unset; coordinates from a small range so extents abut, "
    "nest, coincide), built by add_feature, add_records, GFF3 / GenBank text generated from the model and loaded with "
    "load_annotations (seqids filter, lines_per_block, write_path, glob, db=) or gff_parser / minimal_parser + constructor, "
    "followed by 1-8 steps of update(seqids) / union / subset / copy / deepcopy / pickle / to_rich_dict / to_json / "
    "write+reload, some without an intervening read; plus a few directed histories per run that reach named classes for "
    "certain (empty db, incompatible-class refusals, persistence right after an unread update/union, lines_per_block "
    "splitting the rows of one ID, GenBank glob / multi-record file, trans-spliced GenBank locations with complement() on the first / last / middle "
    "segment listed in ascending / descending / arbitrary order through every load route, loading into a file-backed db). After every step len, all records, all features, biotype_counts and "
    "the start/stop columns are compared with the list model; the final state (and a sample after each step) is queried "
    "with get_records_matching / get_features_matching / num_matches / subset / count_distinct: all 256 presence subsets "
    "of (seqid, biotype, name, strand, attributes, on_alignment, start, stop) x allow_partial, values as equality / IN "
    "list / % wildcard, plus windows from the lattice {every span end and record extreme} +-1 (all pairs when few, "
    "sampled otherwise; start-only and stop-only at every lattice point). Oracle = linear scan, multiset comparison. "
    "Non-trivial = a window edge coincides with a record edge, or >=3 arguments; distinct = (db class, argument-presence "
    "bitmask, interval-relation class of the edge-coincident record, allow_partial)."
)
LEVEL_TEXT = (
    "Every generated db state is compared record-for-record with a list model after every mutation and persistence step, "
    "and queried with every presence combination of the optional arguments and with windows taken from the boundary "
    "lattice of its own records; results are compared as multisets with a linear scan. GFF3/GenBank text is rendered from "
    "the model and must load back to the 0-based half-open spans. Sampled, not exhaustive: held means held on the "
    "executions listed in the evidence."
)
LEVEL_NOTE = (
    "trusted: Python list/dict/Counter semantics, re for the LIKE model; the GFF3 / GenBank renderers of the harness "
    "(plain string formatting of the public formats)"
)
TECHNIQUE = "runtime monitoring: boundary recorder + linear-scan list model, boundary-lattice windows, argument-presence sweep"
ASSUMPTIONS = [
    "documented query semantics: equality, IN for list values, SQL LIKE for values containing %, substring for attributes; "
    "window: records inside [start, stop) or (allow_partial) overlapping it; start-only / stop-only = record contains that position",
    "row order is unspecified (multisets); names invented for unnamed records are unspecified",
    "an unset strand of a user-added record is equivalent to '+' (add_feature documents the default); a loaded GenBank "
    "record whose location has segments on both strands has no strand (None), is selected by no strand condition and "
    "must come back with strand None; LIKE case folding is unspecified",
    "GFF rows with one ID form one record; a GenBank location's segments form one record",
]
TIMEOUT = {"quick": 900, "thorough": 7200}

SEQIDS = ["s1", "s2", "chr_3"]
BIOTYPES = ["gene", "exon", "CDS", "mRNA"]
NAMES = ["a", "b", "ab", "A", "g.1", "x'y", 'q"r', "näme", "a b", "b;c"]
TOKENS = ["tqa1", "tqb2", "tqa", "zzq"]
ATTRS = [None, None, "tqa1 first", "note=tqb2;x", "TQA1 upper", "tqa", "üñí tqb2"]
ARGS = ["seqid", "biotype", "name", "strand", "attributes", "on_alignment", "start", "stop"]
FAKE = re.compile(r".+-\d+", re.S)
HOSTILE_FORMS = {"other-key-ending-in-ID", "mixed-strand"}
FORM_PRIORITY = ["source", "mixed-strand", "partial", "single-base", "complement", "join", "wrapped"]


def _cls(name):
    from cogent3.core import annotation_db as A

    return {"Basic": A.BasicAnnotationDb, "Gff": A.GffAnnotationDb, "Genbank": A.GenbankAnnotationDb}[name]


def _cls_name(db):
    return {"BasicAnnotationDb": "Basic", "GffAnnotationDb": "Gff", "GenbankAnnotationDb": "Genbank"}.get(type(db).__name__, type(db).__name__)


# ---------------------------------------------------------------------------
# the model


def norm_spans(spans):
    """documented normalisation: each span low..high, spans sorted"""
    return sorted([min(int(a), int(b)), max(int(a), int(b))] for a, b in spans)


def extent(rec):
    return min(a for a, _ in rec["spans"]), max(b for _, b in rec["spans"])


def no_strand(rec):
    """a loaded record whose location has segments on both strands has NO strand (None is the value, not 'unset')"""
    return rec["t"] != "user" and rec["strand"] is None


def canon(rec):
    # G: add_feature documents that an unset strand means '+' -> for user records None and '+' are one class
    strand = rec["strand"] if rec["strand"] is not None or no_strand(rec) else "+"
    return (rec["seqid"], rec["biotype"], "*" if rec.get("wild") else rec["name"], strand, tuple(tuple(s) for s in rec["spans"]))


def canon_got(r, any_wild):
    """canonical form of a returned record; the strand is kept exactly as returned (see canon_got_all)"""
    name = r["name"]
    if any_wild and isinstance(name, str) and FAKE.fullmatch(name):
        name = "*"  # G: invented names of unnamed records are unspecified
    spans = r["spans"]
    spans = tuple(tuple(int(x) for x in s) for s in (spans.tolist() if hasattr(spans, "tolist") else spans))
    return (r["seqid"], r["biotype"], name, r["strand"], spans)


def canon_got_all(rows, model, any_wild):
    """multiset of returned records. A returned strand of None is kept for as many records as the model has
    strand-less (mixed-strand) records with the same other fields; any further None is a user record whose strand
    was never set and counts as '+' (G above)."""
    allow = collections.Counter()
    for m in model:
        if no_strand(m):
            k = canon(m)
            allow[k[:3] + k[4:]] += 1
    out = collections.Counter()
    for r in rows:
        k = canon_got(r, any_wild)
        if k[3] is None:
            k4 = k[:3] + k[4:]
            if allow[k4] > 0:
                allow[k4] -= 1
            else:
                k = k[:3] + ("+",) + k[4:]
        out[k] += 1
    return out


def _like_variants(text, pattern):
    out = set()
    for under_wild in (False, True):
        rx = "".join(".*" if c == "%" else ("." if c == "_" and under_wild else re.escape(c)) for c in pattern)
        for flags in (re.S, re.S | re.I):
            out.add(re.fullmatch(rx, text, flags) is not None)
    return out


def like(text, pattern):
    """SQL LIKE; None where the answer depends on unspecified case folding / '_' handling"""
    if text is None:
        return False
    v = _like_variants(text, pattern)
    return v.pop() if len(v) == 1 else None


def match_value(key, rec, v):
    rv = rec[key]
    if key == "name" and rec.get("wild"):
        # the invented name is unknown to the model: equality with a pool name is False, patterns are open
        if isinstance(v, list):
            return False
        return None if "%" in v else False
    if key == "strand" and rv is None:
        if no_strand(rec):
            return False  # segments on both strands: selected for neither strand, whatever the form of the condition
        vs = v if isinstance(v, list) else [v]
        if any(isinstance(x, str) and "%" in x for x in vs):
            return None
        return None if "+" in vs else False
    if isinstance(v, list):
        return rv in v
    if isinstance(v, str) and "%" in v:
        return like(rv, v)
    return rv == v


def match(rec, q):
    """True / False / None (= not specified) : does the linear scan select rec for query q"""
    amb = False
    for key in ("seqid", "biotype", "name", "strand"):
        if key in q:
            r = match_value(key, rec, q[key])
            if r is False:
                return False
            if r is None:
                amb = True
    if "attributes" in q:
        r = like(rec["attrs"], "%" + q["attributes"] + "%")
        if r is False:
            return False
        if r is None:
            amb = True
    if "on_alignment" in q:
        want = q["on_alignment"]
        if rec["t"] != "user":
            if want:
                return False  # alignment features live in the user table only
        else:
            have = rec["on_aln"]
            if have is None:
                if want:
                    return False
                amb = True  # never stated for this record
            elif bool(have) != want:
                return False
    s, e = extent(rec)
    S, E = q.get("start"), q.get("stop")
    if S is not None and E is not None:
        if q.get("allow_partial"):
            if not (s < E and e > S):
                return False
        elif not (s >= S and e <= E):
            return False
    elif S is not None:
        if not (s <= S < e):
            return False
    elif E is not None:
        if not (s <= E < e):
            return False
    return None if amb else True


def relation(rec, q):
    """interval relation class of a record's extent to the query window"""
    s, e = extent(rec)
    S, E = q.get("start"), q.get("stop")
    if S is not None and E is not None:
        if e < S:
            return "left"
        if e == S:
            return "abut-left"
        if s > E:
            return "right"
        if s == E:
            return "abut-right"
        if s == S and e == E:
            return "equal"
        if s >= S and e <= E:
            return "within" + ("-touch-start" if s == S else "") + ("-touch-end" if e == E else "")
        if s <= S and e >= E:
            return "encloses" + ("-touch-start" if s == S else "") + ("-touch-end" if e == E else "")
        return "straddle-start" if s < S else "straddle-end"
    p = S if S is not None else E
    if p is None:
        return "no-window"
    if p < s - 1:
        return "before"
    if p == s - 1:
        return "just-before"
    if p == s:
        return "at-first"
    if p == e - 1:
        return "at-last"
    if p == e:
        return "at-end"
    if p > e:
        return "after"
    return "inside"


EDGE_REL = {
    "abut-left",
    "abut-right",
    "equal",
    "within-touch-start",
    "within-touch-end",
    "encloses-touch-start",
    "encloses-touch-end",
    "just-before",
    "at-first",
    "at-last",
    "at-end",
}


def window_kind(q):
    if "start" in q and "stop" in q:
        return "window-partial" if q.get("allow_partial") else "window-within"
    if "start" in q:
        return "start-only"
    if "stop" in q:
        return "stop-only"
    return None


def arg_class(q):
    parts = []
    for k in ("seqid", "biotype", "name", "strand", "attributes", "on_alignment"):
        if k in q:
            v = q[k]
            parts.append(k + ("-in" if isinstance(v, list) else "-like" if isinstance(v, str) and "%" in v and k != "attributes" else ""))
    wk = window_kind(q)
    if wk:
        parts.append(wk)
    return "+".join(parts) or "no-args"


def arg_class_exc(q):
    """for exceptions the kind of window does not matter"""
    parts = [k for k in ("seqid", "biotype", "name", "strand", "attributes", "on_alignment") if k in q]
    if window_kind(q):
        parts.append("window")
    return "+".join(parts) or "no-args"


def mask_of(q):
    return sum(1 << i for i, k in enumerate(ARGS) if k in q)


def select(model, q):
    must, may = collections.Counter(), collections.Counter()
    for r in model:
        m = match(r, q)
        if m is True:
            must[canon(r)] += 1
        elif m is None:
            may[canon(r)] += 1
    return must, may


def diff(got, must, may):
    """None when got is an admissible answer, else (kind, key)"""
    for k in must:
        if got[k] < must[k]:
            altered = [g for g in got if g[:3] == k[:3] and got[g] > must[g] + may[g]]
            if altered:
                what = "strand" if altered[0][4] == k[4] else "spans"
                return f"record-altered-{what}", k
            return "missing", k
    for k in got:
        if got[k] > must[k] + may[k]:
            return "extra", k
    return None


# ---------------------------------------------------------------------------
# generators (descriptor level: everything below produces JSON values)


def gen_spans(rng, hi):
    nsp = rng.choice([1, 1, 1, 2, 2, 3])
    if rng.random() < 0.85:
        cuts = sorted(rng.sample(range(0, hi + 1), 2 * nsp))
        return [[cuts[i], cuts[i + 1]] for i in range(0, 2 * nsp, 2)]
    out = []
    for _ in range(nsp):
        a = rng.randint(0, hi - 1)
        out.append([a, rng.randint(a + 1, hi)])
    return sorted(out)


def gen_user_rec(rng, seqids, hi):
    spans = gen_spans(rng, hi)
    raw = [list(s) for s in spans]
    if rng.random() < 0.3:
        rng.shuffle(raw)
    raw = [s[::-1] if rng.random() < 0.15 else s for s in raw]
    rec = {
        "seqid": rng.choice(seqids),
        "biotype": rng.choice(BIOTYPES),
        "name": rng.choice(NAMES),
        "spans": raw,
        "strand": rng.choice(["+", "-", "+", "-", None]),
    }
    a = rng.choice(ATTRS)
    if a is not None:
        rec["attributes"] = a
    r = rng.random()
    if r < 0.15:
        rec["on_alignment"] = True
    elif r < 0.4:
        rec["on_alignment"] = False
    if rng.random() < 0.1:
        rec["parent_id"] = rng.choice(NAMES)
    return rec


def model_of_user(rec, on_aln_default=False):
    return {
        "t": "user",
        "seqid": rec["seqid"],
        "biotype": rec["biotype"],
        "name": rec["name"],
        "strand": rec.get("strand"),
        "spans": norm_spans(rec["spans"]),
        "attrs": rec.get("attributes"),
        "on_aln": rec.get("on_alignment", on_aln_default),
    }


def gen_gff(rng, seqids, nfeat, prefix, hi):
    """GFF3 text + the model records it describes"""
    feats = []
    rows = []
    for i in range(nfeat):
        seqid = rng.choice(seqids)
        biotype = rng.choice(BIOTYPES)
        strand = rng.choice(["+", "-", "+", "-", "."])
        spans = gen_spans(rng, hi)
        if rng.random() < 0.3:
            spans = sorted(spans + gen_spans(rng, hi))[:3]
        # G: two identical rows for one ID say nothing more than one row; keep the rows of a record distinct
        spans = [list(x) for x in sorted({tuple(s) for s in spans})]
        has_id = rng.random() < 0.88
        name = f"{prefix}{i}" + rng.choice(["", "", ".1", ":x"])
        attrs = []
        form = "multi-row" if len(spans) > 1 else "single-row"
        if has_id and rng.random() < 0.04:
            attrs.append(f"geneID=zz{i}")
            form = "other-key-ending-in-ID"
        if has_id:
            attrs.append(f"ID={name}")
        if rng.random() < 0.3 and i:
            attrs.append(f"Parent={prefix}{rng.randrange(i)}")
        if rng.random() < 0.6:
            attrs.append("Name=" + rng.choice(["a", "b", "ab"]))
        if rng.random() < 0.5:
            attrs.append("note=" + rng.choice(TOKENS[:3]))
        atext = ";".join(attrs)
        ncol8 = not atext and rng.random() < 0.5
        for a, b in spans:
            cols = [seqid, "src", biotype, str(a + 1), str(b), rng.choice([".", "0.5"]), strand, rng.choice([".", "0"])]
            if not ncol8:
                cols.append(atext)
            rows.append((i, "\t".join(cols)))
        base = {"t": "gff", "seqid": seqid, "biotype": biotype, "strand": strand, "attrs": atext, "on_aln": None}
        if has_id:
            feats.append({**base, "name": name, "spans": norm_spans(spans), "form": form, "fi": i})
        else:
            for s in spans:
                feats.append({**base, "name": None, "wild": True, "spans": [list(s)], "form": "no-id", "fi": i})
    if rng.random() < 0.5:
        rng.shuffle(rows)
    lines = ["##gff-version 3"]
    row_line = {}
    for i, row in rows:
        if rng.random() < 0.08:
            lines.append(rng.choice(["# a comment", "", "###"]))
        row_line.setdefault(i, []).append(len(lines))
        lines.append(row)
    return "\n".join(lines) + "\n", feats, row_line


def render_location(rng, spans, strand, p5, p3):
    segs = []
    forms = set()
    for k, (a, b) in enumerate(spans):
        lo, hi = str(a + 1), str(b)
        first, last = k == 0, k == len(spans) - 1
        if b - a == 1 and rng.random() < 0.5 and not (first and p5 and last and p3):
            t = lo
            if first and p5:
                t = "<" + t
            elif last and p3:
                t = ">" + t
            forms.add("single-base")
        else:
            t = ("<" if first and p5 else "") + lo + ".." + (">" if last and p3 else "") + hi
        segs.append(t)
    if p5 or p3:
        forms.add("partial")
    multi = len(segs) > 1
    op = rng.choice(["join", "join", "order"]) if multi else None
    if multi:
        forms.add("join")
    if strand is None:
        # trans-spliced: segments on both strands. complement() on the first / last / middle segment(s), at least one
        # with and one without; segments listed in ascending, descending or arbitrary order
        assert multi
        n = len(segs)
        where = rng.choice(["complement-first", "complement-last"] + (["complement-middle"] if n > 2 else []))
        if where == "complement-first":
            flags = [True] + [rng.random() < 0.5 for _ in range(n - 1)]
            if all(flags):
                flags[rng.randrange(1, n)] = False
        elif where == "complement-last":
            flags = [False] + [rng.random() < 0.5 for _ in range(n - 2)] + [True]
        else:
            flags = [False] + [True] * (n - 2) + [False]
        forms.add("mixed-strand")
        forms.add("mixed:" + where)
        parts = [f"complement({t})" if f else t for t, f in zip(segs, flags)]
        order = rng.choice(["ascending", "descending", "shuffled"])
        if order == "descending":
            parts.reverse()
        elif order == "shuffled":
            rng.shuffle(parts)
        forms.add("mixed:listed-" + order)
        if rng.random() < 0.12:
            # an outer complement flips every segment: still both strands
            forms.add("mixed:outer-complement")
            loc_parts = ["complement(" + op + "("] + [p + ("," if i < n - 1 else "))") for i, p in enumerate(parts)]
        else:
            loc_parts = [op + "("] + [p + ("," if i < n - 1 else ")") for i, p in enumerate(parts)]
    elif strand == "-":
        forms.add("complement")
        if multi and rng.random() < 0.4:
            parts = [f"complement({t})" for t in reversed(segs)]
            loc_parts = [op + "("] + [p + ("," if i < len(parts) - 1 else ")") for i, p in enumerate(parts)]
        elif multi:
            loc_parts = ["complement(" + op + "("] + [t + ("," if i < len(segs) - 1 else "))") for i, t in enumerate(segs)]
        else:
            loc_parts = [f"complement({segs[0]})"]
    elif multi:
        loc_parts = [op + "("] + [t + ("," if i < len(segs) - 1 else ")") for i, t in enumerate(segs)]
    else:
        loc_parts = [segs[0]]
    # wrap at commas
    out = [""]
    wrap = rng.random() < 0.4
    for p in loc_parts:
        if wrap and out[-1].endswith(",") and rng.random() < 0.6:
            out.append("")
            forms.add("wrapped")
        out[-1] += p
    return out, sorted(forms)


def gen_gb(rng, locus, nfeat, hi):
    """one GenBank record (text) + the model records of its feature table"""
    length = hi + rng.randint(0, 20)
    lines = [
        f"LOCUS       {locus:<16} {length} bp    DNA     linear   UNK 01-JAN-2000",
        "DEFINITION  generated record.",
        "FEATURES             Location/Qualifiers",
    ]
    feats = []
    pad = " " * 21
    if rng.random() < 0.6:
        lines += [f"     source          1..{length}", pad + '/organism="Examplus generatus"', pad + '/mol_type="genomic DNA"']
        feats.append({"t": "gb", "seqid": locus, "biotype": "source", "name": None, "wild": True, "strand": "+", "spans": [[0, length]], "attrs": "Examplus generatus genomic DNA", "on_aln": None, "form": ["source"]})
    for i in range(nfeat):
        biotype = rng.choice(BIOTYPES + ["misc_feature"])
        strand = rng.choice(["+", "-"])
        spans = gen_spans(rng, hi)
        if len(spans) > 1 and rng.random() < 0.3:
            strand = None  # segments on both strands
        p5, p3 = rng.random() < 0.2, rng.random() < 0.2
        loc_lines, forms = render_location(rng, spans, strand, p5, p3)
        lines.append("     " + biotype.ljust(16) + loc_lines[0])
        lines += [pad + x for x in loc_lines[1:]]
        vals = []
        r = rng.random()
        name = None
        if r < 0.8:
            name = rng.choice(["a", "b", "ab", "A", "g.1", "abc d"])
            key = "gene" if r < 0.55 else "locus_tag"
            lines.append(pad + f'/{key}="{name}"')
            vals.append(name)
        if rng.random() < 0.5:
            tok = rng.choice(TOKENS[:3])
            if rng.random() < 0.3:
                lines += [pad + f'/note="{tok} continues', pad + 'on a second line"']
                vals.append(f"{tok} continues on a second line")
            else:
                lines.append(pad + f'/note="{tok}"')
                vals.append(tok)
        if biotype == "CDS":
            lines.append(pad + "/codon_start=1")
            if rng.random() < 0.5:
                lines.append(pad + '/translation="MKV"')
        if rng.random() < 0.1:
            lines.append(pad + "/pseudo")
        feats.append({"t": "gb", "seqid": locus, "biotype": biotype, "name": name, "wild": name is None, "strand": strand, "spans": norm_spans(spans), "attrs": " | ".join(vals), "on_aln": None, "form": forms})
    seq = "".join(rng.choice("acgt") for _ in range(length))
    lines.append("ORIGIN")
    for i in range(0, length, 60):
        chunk = seq[i : i + 60]
        lines.append(f"{i + 1:>9} " + " ".join(chunk[j : j + 10] for j in range(0, len(chunk), 10)))
    lines.append("//")
    return "\n".join(lines) + "\n", feats


def gen_load_step(rng, cls, seqids, hi, tier, tag):
    """a step that loads generated flat-file text into the current db"""
    fmt = {"Gff": "gff", "Genbank": "gb"}[cls]
    if fmt == "gff":
        text, feats, row_line = gen_gff(rng, seqids, rng.choice([1, 2, 4, 7, 12]), f"{tag}f", hi)
        step = {"op": "load", "fmt": "gff", "text": text, "recs": feats}
        via = rng.choice(["load_annotations"] * 3 + ["parser-data", "parser-add_records"])
        step["via"] = via
        if via == "load_annotations":
            r = rng.random()
            if r < 0.3:
                step["lines_per_block"] = rng.choice([1, 2, 3, 5])
            elif r < 0.35:
                step["lines_per_block"] = None
            if rng.random() < 0.2:
                step["seqids"] = rng.choice([seqids[0], [seqids[0]], seqids[:2]])
            n = step.get("lines_per_block")
            step["splits_a_record"] = bool(n) and any(len({ln // n for ln in v}) > 1 for i, v in row_line.items() if any(f["fi"] == i and not f.get("wild") for f in feats))
        for f in feats:
            f.pop("fi", None)
        return step
    loci = rng.sample(["s1", "s2", "chr_3"], rng.choice([1, 1, 2]))
    files = []
    recs = []
    for locus in loci:
        text, feats = gen_gb(rng, locus, rng.choice([0, 1, 3, 6]), hi)
        files.append({"locus": locus, "text": text})
        recs += feats
    via = rng.choice(["load_annotations"] * 3 + ["parser-data", "parser-add_records"])
    step = {"op": "load", "fmt": "gb", "files": files, "recs": recs, "via": via}
    if via == "load_annotations" and len(files) > 1:
        step["layout"] = rng.choice(["glob", "one-by-one", "multi-record-file"])
    return step


def gen_other(rng, cls, seqids, hi, tier, tag):
    """descriptor of a second db (for update / union)"""
    steps = []
    n = rng.choice([0, 1, 1, 2])
    for k in range(n):
        if cls != "Basic" and rng.random() < 0.5:
            steps.append(gen_load_step(rng, cls, seqids, hi, tier, f"{tag}o{k}"))
        else:
            steps.append({"op": "add_feature", "recs": [gen_user_rec(rng, seqids, hi) for _ in range(rng.randint(1, 4))]})
    return {"cls": cls, "steps": steps}


PERSIST = ["copy", "deepcopy", "pickle", "richdict", "json", "write"]


def gen_query(rng, model, mask, lattice, ap=None):
    q = {}
    seqids = sorted({r["seqid"] for r in model}) or ["s1"]
    biotypes = sorted({r["biotype"] for r in model}) or ["gene"]
    names = sorted({r["name"] for r in model if not r.get("wild")}) or ["a"]
    if mask & 1:
        r = rng.random()
        q["seqid"] = rng.choice(seqids) if r < 0.7 else "s9" if r < 0.8 else sorted(rng.sample(SEQIDS, 2)) if r < 0.93 else "s%"
    if mask & 2:
        r = rng.random()
        q["biotype"] = rng.choice(biotypes) if r < 0.7 else "nope" if r < 0.78 else sorted(rng.sample(BIOTYPES, 2)) if r < 0.9 else rng.choice(["%e%", "%ne", "C%"])
    if mask & 4:
        r = rng.random()
        q["name"] = rng.choice(names) if r < 0.6 else "zz" if r < 0.68 else rng.sample(NAMES, 2) if r < 0.8 else rng.choice(["%a%", "a%", "%b", "%", "g_1", "%'%"])
    if mask & 8:
        r = rng.random()
        q["strand"] = "+" if r < 0.4 else "-" if r < 0.8 else "." if r < 0.88 else ["+", "-"]
    if mask & 16:
        q["attributes"] = rng.choice(TOKENS + ["tqb2;x"])
    if mask & 32:
        q["on_alignment"] = rng.random() < 0.5
    pts = lattice or [0, 1, 5]
    if mask & 64:
        q["start"] = rng.choice(pts)
    if mask & 128:
        q["stop"] = rng.choice(pts)
    if "start" in q and "stop" in q and q["start"] > q["stop"]:
        q["start"], q["stop"] = q["stop"], q["start"]
    if ap is None:
        ap = rng.random() < 0.5
    if "start" in q and "stop" in q and q["start"] == q["stop"] and ap:
        bigger = [p for p in pts if p > q["start"]]
        if bigger:
            q["stop"] = rng.choice(bigger)
        else:
            ap = False  # G: empty window with allow_partial has no agreed meaning
    if ap or rng.random() < 0.3:
        q["allow_partial"] = ap
    return q


def lattice_of(model):
    pts = set()
    for r in model:
        for a, b in r["spans"]:
            for d in (-1, 0, 1):
                pts.add(a + d)
                pts.add(b + d)
    return sorted(pts)


def gen_history(rng, cls, tier):
    hi = rng.choice([10, 16, 30])
    seqids = SEQIDS[: rng.choice([1, 2, 2, 3])]
    depth = rng.randint(1, 5 if tier == "quick" else 8)
    hist = {"cls": cls, "source": "file" if rng.random() < 0.12 else "memory", "steps": []}
    steps = hist["steps"]
    # initial content
    r = rng.random()
    if cls == "Basic" and r < 0.25:
        steps.append(gen_add_records(rng, seqids, hi, via="constructor"))
    elif cls != "Basic" and r < 0.6:
        steps.append(gen_load_step(rng, cls, seqids, hi, tier, "i"))
    elif r < 0.93:
        steps.append({"op": "add_feature", "recs": [gen_user_rec(rng, seqids, hi) for _ in range(rng.choice([1, 2, 4, 8, 14]))]})
    for k in range(depth):
        r = rng.random()
        if r < 0.2:
            steps.append({"op": "add_feature", "recs": [gen_user_rec(rng, seqids, hi) for _ in range(rng.randint(1, 5))]})
        elif r < 0.3:
            if cls == "Basic":
                steps.append(gen_add_records(rng, seqids, hi))
            else:
                steps.append(gen_load_step(rng, cls, seqids, hi, tier, f"h{k}"))
        elif r < 0.42:
            ocls = cls if rng.random() < 0.6 else rng.choice(["Basic", "Gff", "Genbank"])
            st = {"op": "update", "other": gen_other(rng, ocls, seqids, hi, tier, f"u{k}")}
            s = rng.random()
            if s < 0.3:
                st["seqids"] = rng.choice([seqids[0], [seqids[0]], seqids[:2], ["s9"]])
            steps.append(st)
        elif r < 0.54:
            ocls = cls if rng.random() < 0.5 else rng.choice(["Basic", "Gff", "Genbank"])
            steps.append({"op": "union", "other": gen_other(rng, ocls, seqids, hi, tier, f"n{k}"), "flip": rng.random() < 0.3})
        elif r < 0.64:
            steps.append({"op": "subset", "mask": rng.choice([0, 1, 2, 3, 4, 8, 64 + 128, 1 + 64 + 128, 2 + 64 + 128, 64, 128, 9, 16]), "qseed": rng.randrange(2**31), "to_file": rng.random() < 0.15})
        else:
            steps.append({"op": rng.choice(PERSIST)})
        # sometimes the next step follows a mutation with no read in between
        if steps[-1]["op"] in ("update", "union", "add_feature", "load", "add_records") and rng.random() < (0.45 if steps[-1]["op"] in ("update", "union") else 0.2):
            steps[-1]["observe"] = False
            steps.append({"op": rng.choice(PERSIST), "after_unread": steps[-1]["op"]})
    return hist


def gen_add_records(rng, seqids, hi, via="add_records"):
    style = rng.choice(["full", "full", "feature"])
    recs = []
    for _ in range(rng.randint(1, 5)):
        u = gen_user_rec(rng, seqids, hi)
        u["spans"] = norm_spans(u["spans"])
        u.pop("parent_id", None)
        if style == "full":
            u["start"], u["stop"] = u["spans"][0][0], max(b for _, b in u["spans"])
            if rng.random() < 0.5:
                u.setdefault("attributes", None)
                u.setdefault("parent_id", None)
        recs.append(u)
    return {"op": "add_records", "style": style, "recs": recs, "via": via}


def gen_directed(rng, which):
    """histories that reach a named class for certain (the random histories reach them only with some probability)"""
    hi = rng.choice([10, 16, 30])
    seqids = SEQIDS[: rng.choice([2, 3])]
    feats = lambda n: {"op": "add_feature", "recs": [gen_user_rec(rng, seqids, hi) for _ in range(n)]}  # noqa: E731
    other = lambda cls: {"cls": cls, "steps": [feats(rng.randint(1, 3))]}  # noqa: E731
    out = []
    if which == "empty":
        for cls in ("Basic", "Gff", "Genbank"):
            out.append({"cls": cls, "source": "memory", "steps": [{"op": op} for op in rng.sample(PERSIST, 3)]})
    elif which == "refusals":
        out.append({"cls": "Gff", "source": "memory", "steps": [feats(2), {"op": "union", "other": other("Genbank"), "flip": False}]})
        out.append({"cls": "Genbank", "source": "memory", "steps": [feats(2), {"op": "union", "other": other("Gff"), "flip": True}]})
        out.append({"cls": "Basic", "source": "memory", "steps": [feats(2), {"op": "update", "other": other(rng.choice(["Gff", "Genbank"]))}]})
        out.append({"cls": "Gff", "source": "memory", "steps": [feats(1), {"op": "update", "other": other("Genbank")}]})
    elif which == "unread":
        for cls in ("Basic", "Gff", "Genbank"):
            for mut in ("update", "union"):
                for pre in ([], [{"op": "pickle"}]):
                    st = {"op": mut, "other": other(rng.choice(["Basic", cls])), "observe": False}
                    if mut == "union":
                        st["flip"] = False
                    out.append({"cls": cls, "source": "memory", "steps": [feats(2)] + pre + [st, {"op": rng.choice(["copy", "deepcopy", "pickle"]) if pre else "write", "after_unread": mut}]})
    elif which == "blocks":
        for _ in range(3):
            while True:
                st = gen_load_step(rng, "Gff", seqids, hi, "quick", "d")
                if st["via"] == "load_annotations" and "seqids" not in st and any(f.get("form") == "multi-row" for f in st["recs"]):
                    break
            n = rng.choice([1, 1, 2])
            st["lines_per_block"] = n
            # rows of one ID are never all in one block of a single line; for n=2 recompute from the text
            ids = collections.defaultdict(set)
            for ln, line in enumerate(st["text"].splitlines()):
                m = re.search(r"(?:^|;)ID=([^;]+)", line.split("\t")[-1]) if "\t" in line else None
                if m:
                    ids[m.group(1)].add(ln // n)
            st["splits_a_record"] = any(len(v) > 1 for v in ids.values())
            out.append({"cls": rng.choice(["Gff", "Basic"]), "source": "memory", "steps": [st]})
    elif which == "file-backed":
        for cls, via in (("Gff", "load_annotations"), ("Gff", "parser-data"), ("Genbank", "load_annotations"), ("Genbank", "parser-data")):
            st = gen_load_step(rng, cls, seqids, hi, "quick", "d")
            st["via"] = via
            for k in ("lines_per_block", "seqids", "splits_a_record", "layout"):
                st.pop(k, None)
            out.append({"cls": "Basic", "source": "file", "steps": [feats(rng.randint(1, 3)), st, {"op": rng.choice(PERSIST)}]})
    elif which == "gb-mixed":
        # trans-spliced locations: every placement of complement() and every listing order, through every load route
        want = {"mixed:complement-first", "mixed:complement-last", "mixed:complement-middle", "mixed:listed-ascending", "mixed:listed-descending", "mixed:listed-shuffled"}
        vias = ["load_annotations", "parser-data", "parser-add_records"]
        for _ in range(2000):
            st = gen_load_step(rng, "Genbank", seqids, max(hi, 16), "quick", "d")
            have = {f for r in st["recs"] for f in (r.get("form") or []) if f.startswith("mixed:")}
            if not (have & want) and not (vias and have):
                continue
            want -= have
            st["via"] = vias.pop() if vias else st["via"]
            if st["via"] != "load_annotations":
                st.pop("layout", None)
            out.append({"cls": rng.choice(["Genbank", "Genbank", "Basic"]), "source": "memory", "steps": [feats(rng.randint(0, 2)), st, {"op": rng.choice(PERSIST)}]})
            if not want and not vias:
                break
    elif which == "gb-files":
        for layout in ("glob", "multi-record-file", "one-by-one"):
            while True:
                st = gen_load_step(rng, "Genbank", seqids, hi, "quick", "d")
                if len(st["files"]) > 1:
                    break
            st["via"] = "load_annotations"
            st["layout"] = layout
            out.append({"cls": rng.choice(["Genbank", "Basic"]), "source": "memory", "steps": [st]})
    return out


DIRECTED = ["empty", "refusals", "unread", "blocks", "gb-files", "gb-mixed", "file-backed"]


def gen_cases(rng, tier):
    cases = []
    for rep_ in range(1 if tier == "quick" else 8):
        for which in DIRECTED:
            cases.append({"kind": "directed", "which": which, "seed": rng.randrange(2**32)})
    per = 40 if tier == "quick" else 400
    n = 1
    for cls in ("Basic", "Gff", "Genbank"):
        for _ in range(per):
            cases.append({"kind": "histories", "cls": cls, "seed": rng.randrange(2**32), "n": n})
    for _ in range(28 if tier == "quick" else 280):
        cases.append({"kind": "texts", "fmt": "gff", "seed": rng.randrange(2**32), "n": 2})
    for _ in range(28 if tier == "quick" else 280):
        cases.append({"kind": "texts", "fmt": "gb", "seed": rng.randrange(2**32), "n": 2})
    for i in range(18 if tier == "quick" else 180):
        cases.append({"kind": "lattice", "cls": ["Basic", "Gff", "Genbank"][i % 3], "seed": rng.randrange(2**32), "n": 1})
    return cases


# ---------------------------------------------------------------------------
# driving the real code


class Diverged(Exception):
    """model and db no longer agree; the history stops at its first witness"""


def call_guarded(fn, timeout):
    """run fn in a thread so that a call that never returns can be observed; -> (status, value)"""
    box = {}

    def run():
        try:
            box["v"] = fn()
        except BaseException as e:  # noqa: BLE001
            box["e"] = e

    t = threading.Thread(target=run, daemon=True)
    t.start()
    t.join(timeout)
    if t.is_alive():
        return "hang", t
    if "e" in box:
        return "exc", box["e"]
    return "ok", box.get("v")


class Ctx:
    def __init__(self, res, hist, tmp):
        self.res = res
        self.hist = hist
        self.tmp = tmp
        self.done = []  # steps executed so far (descriptors)
        self.nfile = 0
        self.prev_op = None
        self.opc_override = None  # set by a step whose db state names the class better than the step does

    def path(self, suffix):
        self.nfile += 1
        return os.path.join(self.tmp, f"f{self.nfile}{suffix}")

    def replay(self, **extra):
        rc = {"kind": "history", "hist": {"cls": self.hist["cls"], "source": self.hist.get("source", "memory"), "steps": list(self.done)}}
        rc.update(extra)
        return rc


def op_class(step):
    op = step["op"]
    if op == "load":
        c = f"load-{step['fmt']}"
        if step.get("via") != "load_annotations":
            c += "/" + step["via"]
        elif step.get("splits_a_record"):
            c += "/blocks-split-a-record"
        elif step.get("layout") == "multi-record-file":
            c += "/multi-record-file"
        elif step.get("seqids") is not None:
            c += "/seqids"
        return c
    if op == "add_records":
        return f"add_records-basic/{step['style']}-style"
    if op == "update" and step.get("seqids") is not None:
        return "update/seqids"
    if step.get("after_unread") in ("update", "union") and op in ("copy", "deepcopy", "pickle", "write"):
        return ("write" if op == "write" else "copy-or-pickle") + "/after-unread-" + step["after_unread"]
    return op


def observe(ctx, db, model, step, light=False):
    """compare everything observable without arguments; raises Diverged after recording the witness"""
    res = ctx.res
    opc = ctx.opc_override or op_class(step)
    any_wild = any(r.get("wild") for r in model)

    def bad(what, **detail):
        nonlocal opc
        res.witness(f"C17/{opc}/{what}", db_class=_cls_name(db), expected=[canon(r) for r in model][:30], replay_case=ctx.replay(), **detail)
        raise Diverged

    def guarded(name, fn):
        try:
            return fn()
        except Exception as e:  # noqa: BLE001
            res.evals += 1
            res.witness(exc_mechanism(f"C17/{opc}/then-{name}", e), error=repr(e)[:300], replay_case=ctx.replay())
            raise Diverged from None

    exp = collections.Counter(canon(r) for r in model)
    rows = guarded("get_records_matching", lambda: [dict(r) for r in db.get_records_matching()])
    got = canon_got_all(rows, model, any_wild)
    res.evals += 1
    res.count("observe:records")
    d = diff(got, exp, collections.Counter())
    if d:
        form = ""
        if step["op"] == "load":
            f = [r.get("form") for r in model if canon(r) == d[1]] or [r.get("form") for r in model if canon(r)[:2] == d[1][:2] and r.get("form") in HOSTILE_FORMS]
            if f and f[0]:
                form = f[0] if isinstance(f[0], str) else next((x for x in FORM_PRIORITY if x in f[0]), "plain")
            if form in HOSTILE_FORMS:
                # a record class the generator plants on purpose: name the mechanism after it, whatever the load route
                opc = f"load-{step['fmt']}/{form}"
                form = ""
            elif step.get("splits_a_record") or step["fmt"] == "gff" or step.get("layout") == "multi-record-file":
                form = ""  # how many rows a gff record has / how a location is written does not name the cause here
            else:
                form = ":" + form if form else ""
        bad(f"{d[0] if d[0].startswith('record-') else 'records-' + d[0]}{form}", record=d[1], got=sorted(got.elements(), key=repr)[:30])
    res.evals += 1
    res.count("observe:extent")
    for r in rows:
        sp = r["spans"].tolist()
        lo, hi = min(a for a, _ in sp), max(b for _, b in sp)
        if r["start"] != lo or r["stop"] != hi:
            bad("extent-not-span-extremes", record=canon_got(r, False), start=r["start"], stop=r["stop"])
    n = guarded("len", lambda: len(db))
    res.evals += 1
    res.count("observe:len")
    if n != len(model):
        bad("len-differs", got=n, exp=len(model))
    if light:
        return
    feats = guarded("get_features_matching", lambda: list(db.get_features_matching()))
    gotf = canon_got_all(feats, model, any_wild)
    res.evals += 1
    res.count("observe:features")
    d = diff(gotf, exp, collections.Counter())
    if d:
        bad(f"features-{d[0]}", record=d[1], got=sorted(gotf.elements(), key=repr)[:30])
    bc = guarded("biotype_counts", lambda: dict(db.biotype_counts()))
    res.evals += 1
    res.count("observe:biotype_counts")
    if bc != dict(collections.Counter(r["biotype"] for r in model)):
        bad("biotype_counts-differ", got=bc)


def build(ctx, desc):
    """a fresh db from a descriptor without checks (the second operand of update / union)"""
    sub = Ctx(ctx.res, {"cls": desc["cls"], "source": "memory"}, tempfile.mkdtemp(dir=ctx.tmp))
    db = _cls(desc["cls"])()
    model = []
    for st in desc["steps"]:
        sub.done.append(st)
        try:
            db, model = apply_step(sub, db, model, st, nested=True)
        except Diverged:
            raise
        except Exception as e:  # noqa: BLE001
            ctx.res.evals += 1
            ctx.res.witness(exc_mechanism(f"C17/{op_class(st)}", e), db_class=_cls_name(db), error=repr(e)[:300], replay_case=sub.replay())
            raise Diverged from None
        observe(sub, db, model, st, light=True)
    return db, model


def _gff_records(text):
    from cogent3.parse.gff import gff_parser

    return list(gff_parser(text.splitlines(), attribute_parser=lambda *a: a[0]))


def apply_load(ctx, db, model, st):
    from cogent3.core.annotation_db import GenbankAnnotationDb, GffAnnotationDb, load_annotations
    from cogent3.parse.gff import merged_gff_records

    res = ctx.res
    recs = [dict(r) for r in st["recs"]]
    via = st["via"]
    cur = _cls_name(db) if db is not None else None
    if st["fmt"] == "gff":
        res.count("load:gff:" + via)
        for f in {r.get("form") for r in recs}:
            res.count(f"gff:{f}")
        if via == "load_annotations":
            p = ctx.path(".gff")
            with open(p, "w") as out:
                out.write(st["text"])
            kw = {}
            if "lines_per_block" in st:
                kw["lines_per_block"] = st["lines_per_block"]
            if st.get("splits_a_record"):
                res.count("gff:blocks-split-a-record")
            if st.get("seqids") is not None:
                kw["seqids"] = st["seqids"]
                keep = {st["seqids"]} if isinstance(st["seqids"], str) else set(st["seqids"])
                recs = [r for r in recs if r["seqid"] in keep]
                res.count("gff:seqids-filter")
            fresh = st.get("fresh") and not model and cur in ("Basic", "Gff")
            if fresh:
                res.count("gff:load-without-db")
                if st.get("write_path"):
                    kw["write_path"] = ctx.path(".gffdb")
                    res.count("gff:write_path")
            new = load_annotations(path=p, db=None if fresh else db, **kw)
        elif via == "parser-data":
            new = GffAnnotationDb(data=_gff_records(st["text"]), db=db)
        else:
            if cur != "Gff":
                db = GffAnnotationDb(db=db)
            reduced, _ = merged_gff_records(_gff_records(st["text"]), 0)
            db.add_records(reduced)
            new = db
        return new, model + recs
    # GenBank
    from cogent3.parse.genbank import minimal_parser

    res.count("load:gb:" + via)
    for r in recs:
        for f in r.get("form") or []:
            res.count(f"gb:{f}")
    files = st["files"]
    if via == "load_annotations":
        layout = st.get("layout", "one-by-one")
        if layout == "multi-record-file":
            res.count("gb:multi-record-file")
            p = ctx.path(".gb")
            with open(p, "w") as out:
                out.write("".join(f["text"] for f in files))
            new = load_annotations(path=p, db=db)
        elif layout == "glob":
            res.count("gb:glob")
            ctx.nfile += 1
            stem = os.path.join(ctx.tmp, f"g{ctx.nfile}_")
            for i, f in enumerate(files):
                with open(f"{stem}{i}.gb", "w") as out:
                    out.write(f["text"])
            new = load_annotations(path=stem + "*.gb", db=db)
        else:
            new = db
            for f in files:
                p = ctx.path(".gb")
                with open(p, "w") as out:
                    out.write(f["text"])
                new = load_annotations(path=p, db=new)
        return new, model + recs
    new = db
    for f in files:
        src = io.StringIO(f["text"]) if len(f["text"]) % 2 else f["text"].encode("utf8")
        rec = list(minimal_parser(src))[0]
        if via == "parser-data" or _cls_name(new) != "Genbank":
            new = GenbankAnnotationDb(data=rec.get("features"), seqid=rec["locus"], db=new)
        else:
            new.add_records(rec.get("features") or [], rec["locus"])
    return new, model + recs


def apply_step(ctx, db, model, st, nested=False):
    """apply one descriptor step to the real db and to the model; returns (db, model).
    Documented refusals leave both unchanged."""
    res = ctx.res
    op = st["op"]
    cur = _cls_name(db)
    if not nested:
        res.count("op:" + op)
    if op == "add_feature":
        for r in st["recs"]:
            db.add_feature(**{k: ([tuple(s) for s in v] if k == "spans" else v) for k, v in r.items()})
            model = model + [model_of_user(r)]
        return db, model
    if op == "add_records" and cur != "Basic":
        # the list-of-dicts form belongs to BasicAnnotationDb; on the other classes the same records go in one by one
        for r in st["recs"]:
            kw = {k: ([tuple(x) for x in v] if k == "spans" else v) for k, v in r.items() if k not in ("start", "stop")}
            db.add_feature(**kw)
            model = model + [model_of_user(kw)]
        return db, model
    if op == "add_records":
        data = [copy.deepcopy(r) for r in st["recs"]]
        if st.get("via") == "constructor" and not model:
            db = _cls("Basic")(data=data, source=db.source)
        else:
            db.add_records(data)
        res.count("add_records:" + st["style"])
        return db, model + [model_of_user(r, on_aln_default=None) for r in st["recs"]]
    if op == "load":
        want = {"gff": "Gff", "gb": "Genbank"}[st["fmt"]]
        if cur == "Basic" and db.source not in (None, ":memory:"):
            res.count("load:into-file-backed-basic-db")
            ctx.opc_override = f"load-{st['fmt']}/into-file-backed-basic-db"
        if cur not in ("Basic", want):
            try:
                out = apply_load(ctx, db, model, st)
            except TypeError:
                res.refused += 1
                res.count("refused:load-into-incompatible-class")
                return db, model
            # G: the refusal itself is not demanded (an EMPTY db of the other class is accepted: nothing can be lost).
            # What is demanded is decided by the comparison after the step: every record of db and of the file is there.
            res.count("observed:load-into-incompatible-class-accepted")
            return out
        return apply_load(ctx, db, model, st)
    if op in ("update", "union"):
        other, omodel = build(ctx, st["other"])
        ocls = st["other"]["cls"]
        tables = {"Basic": {"user"}, "Gff": {"gff", "user"}, "Genbank": {"gb", "user"}}
        if op == "update":
            ok = tables[cur] >= tables[ocls]
            kw = {}
            if st.get("seqids") is not None:
                kw["seqids"] = st["seqids"]
                keep = {st["seqids"]} if isinstance(st["seqids"], str) else set(st["seqids"])
                omodel = [r for r in omodel if r["seqid"] in keep]
                res.count("update:seqids")
            try:
                db.update(other, **kw)
            except TypeError:
                if not ok:
                    res.refused += 1
                    res.count("refused:update-from-incompatible-class")
                    return db, model
                raise
            if not ok:
                res.count("observed:update-from-incompatible-class-accepted")  # G: the refusal itself is not demanded
            return db, model + omodel
        ok = tables[cur] >= tables[ocls] or tables[cur] <= tables[ocls]
        a, b = (other, db) if st.get("flip") else (db, other)
        try:
            new = a.union(b)
        except TypeError:
            if not ok:
                res.refused += 1
                res.count("refused:union-of-incompatible-classes")
                return db, model
            raise
        res.evals += 1
        if new is db or new is other:
            res.witness("C17/union/returns-an-operand", replay_case=ctx.replay(step=st))
            raise Diverged
        if not ok:
            res.count("observed:union-of-incompatible-classes-accepted")  # G: the refusal itself is not demanded (empty operand)
        # G: which class the result has is not part of the property (an empty operand gives a copy of the other)
        if cur != ocls:
            res.count("union:cross-class")
        return new, model + omodel
    if op == "subset":
        q = st.get("q")
        if q is None:
            q = gen_query(random.Random(st["qseed"]), model, st["mask"], lattice_of(model))
            q.pop("on_alignment", None)
            st["q"] = q
        if any(match(r, q) is None for r in model):
            res.count("skipped:subset-with-unspecified-match")
            return db, model
        kw = dict(q)
        if st.get("to_file"):
            kw["source"] = ctx.path(".subdb")
        try:
            new = db.subset(**kw)
        except Exception as e:  # noqa: BLE001
            res.evals += 1
            qmin, v = minimise(db, model, "subset", q, ("exc", e, None))
            res.witness(exc_mechanism(f"C17/subset/{arg_class_exc(qmin)}", v[1]), db_class=cur, query=qmin, error=repr(e)[:300], replay_case=ctx.replay(query=qmin, fn="subset"))
            raise Diverged from None
        res.evals += 1
        if new is db:
            res.witness("C17/subset/returns-self", replay_case=ctx.replay(step=st))
            raise Diverged
        return new, [r for r in model if match(r, q)]
    # persistence
    from cogent3.util.deserialise import deserialise_object

    file_backed = db.source not in (None, ":memory:")
    if op == "copy":
        new = copy.copy(db)
    elif op == "deepcopy":
        new = copy.deepcopy(db)
    elif op == "pickle":
        new = pickle.loads(pickle.dumps(db))
    elif op in ("richdict", "json"):
        if file_backed:
            # not claimed by the property: a rich dict carries the file name, so deserialising re-opens the same file
            res.count("skipped:rich-dict-of-file-backed-db")
            return db, model
        new = deserialise_object(db.to_rich_dict()) if op == "richdict" else deserialise_object(db.to_json())
    elif op == "write":
        p = ctx.path(".db")
        open_txn = bool(db.db.in_transaction)
        if st.get("after_unread"):
            res.count("write:after-unread-mutation")
        status, val = call_guarded(lambda: db.write(p), 2.5 if open_txn else 60)
        if status == "hang":
            res.evals += 1
            db.db.commit()  # releases the waiting backup if it was blocked by the pending transaction
            val.join(30)
            res.count("observed:write-never-returned")
            res.witness(
                f"C17/{op_class(st)}/never-returns",
                pending_transaction=open_txn,
                returned_after_commit=not val.is_alive(),
                replay_case=ctx.replay(step=st),
            )
            raise Diverged
        if status == "exc":
            raise val
        new = _cls(cur)(source=p)
        res.count("write:reloaded")
    else:
        raise ValueError(op)
    res.evals += 1
    if new is db:
        res.witness(f"C17/{op}/returns-self", replay_case=ctx.replay(step=st))
        raise Diverged
    if _cls_name(new) != cur:
        res.witness(f"C17/{op}/class-changed", got=_cls_name(new), replay_case=ctx.replay(step=st))
        raise Diverged
    # the source must be unaffected by what happens to the copy: keep it for an independence check
    ctx.last_source = (db, model)
    return new, model


# ---------------------------------------------------------------------------
# queries


def run_query(db, fn, q):
    """-> Counter of canonical records / int; raises whatever the real call raises"""
    if fn == "get_records_matching":
        return [dict(r) for r in db.get_records_matching(**q)]
    if fn == "get_features_matching":
        return list(db.get_features_matching(**q))
    if fn == "num_matches":
        return db.num_matches(**{k: v for k, v in q.items() if k not in ("start", "stop", "allow_partial")})
    if fn == "subset":
        return [dict(r) for r in db.subset(**q).get_records_matching()]
    raise ValueError(fn)


def judge(db, model, fn, q):
    """-> None if admissible; ("exc", e) ; (kind, record-key, got)"""
    any_wild = any(r.get("wild") for r in model)
    qm = {k: v for k, v in q.items() if k not in ("start", "stop", "allow_partial")} if fn == "num_matches" else q
    must, may = select(model, qm)
    try:
        out = run_query(db, fn, q)
    except Exception as e:  # noqa: BLE001
        return ("exc", e, None)
    if fn == "num_matches":
        lo, hi = sum(must.values()), sum(must.values()) + sum(may.values())
        if not (lo <= out <= hi):
            return ("count-too-small" if out < lo else "count-too-large", None, out)
        return None
    got = canon_got_all(out, model, any_wild)
    d = diff(got, must, may)
    if d:
        return (d[0], d[1], sorted(got.elements(), key=repr)[:20])
    if fn == "get_features_matching":
        for r in out:
            if not all(isinstance(s, tuple) and len(s) == 2 for s in r["spans"]):
                return ("spans-not-list-of-pairs", None, repr(r["spans"])[:100])
    return None


def minimise(db, model, fn, q, verdict):
    """greedy: drop arguments while the same kind of failure persists (names the responsible arguments)"""
    kind = verdict[0] if verdict[0] != "exc" else "exc:" + type(verdict[1]).__name__
    q = dict(q)
    changed = True
    while changed:  # until no single argument can be dropped any more
        changed = False
        for k in list(q):
            q2 = {a: b for a, b in q.items() if a != k}
            if "start" in q2 and "stop" in q2 and q2["start"] == q2["stop"] and q2.get("allow_partial"):
                continue
            if fn == "subset" and "on_alignment" in q2:
                continue
            v2 = judge(db, model, fn, q2)
            if v2 is not None and (v2[0] if v2[0] != "exc" else "exc:" + type(v2[1]).__name__) == kind:
                q, verdict, changed = q2, v2, True
    return q, verdict


def check_query(ctx, db, model, q, fns, sweep):
    res = ctx.res
    cls = _cls_name(db)
    wk = window_kind(q)
    for fn in fns:
        if fn == "subset" and "on_alignment" in q:
            continue
        v = judge(db, model, fn, q)
        res.evals += 1
        res.count("query:" + fn)
        if v is None:
            continue
        qmin, v = minimise(db, model, fn, q, v)
        if v[0] == "exc":
            tables = ("/one-table-db" if cls == "Basic" else "/two-table-db") if "on_alignment" in qmin else ""
            res.witness(exc_mechanism(f"C17/{fn}/{arg_class_exc(qmin)}{tables}", v[1]), db_class=cls, query=qmin, error=repr(v[1])[:300], replay_case=ctx.replay(query=qmin, fn=fn))
        else:
            rel = ""
            if v[1] is not None and window_kind(qmin):
                recs = [r for r in model if canon(r) == v[1]]
                if recs:
                    rel = ":" + relation(recs[0], qmin)
            must, may = select(model, qmin)
            res.witness(
                f"C17/{fn}/{arg_class(qmin)}/{v[0]}{rel}",
                db_class=cls,
                query=qmin,
                record=v[1],
                got=v[2],
                expected=sorted(must.elements(), key=repr)[:20],
                replay_case=ctx.replay(query=qmin, fn=fn),
            )
    # coverage bookkeeping
    if "strand" in q and any(no_strand(r) and match(r, {k: v for k, v in q.items() if k != "strand"}) is not False for r in model):
        res.count("query:strand-vs-strandless-record")
    res.count("sweep:" + sweep)
    if wk:
        res.count("window:" + wk)
    rels = {relation(r, q) for r in model if match(r, {k: v for k, v in q.items() if k not in ("start", "stop", "allow_partial")}) is not False} if wk else set()
    edge = sorted(rels & EDGE_REL)
    nargs = sum(1 for k in ARGS if k in q)
    if edge or nargs >= 3:
        if edge:
            res.count("window:edge-coincident")
        res.sig(cls, mask_of(q), edge[0] if edge else "no-edge", int(bool(q.get("allow_partial"))))


def check_one_count_distinct(ctx, db, model, kw):
    res = ctx.res
    any_wild = any(r.get("wild") for r in model)
    cols = [c for c in ("seqid", "biotype", "name") if kw.get(c) is True]
    cons = {c: v for c, v in kw.items() if v is not True}
    rc = ctx.replay(count_distinct=kw)
    res.evals += 1
    res.count("query:count_distinct")
    try:
        tab = db.count_distinct(**kw)
        header = list(tab.header)
        data = list(zip(*[tab.columns[c].tolist() for c in header])) if tab.shape[0] else []
    except Exception as e:  # noqa: BLE001
        res.witness(exc_mechanism("C17/count_distinct", e), kwargs=kw, error=repr(e)[:300], replay_case=rc)
        return
    got = collections.Counter()
    for row in data:
        d = dict(zip(header, row))
        key = tuple(("*" if c == "name" and any_wild and FAKE.fullmatch(d[c] or "") else d[c]) for c in cols)
        got[key] += int(d["count"])
    if len({tuple(dict(zip(header, row))[c] for c in cols) for row in data}) < len(data):
        # "counts of distinct values": one value combination, one row
        res.witness("C17/count_distinct/key-on-several-rows", db_class=_cls_name(db), kwargs=kw, rows=sorted(data, key=repr)[:20], replay_case=rc)
    exp = collections.Counter()
    for r in model:
        mm = match(r, cons)
        if mm is None:
            return  # G: a constraint whose answer is unspecified for some record
        if mm:
            exp[tuple(("*" if c == "name" and r.get("wild") else r[c]) for c in cols)] += 1
    if got != exp:
        res.witness("C17/count_distinct/counts-differ", kwargs=kw, got=sorted(got.items(), key=repr)[:20], expected=sorted(exp.items(), key=repr)[:20], replay_case=rc)


def check_count_distinct(ctx, db, model, rng):
    res = ctx.res
    cols_all = ["seqid", "biotype", "name"]
    for m in range(1, 8):
        cols = [c for i, c in enumerate(cols_all) if m >> i & 1]
        kw = {c: True for c in cols}
        for c in cols_all:
            if c not in cols and rng.random() < 0.5:
                pool = sorted({r[c] for r in model if r[c] is not None}) or ["a"]
                kw[c] = rng.choice(pool + ["zz"])
        check_one_count_distinct(ctx, db, model, kw)
    res.evals += 1
    try:
        none = db.count_distinct()
        if none is not None:
            res.witness("C17/count_distinct/no-columns-not-None", replay_case=ctx.replay())
    except Exception as e:  # noqa: BLE001
        res.witness(exc_mechanism("C17/count_distinct/no-columns", e), replay_case=ctx.replay())


ALL_FNS = ("get_records_matching", "get_features_matching", "num_matches")


def query_sweep(ctx, db, model, rng, tier, full=True):
    lat = lattice_of(model)
    if not full:
        for _ in range(6):
            q = gen_query(rng, model, rng.randrange(256), lat)
            check_query(ctx, db, model, q, ALL_FNS + (("subset",) if rng.random() < 0.2 else ()), "sample")
        return
    # every presence subset of the optional arguments
    for mask in range(256):
        q = gen_query(rng, model, mask, lat)
        fns = ALL_FNS + (("subset",) if rng.random() < 0.12 else ())
        check_query(ctx, db, model, q, fns, "mask")
    window_sweep(ctx, db, model, rng, 60 if tier == "quick" else 150)
    check_count_distinct(ctx, db, model, rng)


def window_sweep(ctx, db, model, rng, npairs):
    lat = lattice_of(model)
    pairs = [(a, b) for i, a in enumerate(lat) for b in lat[i:]]
    if len(pairs) > npairs:
        pairs = rng.sample(pairs, npairs)
    seqids = sorted({r["seqid"] for r in model})
    for S, E in pairs:
        base = {}
        r = rng.random()
        if seqids and r < 0.5:
            base["seqid"] = rng.choice(seqids)
        if r < 0.12 and model:
            base["biotype"] = rng.choice(model)["biotype"]
        for ap in (False, True):
            if ap and S == E:
                continue  # G
            q = dict(base, start=S, stop=E, allow_partial=ap)
            fns = ("get_records_matching", "get_features_matching") if rng.random() < 0.5 else ("get_records_matching",)
            if rng.random() < 0.06:
                fns += ("subset",)
            check_query(ctx, db, model, q, fns, "lattice-pair")
    for p in lat if len(lat) <= 40 else rng.sample(lat, 40):
        for key in ("start", "stop"):
            q = {key: p}
            if rng.random() < 0.5:
                q["allow_partial"] = rng.random() < 0.5
            if seqids and rng.random() < 0.4:
                q["seqid"] = rng.choice(seqids)
            check_query(ctx, db, model, q, ("get_records_matching", "get_features_matching"), "lattice-point")


# ---------------------------------------------------------------------------
# cases


def run_history(res, hist, rng, tier, query=None, fn=None, final_sweep=True, count_distinct=None):
    tmp = tempfile.mkdtemp(prefix="c17-", dir=".")
    ctx = Ctx(res, hist, tmp)
    cls = hist["cls"]
    try:
        try:
            if hist.get("source") == "file":
                db = _cls(cls)(source=ctx.path(".srcdb"))
                res.count("db:file-backed")
            else:
                db = _cls(cls)()
        except Exception as e:  # noqa: BLE001
            res.evals += 1
            res.witness(exc_mechanism("C17/constructor", e), replay_case=ctx.replay())
            return
        model = []
        res.count("db:" + cls)
        for st in hist["steps"]:
            ctx.done.append(st)
            ctx.last_source = None
            ctx.opc_override = None
            try:
                db, model = apply_step(ctx, db, model, st)
            except Diverged:
                return
            except Exception as e:  # noqa: BLE001
                res.evals += 1
                res.witness(exc_mechanism(f"C17/{op_class(st)}", e), db_class=_cls_name(db), error=repr(e)[:300], replay_case=ctx.replay())
                return
            ctx.prev_op = st["op"]
            if st.get("observe") is False:
                res.count("step-without-read")
                continue
            unread = len(ctx.done) >= 2 and ctx.done[-2].get("observe") is False
            n0, c0 = len(res.witnesses), dict(res.counters)
            try:
                observe(ctx, db, model, st)
                if ctx.last_source is not None:
                    # the operand a copy was made from still holds its records
                    observe(ctx, ctx.last_source[0], ctx.last_source[1], {"op": st["op"] + "-source-afterwards"}, light=True)
            except Diverged:
                if unread and not hist.get("_reexec"):
                    # the step before was not read back: re-execute the prefix with a read after it, so that a fault of
                    # that step is reported under its own name and not under the name of this one
                    prefix = [dict(x, observe=True) for x in ctx.done[:-1]]
                    res2 = Result()
                    run_history(res2, {"cls": hist["cls"], "source": hist.get("source", "memory"), "steps": prefix, "_reexec": True}, None, tier)
                    if res2.witnesses:
                        del res.witnesses[n0:]
                        for k in [k for k in res.counters if k.startswith("witness:")]:
                            if k in c0:
                                res.counters[k] = c0[k]
                            else:
                                del res.counters[k]
                        for w in res2.witnesses:
                            res.witness(w["mechanism"], **w["detail"])
                return
            if query is None and rng is not None:
                query_sweep(ctx, db, model, rng, tier, full=False)
        res.count("histories")
        res.count(f"records:{'0' if not model else '1-5' if len(model) <= 5 else '6-12' if len(model) <= 12 else '13+'}")
        if len({r['seqid'] for r in model}) > 1:
            res.count("db:several-seqids")
        if len(model) != len({(r['seqid'], r['name']) for r in model}):
            res.count("db:shared-names")
        if any(len(r["spans"]) > 1 for r in model):
            res.count("db:multi-span")
        if count_distinct is not None:
            check_one_count_distinct(ctx, db, model, count_distinct)
        elif query is not None:
            check_query(ctx, db, model, query, (fn,), "replay")
        elif final_sweep and rng is not None:
            query_sweep(ctx, db, model, rng, tier, full=True)
    finally:
        shutil.rmtree(tmp, ignore_errors=True)


def run_case(case):
    res = Result()
    kind = case["kind"]
    tier = os.environ.get("VERIF_TIER", "quick")
    if kind == "history":
        # replay of one witness
        run_history(res, case["hist"], random.Random(0) if case.get("sweep") else None, tier, query=case.get("query"), fn=case.get("fn"), final_sweep=bool(case.get("sweep")), count_distinct=case.get("count_distinct"))
        return res
    rng = random.Random(case["seed"])
    if kind == "histories":
        for i in range(case["n"]):
            hist = gen_history(rng, case["cls"], tier)
            run_history(res, hist, rng, tier)
            if i == 0:
                res.sample({"cls": hist["cls"], "steps": [_brief(s) for s in hist["steps"]]})
    elif kind == "directed":
        for hist in gen_directed(rng, case["which"]):
            run_history(res, hist, rng, tier, final_sweep=case["which"] in ("blocks", "gb-files", "gb-mixed"))
    elif kind == "texts":
        # flat-file text -> db, every load route, full query sweep on the loaded db
        cls = {"gff": "Gff", "gb": "Genbank"}[case["fmt"]]
        for i in range(case["n"]):
            hi = rng.choice([10, 16, 30])
            seqids = SEQIDS[: rng.choice([1, 2, 3])]
            st = gen_load_step(rng, cls, seqids, hi, tier, "t")
            if st["via"] == "load_annotations" and st["fmt"] == "gff" and rng.random() < 0.4:
                st["fresh"] = True
                st["write_path"] = rng.random() < 0.5
            hist = {"cls": rng.choice([cls, cls, "Basic"]), "source": "memory", "steps": [st]}
            if rng.random() < 0.4:
                hist["steps"].insert(0, {"op": "add_feature", "recs": [gen_user_rec(rng, seqids, hi) for _ in range(rng.randint(1, 4))]})
            if rng.random() < 0.3:
                hist["steps"].append({"op": rng.choice(PERSIST)})
            run_history(res, hist, rng, tier)
            if i == 0:
                res.sample({"cls": hist["cls"], "text": st.get("text") or st["files"][0]["text"]})
    elif kind == "lattice":
        # dense small dbs, every window pair of the lattice
        cls = case["cls"]
        for i in range(case["n"]):
            hi = rng.choice([6, 8, 10])
            seqids = SEQIDS[: rng.choice([1, 2])]
            hist = {"cls": cls, "source": "memory", "steps": [{"op": "add_feature", "recs": [gen_user_rec(rng, seqids, hi) for _ in range(rng.choice([3, 6, 10, 25]))]}]}
            if cls != "Basic":
                hist["steps"].append(gen_load_step(rng, cls, seqids, hi, tier, "l"))
                hist["steps"][-1]["via"] = "parser-data"
                hist["steps"][-1].pop("lines_per_block", None)
                hist["steps"][-1].pop("seqids", None)
                hist["steps"][-1].pop("splits_a_record", None)
                hist["steps"][-1].pop("layout", None)
            tmp = tempfile.mkdtemp(prefix="c17-", dir=".")
            ctx = Ctx(res, hist, tmp)
            try:
                db = _cls(cls)()
                model = []
                ok = True
                for st in hist["steps"]:
                    ctx.done.append(st)
                    try:
                        db, model = apply_step(ctx, db, model, st)
                        observe(ctx, db, model, st, light=True)
                    except Diverged:
                        ok = False
                        break
                    except Exception as e:  # noqa: BLE001
                        res.evals += 1
                        res.witness(exc_mechanism(f"C17/{op_class(st)}", e), error=repr(e)[:300], replay_case=ctx.replay())
                        ok = False
                        break
                if ok:
                    res.count("db:" + cls)
                    res.count("lattice-dbs")
                    window_sweep(ctx, db, model, rng, 10**6 if len(lattice_of(model)) <= 24 else (400 if tier == "quick" else 1500))
            finally:
                shutil.rmtree(tmp, ignore_errors=True)
    return res


def _brief(step):
    s = {k: v for k, v in step.items() if k in ("op", "via", "style", "fmt", "seqids", "lines_per_block", "observe", "flip", "q", "layout")}
    if "recs" in step:
        s["n_records"] = len(step["recs"])
    if "other" in step:
        s["other"] = step["other"]["cls"]
    return s


def required(counters, tier):
    need = [
        "db:Basic",
        "db:Gff",
        "db:Genbank",
        "db:several-seqids",
        "db:shared-names",
        "db:multi-span",
        "db:file-backed",
        "load:into-file-backed-basic-db",
        "records:0",
        "records:13+",
        "op:add_feature",
        "op:add_records",
        "op:load",
        "op:update",
        "update:seqids",
        "op:union",
        "union:cross-class",
        "op:subset",
        "op:copy",
        "op:deepcopy",
        "op:pickle",
        "op:richdict",
        "op:json",
        "op:write",
        "write:reloaded",
        "step-without-read",
        "write:after-unread-mutation",
        "load:gff:load_annotations",
        "load:gff:parser-data",
        "load:gff:parser-add_records",
        "load:gb:load_annotations",
        "load:gb:parser-data",
        "load:gb:parser-add_records",
        "gff:multi-row",
        "gff:no-id",
        "gff:blocks-split-a-record",
        "gff:seqids-filter",
        "gb:join",
        "gb:complement",
        "gb:partial",
        "gb:single-base",
        "gb:mixed-strand",
        "gb:mixed:complement-first",
        "gb:mixed:complement-last",
        "gb:mixed:complement-middle",
        "gb:mixed:listed-ascending",
        "gb:mixed:listed-descending",
        "gb:mixed:listed-shuffled",
        "query:strand-vs-strandless-record",
        "gb:wrapped",
        "gb:glob",
        "query:get_records_matching",
        "query:get_features_matching",
        "query:num_matches",
        "query:subset",
        "query:count_distinct",
        "sweep:mask",
        "sweep:lattice-pair",
        "sweep:lattice-point",
        "window:window-within",
        "window:window-partial",
        "window:start-only",
        "window:stop-only",
        "window:edge-coincident",
        "refused:union-of-incompatible-classes",
        "refused:update-from-incompatible-class",
    ]
    return [n for n in need if not counters.get(n)]
