"""C19 — file writes are all-or-nothing; interrupted runs resume to the same result.

F  fault enumeration.  Every file-system boundary of one write call is enumerated twice:
   (1) audit-hook failpoints: the k-th FS audit event of the call raises OSError(errno) or ends the process;
   (2) strace attached to the writing process: the k-th openat/write/close/unlink/rename/mkdir/rmdir/... system
       call of the call returns an error or the process gets SIGKILL there.
   After every run the case directory is listed and the destination read back; the oracle is the three-state
   classification old / new / anything else.
   Resume: a harness-defined step ends the process at its k-th execution; the re-run on the same store must end
   with the store of an uninterrupted run and must not execute the step for records that were complete.

Every injected run is its own process (fork of a driver subprocess, see vmon/faults.py); this module only decides.
"""

import base64
import bz2
import gzip
import io
import json
import os
import shutil
import subprocess
import sys
import tempfile
import zipfile

from vmon.core import Result
from vmon.models.c19_apps import APP_WRITERS, FAILS, WRITERS, failpoints_for, targets_for

ID = "C19"
LEVEL = "fault_enumeration"
RULE = (
    "One case = one write call (writer x target kind plain/.gz/.bz2/.zip x destination pre-existing or absent x small "
    "or multi-buffer content). A clean run numbers every file-system boundary of the call: (audit) the FS audit events "
    "open/os.mkdir/tempfile.mkdtemp/os.remove/os.rename/os.rmdir/os.scandir/shutil.rmtree... that concern the case "
    "directory; (strace) the openat/write/close/unlink(at)/rename(at)/mkdir/rmdir/ftruncate system calls between two "
    "sentinel access() calls. Then, per boundary k and per fault in the tier's fault set (quick: EIO, kill; thorough: "
    "EIO, ENOSPC, EACCES, kill), a fresh process runs the same call with the fault delivered at boundary k. "
    "'exhaustive' means: for every case in the run, every numbered boundary was injected with every fault of the "
    "tier's set (a case where that is not so makes the run inconclusive); it does not mean every writer/content. "
    "Formatting failures (unknown format, unserialisable content, failing writer callback) are run un-faulted. "
    "Resume: n input records (n<=4 quick, <=8 thorough; some failing), directory and sqlite stores, the process is "
    "ended at the k-th execution of a step for every k=1..n, then apply_to is run again. "
    "Non-trivial = the boundary lies after the staged file was opened (bytes may be staged); distinct = (injector, "
    "writer, target, pre-existing, stage, boundary class, fault) resp. (store, n, k, failing records before k, "
    "logger). Mechanism names use the coarse stage of the boundary (staging / remove-dest / rename-dest / "
    "write-in-place / after-commit) and the forbidden destination state, never the writer or the boundary number."
)
LEVEL_TEXT = (
    "Every file-system call boundary of each monitored write call is visited once per fault kind, by two independent "
    "injectors (Python audit events; system calls via strace), each in a fresh process, and the directory is "
    "inspected afterwards; every prefix of a serial apply_to run is used as an interruption point. Complete over "
    "the boundaries of the listed calls, sampled over writers' content."
)
LEVEL_NOTE = (
    "trusted: strace's injection fidelity, sys.addaudithook event coverage, os.fork; the 'new' content is what the "
    "un-faulted call wrote; durability after power loss (fsync ordering) is not claimed"
)
TECHNIQUE = "runtime monitoring: fault injection at every enumerated file-system boundary (audit-hook failpoints + strace), kill/resume driver"
ASSUMPTIONS = [
    "new content = bytes written by an un-faulted run of the same call (compared after decompression for .gz/.bz2; as the multiset of member contents for .zip, whose member name is random)",
    "a kill is os._exit(137) inside the audit hook (before the event's call) or SIGKILL on entering the system call; state after the last call equals the un-faulted result",
    "faults delivered after the commit rename concern the removal of the staging directory itself: there the destination must be the new content, left-over entries are counted only",
    "an input whose first run left a not-completed record may or may not be re-executed by the second run; only completed records must not be re-executed",
    "store contents are read back through the store's public read API",
]
EXHAUSTIVE = {"quick": True, "thorough": True}
TIMEOUT = {"quick": 900, "thorough": 7200}

FAULTS = {"quick": ["EIO", "kill"], "thorough": ["EIO", "ENOSPC", "EACCES", "kill"]}
FIRST_FAULTS = {"quick": ["EIO"], "thorough": ["EIO", "EXDEV"]}
FAMILIES = ["seqs", "tree", "table", "dictarray", "treecollection"]
DESTDIR_WRITERS = {
    "quick": ["aln-fasta", "sc-json", "nsc-phylip", "tree-nwk", "tree-json", "table-tsv", "table-pickle", "da-tsv", "tc-trees"],
}

QUICK_AUDIT = [
    "aln-fasta", "arr-phylip", "sc-json", "nsc-fasta", "aln-gde", "arr-paml", "tree-nwk", "tree-json", "tree-xml",
    "table-tsv", "table-pickle", "table-json", "table-rst", "da-tsv", "tc-trees",
]  # fmt: skip
QUICK_STRACE = [("aln-fasta", "plain"), ("aln-fasta", "gz"), ("table-tsv", "plain"), ("tree-nwk", "plain"), ("sc-json", "zip"), ("da-tsv", "bz2")]


def _chunks(seq, n):
    return [seq[i : i + n] for i in range(0, len(seq), n)]


def gen_cases(rng, tier):
    faults = FAULTS[tier]
    audit_ops, strace_ops = [], []
    writers = sorted(WRITERS)
    if tier == "quick":
        chosen = list(QUICK_AUDIT) + rng.sample([w for w in writers if w not in QUICK_AUDIT], 2)
    else:
        chosen = writers
    for w in chosen:
        for t in targets_for(w):
            for pre in (True, False):
                size = "large" if (tier == "thorough" or rng.random() < 0.3) and pre else "small"
                op = {"writer": w, "target": t, "pre": pre, "size": size, "injector": "audit", "faults": faults}
                if tier == "thorough" or rng.random() < 0.2:
                    op["two_fault"] = FIRST_FAULTS[tier]
                audit_ops.append(op)
                if tier == "thorough" and pre:
                    audit_ops.append({"writer": w, "target": t, "pre": pre, "size": "small", "injector": "audit", "faults": faults})
    if tier == "quick":
        pairs = list(QUICK_STRACE)
        extra = [(w, t) for w in writers for t in targets_for(w) if (w, t) not in pairs]
        pairs += rng.sample(extra, 4)
    else:
        pairs = [(w, t) for w in writers for t in targets_for(w)]
    for w, t in pairs:
        for pre in (True, False):
            size = "large" if pre and (tier == "thorough" or rng.random() < 0.5) else "small"
            strace_ops.append({"writer": w, "target": t, "pre": pre, "size": size, "injector": "strace", "faults": faults, "two_fault": FIRST_FAULTS[tier]})
    fail_ops = []
    for f in sorted(FAILS):
        tg = ["plain"] if f == "table-pickle-compressed" else ["plain", "gz", "zip"]
        if FAILS[f] == "table":
            tg = [t for t in tg if t != "zip"]
        for t in tg:
            for pre in (True, False):
                fail_ops.append({"fail": f, "target": t, "pre": pre, "injector": "none"})
    # the destination path is an existing directory (empty / non-empty): handled-failure class, every family
    for w in DESTDIR_WRITERS["quick"] if tier == "quick" else writers:
        for t in targets_for(w):
            if tier == "quick" and t == "bz2":
                continue
            for dd in ("empty", "nonempty"):
                fail_ops.append({"writer": w, "target": t, "destdir": dd, "injector": "none"})
    # the formatter / serialiser the write route calls raises (harness failpoint), every writer route
    fp_ops = []
    for w in writers:
        for t in targets_for(w):
            for pre in (True, False):
                for fp in failpoints_for(w):
                    fp_ops.append({"writer": w, "target": t, "pre": pre, "failpoint": fp, "injector": "none"})
    for a in sorted(APP_WRITERS):
        for pre in (True, False):
            fp_ops.append({"app": a, "pre": pre, "failpoint": "formatter", "injector": "none"})
    cases = []
    rng.shuffle(audit_ops)
    rng.shuffle(strace_ops)
    for ch in _chunks(audit_ops, 8 if tier == "quick" else 10):
        cases.append({"kind": "inject", "ops": ch})
    for ch in _chunks(strace_ops, 2 if tier == "quick" else 3):
        cases.append({"kind": "inject", "ops": ch})
    plain_ops = fail_ops + fp_ops  # un-faulted single runs: cheap, so large batches (one library import each)
    for ch in _chunks(plain_ops, 130 if tier == "quick" else 200):
        cases.append({"kind": "inject", "ops": ch})
    # resume
    maxn = 4 if tier == "quick" else 8
    rcases = []
    for store in ("dir", "sqlite"):
        for n in range(1, maxn + 1):
            for variant in range(1 if tier == "quick" else 3):
                nbad = 0 if variant == 0 and n % 2 else rng.randint(0, min(2, n - 1))
                bad = set(rng.sample(range(n), nbad))
                ids = [f"{'bad' if i in bad else 'rec'}{i:02d}" for i in range(n)]
                rcases.append({"ids": ids, "store": store, "logger": bool((n + variant) % 2), "kills": list(range(1, n + 1))})
        # processing order fixed by the harness: the failing records come last, so that for late interruption points
        # everything the second run still has to do fails; plus an interruption right after the last record was stored
        # (before apply_to finishes), so that the second run has nothing left to do
        for n in range(2, maxn + 1):
            if tier == "quick" and n > 3:
                continue
            for nbad in sorted({0, 1, n - 1}) if tier == "thorough" else ([0] if n == 2 else [1, 2]):
                ids = [f"rec{i:02d}" for i in range(n - nbad)] + [f"bad{i:02d}" for i in range(n - nbad, n)]
                rcases.append({"ids": ids, "store": store, "logger": bool((n + nbad) % 2), "ordered": True,
                               "kills": list(range(1, n + 1)), "kills_after_write": [n]})  # fmt: skip
        # (a) two not-completed records from the first run: one always fails, one failed transiently (succeeds when
        #     run again) and comes after it; (b) second run with mode "w": a fresh store object on the same path after
        #     a kill / after a clean run on a prefix of the inputs; (c) the same app and store object (mode "w") used
        #     for a prefix of the inputs and then for all of them
        sizes = [4] if tier == "quick" else [3, 4, 6]
        for n in sizes:
            extra = [f"rec{i:02d}" for i in range(2, n)]
            allk = list(range(1, n + 1))
            late = [k for k in allk if k >= 3]
            ids_t = ["bad00", "flaky01"] + extra
            rcases.append({"ids": ids_t, "store": store, "logger": bool(n % 2), "ordered": True, "kills": late, "kills_after_write": [n]})
            ids_w = (["rec00", "rec01", "bad02"] + [f"rec{i:02d}" for i in range(3, n)])[:n]
            parts = [p for p in range(1, n)] if tier == "thorough" else [2, 3]
            rcases.append({"ids": ids_w, "store": store, "logger": False, "ordered": True, "first_mode": "w", "second_mode": "w",
                           "kills": [2, 3] if tier == "quick" else allk, "partials": parts})  # fmt: skip
            ids_r = ["rec00", "bad01", "flaky02"] + [f"rec{i:02d}" for i in range(3, n)]
            rcases.append({"ids": ids_r[:n], "store": store, "logger": bool((n + 1) % 2), "ordered": True, "first_mode": "w", "second_mode": "w",
                           "reuse": True, "kills": [], "partials": [1, 3] if tier == "quick" else [p for p in range(1, n)]})  # fmt: skip
            rcases.append({"ids": ids_t, "store": store, "logger": False, "ordered": True, "second_mode": "a",
                           "reuse": True, "kills": [], "partials": [2] if tier == "quick" else [p for p in range(1, n)]})  # fmt: skip
    rng.shuffle(rcases)
    for ch in _chunks(rcases, 4):
        cases.append({"kind": "resume", "cases": ch})
    return cases


# ---------------------------------------------------------------------------
# running a driver subprocess


def _driver(argv_tail, spec, timeout):
    d = tempfile.mkdtemp(dir=os.getcwd(), prefix="c19-")
    try:
        sp = os.path.join(d, "spec.json")
        op = os.path.join(d, "out.json")
        with open(sp, "w") as f:
            json.dump(spec, f)
        env = dict(os.environ)
        env["PYTHONWARNINGS"] = "ignore"
        p = subprocess.run(
            [sys.executable] + argv_tail + [sp, op], cwd=d, env=env, timeout=timeout, stdout=subprocess.PIPE, stderr=subprocess.STDOUT
        )
        if p.returncode != 0 or not os.path.exists(op):
            raise RuntimeError(f"C19 driver failed (exit {p.returncode}): {p.stdout.decode(errors='replace')[-1500:]}")
        with open(op) as f:
            return json.load(f)
    finally:
        shutil.rmtree(d, ignore_errors=True)


# ---------------------------------------------------------------------------
# oracle: three-state classification of the destination


def canon(target, raw):
    """content the file stands for, or None when it is not a whole file of its kind"""
    try:
        if target == "plain":
            return raw
        if target == "gz":
            return gzip.decompress(raw)
        if target == "bz2":
            return bz2.decompress(raw)
        if target == "zip":
            with zipfile.ZipFile(io.BytesIO(raw)) as z:
                if z.testzip() is not None:
                    return None
                return tuple(sorted(z.read(n) for n in z.namelist()))
    except Exception:  # noqa: BLE001
        return None
    return None


class Case:
    """what is known about one op before any fault: old bytes, new bytes, entries present before"""

    def __init__(self, r, blobs):
        self.r = r
        self.blobs = blobs
        self.desc = r["desc"]
        self.dest = r["dest"]
        self.target = _target_of(self.dest)
        self.before = r["before"]
        self.pre = self.dest in self.before
        self.old_raw = self._raw(self.before.get(self.dest))
        self.new_raw = None
        self.new_canon = None

    def _raw(self, ref):
        if isinstance(ref, int):
            return base64.b64decode(self.blobs[ref])
        return None

    def set_new(self, after):
        self.new_raw = self._raw(after.get(self.dest))
        self.new_canon = canon(self.target, self.new_raw) if self.new_raw is not None else None

    def state(self, after):
        """'absent' | 'old' | 'new' | 'partial' for the destination in a directory snapshot"""
        if self.dest not in after:
            return "absent"
        ref = after[self.dest]
        if not isinstance(ref, int):
            return "partial"
        raw = self._raw(ref)
        if self.pre and raw == self.old_raw:
            return "old"
        if self.new_canon is not None:
            c = canon(self.target, raw)
            if c is not None and c == self.new_canon:
                return "new"
        return "partial"

    def extras(self, after):
        return sorted(k for k in after if k != self.dest and k not in self.before)

    @property
    def untouched(self):
        return "old" if self.pre else "absent"


def _target_of(dest):
    for t in ("gz", "bz2", "zip"):
        if dest.endswith("." + t):
            return t
    return "plain"


def outcome_name(case, st):
    """name of a destination state that is not allowed"""
    if st == "absent":
        return "destination-lost"
    if st == "partial":
        return "destination-partial"
    if st == "new":
        return "destination-written-although-call-failed"
    if st == "old":
        return "destination-not-written"
    return st


# ---------------------------------------------------------------------------
# boundary classes

_AUDIT_NAMES = {
    "tempfile.mkdtemp": "mkdtemp", "tempfile.mkstemp": "mkstemp", "os.mkdir": "mkdir", "os.remove": "remove",
    "os.rename": "rename", "os.rmdir": "rmdir", "shutil.rmtree": "rmtree", "os.scandir": "scandir",
    "os.listdir": "listdir", "os.truncate": "truncate", "os.link": "link", "shutil.move": "move",
}  # fmt: skip


def audit_phase(ev, dest):
    name = ev[0]
    args = ev[1:]
    dpath = "<DIR>/" + dest
    short = _AUDIT_NAMES.get(name, name.replace(".", "-"))
    if name in ("os.rename", "os.link", "shutil.move"):
        tgt = args[1] if len(args) > 1 else None
        return short + ("-dest" if tgt == dpath else "-temp")
    path = args[0] if args else None
    if name == "open":
        mode, flags = (args + [None, None])[1:3]
        writing = (isinstance(mode, str) and any(c in mode for c in "wax+")) or (
            isinstance(flags, int) and flags & (os.O_WRONLY | os.O_RDWR)
        )
        if isinstance(flags, int) and flags & os.O_DIRECTORY:
            return "open-dir"
        if not writing:
            return "open-read-dest" if path == dpath else "open-read"
        return "open-dest" if path == dpath else "open-temp"
    if path == dpath:
        return short + "-dest"
    if name in ("os.remove",):
        return short + "-temp"
    return short


def stage_of(phase, k, commit):
    """coarse position of a boundary in the write: the mechanism names use this, the signatures the fine class"""
    if commit is not None and k > commit:
        return "after-commit"
    if phase in ("remove-dest", "rename-dest", "link-dest", "move-dest"):
        return phase
    if phase.endswith("-dest") and not phase.startswith("open-read"):
        return "write-in-place"
    return "staging"


def audit_commit_index(events, dest):
    dpath = "<DIR>/" + dest
    c = None
    for i, ev in enumerate(events):
        if ev[0] in ("os.rename", "os.link", "shutil.move") and len(ev) > 2 and ev[2] == dpath:
            c = i + 1  # boundaries are numbered from 1
    return c


def _quoted(argtext):
    import re

    return re.findall(r'"((?:[^"\\]|\\.)*)"', argtext)


_FD_CALLS = {
    "write": "write", "writev": "write", "pwrite64": "write", "pwritev": "write", "pwritev2": "write",
    "sendfile": "write", "copy_file_range": "write", "close": "close", "ftruncate": "truncate",
    "fallocate": "truncate", "fsync": "sync", "fdatasync": "sync", "fchmod": "chmod",
}  # fmt: skip


def strace_phases(calls, dest):
    """phase name per call of the clean trace, and the index (0-based) of the commit rename"""
    dpath = "<DIR>/" + dest
    fds = {}
    phases = []
    commit = None
    for i, (name, argtext, ret) in enumerate(calls):
        paths = _quoted(argtext)
        if name in ("openat", "open", "creat"):
            p = paths[0] if paths else None
            try:
                fd = int(ret)
            except ValueError:
                fd = -1
            if "O_DIRECTORY" in argtext:
                ph = "open-dir"
                kind = "dir"
            elif "O_WRONLY" in argtext or "O_RDWR" in argtext or name == "creat":
                kind = "dest" if p == dpath else "temp"
                ph = "open-" + kind
            else:
                kind = "read"
                ph = "open-read-dest" if p == dpath else "open-read"
            if fd >= 0:
                fds[fd] = kind
        elif name in _FD_CALLS:
            try:
                fd = int(argtext.split(",")[2 if name == "copy_file_range" else 0].strip())
            except (ValueError, IndexError):
                fd = -1
            kind = fds.get(fd, "other")
            base = _FD_CALLS[name]
            ph = f"{base}-{kind}"
            if name == "close":
                fds.pop(fd, None)
        elif name in ("unlink", "unlinkat"):
            p = paths[0] if paths else None
            if "AT_REMOVEDIR" in argtext:
                ph = "rmdir"
            else:
                ph = "remove-dest" if p == dpath else "remove-temp"
        elif name in ("rename", "renameat", "renameat2", "link", "linkat"):
            tgt = paths[-1] if paths else None
            base = "rename" if name.startswith("rename") else "link"
            ph = base + ("-dest" if tgt == dpath else "-temp")
            if tgt == dpath:
                commit = i
        elif name in ("mkdir", "mkdirat"):
            ph = "mkdir"
        elif name == "rmdir":
            ph = "rmdir"
        elif name == "truncate":
            ph = "truncate-dest" if (paths and paths[0] == dpath) else "truncate-temp"
        else:
            ph = name
        phases.append(ph)
    return phases, commit


# ---------------------------------------------------------------------------
# deciding one op


def _family(desc):
    if desc.get("app"):
        return "appwriter"
    if desc.get("fail"):
        return FAILS[desc["fail"]]
    return WRITERS[desc["writer"]][0]


def _label(desc):
    return desc.get("writer") or desc.get("fail") or desc.get("app")


def decide_op(res, r, blobs):
    desc = r["desc"]
    case = Case(r, blobs)
    inj = r["injector"]
    fam = _family(desc)
    clean = r["clean"]
    rep = clean.get("report")
    replay = {"kind": "inject", "ops": [desc]}
    base_detail = dict(op=desc, destination=case.dest, replay_case=replay)
    if clean.get("attach_failed"):
        raise RuntimeError("strace could not attach: " + str(clean["attach_failed"]))
    if rep is None or clean["status"] != {"exit": 0}:
        raise RuntimeError(f"clean run of {desc} ended abnormally: {clean['status']}")
    after = clean["after"]

    if desc.get("failpoint"):
        # the formatter the write route calls raised: the original exception reaches the caller (a writer app reports
        # a NotCompleted instead), and the complete directory listing, with every file's bytes, is what it was
        res.evals += 1
        res.count("formatter-failpoint:cases")
        res.count(f"formatter-failpoint:{fam}")
        target = desc.get("target", "store")
        res.sig("formatter-failpoint", _label(desc), target, bool(desc.get("pre")), desc["failpoint"])
        before = r["before"]
        exc = rep["exc"] or {}
        if exc.get("type") == "FailpointNotReached":
            raise RuntimeError(f"failpoint not reached: {exc.get('msg')}")
        if rep["returned"]:
            res.witness(f"C19/formatter-failpoint/{fam}/write-reported-success", entries_after=sorted(after), **base_detail)
            return
        want = "ReportedNotCompleted" if desc.get("app") else "FailpointError"
        if exc.get("type") != want:
            res.witness(f"C19/formatter-failpoint/{fam}/exception-replaced", exception=exc, expected=want, **base_detail)
        changed = sorted(k for k in before if k in after and after[k] != before[k])
        gone = sorted(k for k in before if k not in after)
        new = sorted(k for k in after if k not in before)
        if changed or gone:
            res.witness(f"C19/formatter-failpoint/{fam}/{'destination-lost' if case.dest in gone else 'existing-entries-changed'}",
                        exception=exc, changed=changed, removed=gone, **base_detail)  # fmt: skip
        if new:
            res.witness(f"C19/formatter-failpoint/{fam}/temp-left-behind", exception=exc, left_behind=new, **base_detail)
        return

    if desc.get("destdir"):
        # the destination path is an existing directory: the write cannot complete, so it is a handled failure:
        # an exception reaches the caller and the directory tree is exactly what it was
        res.evals += 1
        res.count("dest-is-directory:cases")
        res.count(f"dest-is-directory:{fam}")
        res.sig("dest-is-directory", _label(desc), case.target, desc["destdir"])
        before = r["before"]
        if rep["returned"]:
            res.witness(f"C19/dest-is-directory/{fam}/write-reported-success", entries_before=sorted(before), entries_after=sorted(after), **base_detail)
            return
        inside = sorted(k for k in set(after) | set(before) if (k == case.dest or k.startswith(case.dest + "/")) and after.get(k) != before.get(k))
        beside = sorted(k for k in after if k not in before and not (k == case.dest or k.startswith(case.dest + "/")))
        if inside:
            res.witness(f"C19/dest-is-directory/{fam}/directory-changed", exception=rep["exc"], changed=inside, **base_detail)
        if beside:
            res.witness(f"C19/dest-is-directory/{fam}/temp-left-behind", exception=rep["exc"], left_behind=beside, **base_detail)
        return

    if not rep["returned"]:
        # the call failed on its own: the handled-failure class
        cls = "format-failure" if desc.get("fail") else "refused-write"
        res.evals += 1
        res.count(f"{cls}:cases")
        res.count(f"{cls}:{fam}")
        if not desc.get("fail"):
            res.refused += 1
        st = case.state(after) if case.pre else ("absent" if case.dest not in after else "partial")
        extras = case.extras(after)
        res.sig(cls, _label(desc), case.target, case.pre)
        exc = rep["exc"]
        if st != case.untouched:
            res.witness(f"C19/{cls}/{fam}/{outcome_name(case, st) if st != 'partial' else 'destination-changed'}",
                        exception=exc, destination_state=st, expected=case.untouched, entries_after=sorted(after), **base_detail)  # fmt: skip
        if extras:
            res.witness(f"C19/{cls}/{fam}/temp-left-behind", exception=exc, left_behind=extras, **base_detail)
        return
    if desc.get("fail"):
        # the provoked failure did not happen: the call completed, so it must have written something whole
        res.evals += 1
        res.count("format-failure:completed-instead")
        if case.dest not in after or case.extras(after):
            res.witness(f"C19/completed/{fam}/destination-missing-or-temp-left", entries_after=sorted(after), **base_detail)
        return

    case.set_new(after)
    res.evals += 1
    res.count(f"clean:{inj}")
    if case.new_canon is None or case.state(after) != "new" or (case.pre and case.new_raw == case.old_raw):
        res.witness(f"C19/clean/{fam}/destination-not-whole", entries_after=sorted(after), **base_detail)
        return
    if case.extras(after):
        res.count("clean:entries-left-after-success")

    key = f"{inj}:{_label(desc)}:{case.target}"
    if inj == "audit":
        events = rep["events"]
        phases = [audit_phase(ev, case.dest) for ev in events]
        commit = audit_commit_index(events, case.dest)  # 1-based boundary number of the commit, or None
        staged = next((i + 1 for i, p in enumerate(phases) if p in ("open-temp", "open-dest")), None)
        nb = len(events)
    else:
        calls = clean["calls"]
        phases, c0 = strace_phases(calls, case.dest)
        commit = None if c0 is None else c0 + 1
        staged = next((i + 1 for i, p in enumerate(phases) if p in ("open-temp", "open-dest")), None)
        nb = len(calls)
    res.count(f"boundaries:{inj}", nb)
    res.count(f"boundaries:{inj}:{fam}:{case.target}", nb)
    if commit is None:
        res.count("no-commit-rename-seen")
    expected_runs = 1 if desc.get("only") else nb * len(desc["faults"])
    done = 0
    for run in r["runs"]:
        k = run["k"] if inj == "audit" else run["pos"] + 1
        fault = run["fault"]
        phase = phases[k - 1]
        fine = phase
        phase_name = stage_of(phase, k, commit)
        status = run["status"]
        rrep = run.get("report")
        after = run.get("after")
        detail = dict(base_detail, replay_case={"kind": "inject", "ops": [dict(desc, only=[k, fault])]}, boundary=k, of=nb, stage=phase_name, boundary_class=fine, fault=fault, injector=inj,
                      boundary_event=(rep["events"][k - 1] if inj == "audit" else clean["calls"][k - 1]),
                      commit_boundary=commit)  # fmt: skip
        if run.get("attach_failed"):
            res.count("strace:attach-failed")
            continue
        if run.get("attempts", 1) > 1:
            res.count("strace:runs-repeated")
        # was the fault delivered?
        if inj == "strace":
            if not run.get("prefix_same") or run.get("calls_before_sentinel"):
                res.count("strace:prefix-mismatch")
                continue
            delivered = run["killed"] if fault == "kill" else bool(run["injected_at"])
            if fault != "kill" and run["injected_at"] and run["injected_at"][0] != k - 1:
                res.count("strace:prefix-mismatch")
                continue
        else:
            delivered = (status == {"exit": 137}) if fault == "kill" else bool(rrep and rrep.get("delivered"))
        if not delivered:
            res.count(f"{inj}:undelivered")
            continue
        done += 1
        res.count(f"delivered:{inj}:{'kill' if fault == 'kill' else 'error'}")
        res.evals += 1
        st = case.state(after)
        extras = case.extras(after)
        detail.update(destination_state=st, entries_after=sorted(after))
        nontrivial = staged is not None and k > staged
        if nontrivial:
            res.sig(inj, _label(desc), case.target, case.pre, phase_name, fine, fault)

        if fault == "kill":
            dead = status == {"exit": 137} or status == {"signal": 9}
            if not dead:
                res.witness(f"C19/kill/{phase_name}/process-survived", status=status, **detail)
                continue
            res.count("kill:runs")
            if extras:
                res.count("kill:stray-entries-left")
            if st not in (case.untouched, "new"):
                res.witness(f"C19/kill/{phase_name}/{outcome_name(case, st)}", **detail)
            continue

        if status != {"exit": 0} or rrep is None or "garbled" in rrep:
            res.witness(f"C19/oserror/{phase_name}/abnormal-termination", status=status, **detail)
            continue
        if rrep["returned"]:
            # the injected error did not reach the caller: the call claims success
            res.count("oserror:swallowed")
            if extras:
                res.count("oserror:swallowed-with-entries-left")
            if st != "new":
                res.witness(f"C19/returned-normally/{phase_name}/{outcome_name(case, st)}", **detail)
            continue
        # handled failure: an exception reached the caller
        res.count("oserror:propagated")
        detail["exception"] = rrep["exc"]
        if commit is not None and k > commit:
            # the commit happened; what failed is the removal of the staging directory
            res.count("oserror:after-commit")
            if extras:
                res.count("oserror:after-commit-entries-left")
            if st != "new":
                res.witness(f"C19/oserror/{phase_name}/{outcome_name(case, st)}", **detail)
            continue
        if st != case.untouched:
            res.witness(f"C19/oserror/{phase_name}/{outcome_name(case, st)}", expected=case.untouched, **detail)
        if extras:
            res.witness(f"C19/oserror/{phase_name}/temp-left-behind", left_behind=extras, **detail)
    if r.get("two_fault"):
        decide_two_fault(res, r, case, inj, fam, commit, base_detail)
    if done == expected_runs:
        res.count("cases-complete")
        res.count(f"exhaustive:{fam}:{case.target}:{inj}")
    else:
        res.count("cases-incomplete")
    res.sample({"op": desc, "boundaries": nb, "classes": phases, "commit_boundary": commit})


def decide_two_fault(res, r, case, inj, fam, commit, base_detail):
    """first fault = OSError at the commit boundary; second = kill / OSError at each boundary that follows in that run"""
    desc = r["desc"]
    for block in r["two_fault"]:
        c, e1 = block["first"]
        if commit is None or c != commit:
            raise RuntimeError(f"two-fault first boundary {c} is not the commit boundary {commit} for {desc}")
        if block.get("record_failed") or "record" not in block:
            res.count("two-fault:record-failed")
            continue
        rec = block["record"]
        rrep = rec["report"]
        if rrep is None:
            res.count("two-fault:record-failed")
            continue
        first_raised = not rrep["returned"]
        res.count(f"two-fault:blocks:{inj}")
        if inj == "audit":
            events = rrep["events"]
            phases = [audit_phase(ev, case.dest) for ev in events]
        else:
            events = rec["calls"]
            phases, _ = strace_phases(events, case.dest)
        nb2 = block.get("boundaries", 0)
        res.count(f"two-fault:boundaries:{inj}", nb2)
        done = skipped = 0
        for run in block["runs"]:
            if run.get("skipped"):
                skipped += 1
                res.count("two-fault:strace-same-syscall-skipped")
                continue
            k2 = run["k2"] if inj == "audit" else run["pos2"] + 1
            f2 = run["fault2"]
            fine = phases[k2 - 1]
            status, rep2, after = run["status"], run.get("report"), run.get("after")
            if run.get("attach_failed"):
                res.count("strace:attach-failed")
                continue
            if inj == "strace":
                if not run.get("consistent"):
                    res.count("strace:prefix-mismatch")
                    continue
                delivered = True
            else:
                delivered = (status == {"exit": 137}) if f2 == "kill" else bool(rep2 and rep2.get("delivered2"))
            if not delivered:
                res.count(f"{inj}:undelivered")
                continue
            done += 1
            res.evals += 1
            res.count(f"two-fault:delivered:{inj}:{'kill' if f2 == 'kill' else 'error'}")
            st = case.state(after)
            extras = case.extras(after)
            res.sig("two-fault", inj, _label(desc), case.target, case.pre, e1, fine, f2)
            detail = dict(base_detail, injector=inj, first_fault={"boundary": c, "errno": e1, "event": events[c - 1]},
                          second_fault={"boundary": k2, "fault": f2, "class": fine, "event": events[k2 - 1]},
                          call_fails_with_first_fault_alone=first_raised, destination_state=st, entries_after=sorted(after))  # fmt: skip
            if f2 == "kill":
                if status not in ({"exit": 137}, {"signal": 9}):
                    res.witness("C19/two-fault/kill/process-survived", status=status, **detail)
                elif st not in (case.untouched, "new"):
                    res.witness(f"C19/two-fault/kill/{outcome_name(case, st)}", **detail)
                continue
            if status != {"exit": 0} or rep2 is None or "garbled" in rep2:
                res.witness("C19/two-fault/oserror/abnormal-termination", status=status, **detail)
                continue
            if rep2["returned"]:
                if st != "new":
                    res.witness(f"C19/two-fault/returned-normally/{outcome_name(case, st)}", **detail)
                continue
            detail["exception"] = rep2["exc"]
            if st != case.untouched:
                res.witness(f"C19/two-fault/oserror/{outcome_name(case, st)}", expected=case.untouched, **detail)
            if extras:
                if not fine.endswith("-dest"):
                    # after the failed commit the call only removes its staging directory; a second fault on a
                    # boundary that concerns the staging entries (not the destination) hits that removal itself
                    res.count("two-fault:cleanup-fault-entries-left")
                else:
                    res.witness("C19/two-fault/oserror/temp-left-behind", left_behind=extras, **detail)
        if done + skipped == nb2 * len(desc["faults"]):
            res.count("two-fault:blocks-complete")
        else:
            res.count("cases-incomplete")


# ---------------------------------------------------------------------------
# resume


def _rid(name):
    b = os.path.basename(name)
    for sfx in (".fasta", ".json", ".txt"):
        if b.endswith(sfx):
            b = b[: -len(sfx)]
    return b


def _kind_of(name):
    return "completed" if name.startswith("rec") or name.startswith("flaky") else "not_completed"


def decide_resume(res, rec):
    case = rec["case"]
    store = case["store"]
    ids = case["ids"]
    n = len(ids)
    mode2 = case.get("second_mode", "a")
    replay = {"kind": "resume", "cases": [case]}
    if rec["ref_status"] != {"exit": 0}:
        res.evals += 1
        exc = rec.get("ref_exc") or {}
        res.witness(f"C19/resume/{store}/uninterrupted-run-fails/raises-{exc.get('type')}", status=rec["ref_status"], exc=exc, replay_case=replay)
        return
    ref = [[_rid(i), k, c, ok] for i, k, c, ok in rec["ref_store"]]
    order = [_rid(x) for x in rec["ref_order"]]
    res.evals += 1
    # the uninterrupted run has no transient fault: 'flaky' inputs complete, 'bad' inputs never do
    exp_kinds = {i: _kind_of(i) for i in ids}
    if sorted(order) != sorted(ids) or {i: k for i, k, _, _ in ref} != exp_kinds or not all(ok for *_, ok in ref):
        res.witness(f"C19/resume/{store}/uninterrupted-run-incomplete", executed=order, store=[(i, k) for i, k, _, _ in ref], replay_case=replay)
        return
    if case.get("ordered") and order != ids:
        raise RuntimeError(f"ordered inputs were processed in another order: {order} vs {ids}")
    rl = rec.get("ref_listing")
    if rl is not None:
        res.evals += 1
        got = sorted([_rid(i), "completed"] for i in rl["completed"]) + sorted([_rid(i), "not_completed"] for i in rl["not_completed"])
        if sorted(got) != sorted([i, k] for i, k, _, _ in ref):
            res.witness(f"C19/resume/{store}/returned-store-listing-differs-from-disk/uninterrupted-run", returned=rl, on_disk=[(i, k) for i, k, _, _ in ref], replay_case=replay)
    for run in rec["runs"]:
        kw = run.get("after_write")
        part = run.get("partial")
        ex1 = [_rid(x) for x in run["first_executed"]]
        # k = 1 + number of step executions that finished in the first run
        if part is not None:
            k = part + 1
        elif kw is not None:
            k = len(ex1) + 1
        else:
            k = run["k"]
        res.evals += 1
        res.count("resume:prefixes")
        res.count(f"resume:{store}")
        variant = ("reuse-object" if run.get("reuse") else "fresh-object") + "-mode-" + mode2
        res.count(f"resume:{variant}")
        only = dict(case, kills=[], kills_after_write=[], partials=[])
        if part is not None:
            only["partials"] = [part]
        elif kw is not None:
            only["kills_after_write"] = [kw]
        else:
            only["kills"] = [run["k"]]
        detail = dict(inputs=ids, store=store, second_run=variant, kill_at_execution=run["k"], kill_after_stored_record=kw,
                      first_run_on_first_n_inputs=part, first_executed=run["first_executed"], second_executed=run["second_executed"],
                      replay_case={"kind": "resume", "cases": [only]})  # fmt: skip
        nbad_before = sum(1 for i in ex1[: k - 1] if not i.startswith("rec"))
        how = "partial" if part is not None else ("after-write" if kw else "at-step")
        res.sig("resume", store, n, k, nbad_before, case.get("logger"), how, variant)
        if part is not None:
            ok1 = run["first_status"] == {"exit": 0} and ex1 == ids[:part]
        else:
            ok1 = run["first_status"] == {"exit": 9} and len(ex1) == (k if kw is None else kw)
        if not ok1:
            res.witness(f"C19/resume/{store}/interruption-not-at-kth-record", first_status=run["first_status"], first_exc=run.get("first_exc"), **detail)
            continue
        if "store_after_kill" not in run:
            res.witness(f"C19/resume/{store}/store-unreadable-after-kill", error=run.get("store_after_kill_error"), **detail)
            continue
        mid = [[_rid(i), kd, c, ok] for i, kd, c, ok in run["store_after_kill"]]
        done1 = {i for i, kd, _, _ in mid if kd == "completed"}
        nc1 = {i for i, kd, _, _ in mid if kd == "not_completed"}
        any1 = done1 | nc1
        res.count("resume:records-before-kill", len(mid))
        if any1 != set(ex1[: k - 1]):
            # observation about the driver (dies after exactly k-1 records), not the property
            res.count("resume:records-before-kill-differ-from-k-1")
        if run["second_status"] != {"exit": 0}:
            exc = run.get("second_exc") or {}
            if store == "sqlite" and mode2 == "w" and exc.get("type") == "OSError" and "locked" in (exc.get("msg") or "") and part is None:
                # documented refusal: a killed process leaves its lock and mode 'w' does not take over a locked db
                res.refused += 1
                res.count("resume:refused-overwrite-of-locked-db")
                continue
            res.witness(f"C19/resume/{store}/second-run-fails/raises-{exc.get('type')}", second_status=run["second_status"], second_exc=exc, **detail)
            continue
        if "store_final" not in run:
            res.witness(f"C19/resume/{store}/store-unreadable-after-resume", error=run.get("store_final_error"), **detail)
            continue
        ex2 = [_rid(x) for x in run["second_executed"]]
        if len(set(ex2)) != len(ex2):
            res.witness(f"C19/resume/{store}/record-executed-twice-in-second-run", **detail)
        again = sorted(set(ex2) & done1)
        if again:
            res.witness(f"C19/resume/{store}/completed-record-reprocessed", reprocessed=again, **detail)
        missing = set(ids) - any1
        if not missing <= set(ex2):
            res.witness(f"C19/resume/{store}/missing-record-not-processed", not_processed=sorted(missing - set(ex2)), **detail)
        # expected final store: the uninterrupted one; an input that only has a not-completed record from the first
        # run may or may not be attempted again (G): if it was not, that record must still be there unchanged
        kept = {i for i in nc1 if i not in ex2}
        expected = [e for e in ref if e[0] not in kept] + [e for e in mid if e[0] in kept]
        retried = sorted(i for i in nc1 if i in ex2)
        if retried:
            res.count("resume:not-completed-retried", len(retried))
        if kept:
            res.count("resume:not-completed-kept", len(kept))
        if len(nc1) >= 2 and any(i.startswith("flaky") for i in nc1) and any(i.startswith("bad") for i in nc1):
            bad_first = min(ids.index(i) for i in nc1 if i.startswith("bad")) < max(ids.index(i) for i in nc1 if i.startswith("flaky"))
            if bad_first:
                res.count("resume:transient-after-always-failing")
        fin = sorted([_rid(i), kd, c, ok] for i, kd, c, ok in run["store_final"])
        if fin != sorted(expected):
            fi = {(i, kd) for i, kd, _, _ in fin}
            ri = {(i, kd) for i, kd, _, _ in expected}
            if len({i for i, _ in fi}) != len(fi):
                cls = "id-both-completed-and-not-completed"
            elif len(fin) != len(fi):
                cls = "duplicate-members"
            elif fi - ri and {i for i, _ in fi} == {i for i, _ in ri}:
                cls = "record-kind-differs"
            elif ri - fi:
                cls = "records-missing"
            elif fi - ri:
                cls = "extra-records"
            elif any(not ok for *_, ok in fin):
                cls = "md5-mismatch"
            else:
                cls = "content-differs"
            res.witness(f"C19/resume/{store}/final-store-differs/{cls}", final=[(i, kd) for i, kd, _, _ in fin], expected=[(i, kd) for i, kd, _, _ in expected], **detail)  # fmt: skip
        # the store object the second apply_to returned must list what is on disk
        lst = run.get("returned_listing")
        if lst is not None:
            res.count("resume:returned-listing-compared")
            got = sorted([_rid(i), "completed"] for i in lst["completed"]) + sorted([_rid(i), "not_completed"] for i in lst["not_completed"])
            disk = sorted([i, kd] for i, kd, _, _ in fin)
            if sorted(got) != disk:
                res.witness(f"C19/resume/{store}/returned-store-listing-differs-from-disk/{variant}", returned=lst, on_disk=disk, **detail)
        else:
            res.witness(f"C19/resume/{store}/second-run-returned-no-store", **detail)
        # what the second run had to do
        left = [i for i in ids if i not in done1]
        if not (set(ids) - any1):
            res.count("resume:second-run-nothing-left")
        elif all(not i.startswith("rec") for i in set(ids) - any1):
            res.count("resume:second-run-only-failures-left")
        # store-level state (read with sqlite3 / os, not through the library)
        mref, mfin = rec.get("ref_meta"), run.get("meta_final")
        if mref is not None and mfin is not None:
            res.count("resume:store-level-compared")
            mexp = dict(mref)
            ncomp = sum(1 for e in expected if e[1] == "completed")
            nnc = len(expected) - ncomp
            if store == "dir":
                mexp.update(n_md5=len(expected), n_completed_files=ncomp, n_not_completed_files=nnc)
            else:
                mexp.update(n_completed=ncomp, n_not_completed=nnc)
            diff = sorted(key for key in set(mexp) | set(mfin) if mexp.get(key) != mfin.get(key))
            if diff:
                res.witness(f"C19/resume/{store}/store-level-state-differs/{'+'.join(diff)}", expected=mexp, resumed=mfin, left_for_second_run=left, **detail)  # fmt: skip
    res.sample({"resume": case})


# ---------------------------------------------------------------------------


def run_case(case):
    res = Result()
    if case["kind"] == "inject":
        out = _driver(["-m", "vmon.faults"], {"module": "vmon.models.c19_apps", "ops": case["ops"]}, timeout=1500)
        for r in out["results"]:
            decide_op(res, r, out["blobs"])
    elif case["kind"] == "resume":
        out = _driver(["-m", "vmon.models.c19_apps", "resume"], {"cases": case["cases"]}, timeout=1500)
        for rec in out["results"]:
            decide_resume(res, rec)
    else:
        raise ValueError(case["kind"])
    return res


def required(counters, tier):
    miss = []

    def need(name, minimum=1):
        if counters.get(name, 0) < minimum:
            miss.append(f"{name} >= {minimum} (got {counters.get(name, 0)})")

    need("boundaries:audit", 100)
    need("boundaries:strace", 100)
    need("delivered:audit:error", 100)
    need("delivered:audit:kill", 100)
    need("delivered:strace:error", 50)
    need("delivered:strace:kill", 50)
    need("kill:runs", 100)
    need("format-failure:cases", 10)
    need("resume:dir", 4)
    need("resume:sqlite", 4)
    need("resume:second-run-nothing-left", 2)
    need("resume:second-run-only-failures-left", 2)
    need("resume:store-level-compared", 8)
    need("resume:returned-listing-compared", 8)
    need("resume:transient-after-always-failing", 2)
    need("resume:not-completed-retried", 2)
    need("resume:fresh-object-mode-w", 4)
    need("resume:reuse-object-mode-w", 2)
    need("resume:reuse-object-mode-a", 2)
    need("dest-is-directory:cases", 10)
    need("formatter-failpoint:cases", 100)
    for fam in FAMILIES + ["appwriter"]:
        need(f"formatter-failpoint:{fam}", 2)
    need("two-fault:delivered:audit:error", 10)
    need("two-fault:delivered:audit:kill", 10)
    need("two-fault:delivered:strace:error", 10)
    need("two-fault:delivered:strace:kill", 10)
    for fam in FAMILIES:
        need(f"dest-is-directory:{fam}", 2)
    for fam in FAMILIES:
        if not any(k.startswith(f"exhaustive:{fam}:") and k.endswith(":audit") for k in counters):
            miss.append(f"no completely enumerated audit case for writer family {fam}")
    for tg in ("plain", "gz", "bz2", "zip"):
        for inj in ("audit", "strace"):
            if not any(k.startswith("exhaustive:") and k.endswith(f":{tg}:{inj}") for k in counters):
                miss.append(f"no completely enumerated {inj} case for target kind {tg}")
    for bad in ("cases-incomplete", "strace:prefix-mismatch", "strace:undelivered", "audit:undelivered", "strace:attach-failed", "two-fault:record-failed"):
        if counters.get(bad, 0):
            miss.append(f"{bad} = {counters[bad]} (every numbered boundary must receive every fault)")
    return miss
