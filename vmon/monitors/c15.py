"""C15 — distance estimators and distance-based trees are exact on exact data.

Shape B (boundary recorder + executable model).

Estimators: the model of a pairwise distance is the count matrix of the two rows, taken by a plain loop over the columns
in which both symbols are canonical, pushed through the published closed form with `math` / `fractions` (own 4x4
determinant).  The whole expected matrix (values, invalid entries) is built once per alignment and every entry point of
the real code, on the alignment as given, with its columns permuted and with its rows re-ordered, is compared with it.

Trees: the model is the generating tree itself (nested dicts, dyadic branch lengths so path sums are exact floats).
The tree returned by nj / gnj / quick_tree / upgma is read through .children/.name/.length only and must have the same
split -> length map (unrooted) or clade -> length map (rooted, UPGMA).
"""

import itertools
import math
import random
from fractions import Fraction

from vmon.core import Result, exc_mechanism

ID = "C15"
LEVEL = "exploration"
RULE = (
    "estimators: seeded random DNA/RNA alignments (2-7 rows x 5-80 columns; rows derived from a common ancestor at "
    "rates 0 / 0.05 / 0.2 / 0.5 / saturated; identical rows; reduced-alphabet rows; gaps and IUPAC ambiguities either "
    "absent, sprinkled, or concentrated in one row, incl. a row that equals another one up to missing data and rows "
    "with complementary missing data; plus constructed pairs sitting exactly on a domain edge — JC69 p = 3/4, each "
    "of the three TN93 logarithm arguments = 0, paralinear/LogDet determinant = 0 in exact rational arithmetic — padded "
    "by block replication, column/row order, base relabelling and no-data columns) x 6 calculators (hamming, pdist, jc69, tn93, paralinear, logdet +/- TK "
    "adjustment) x entry points (Alignment/ArrayAlignment.distance_matrix with drop_invalid False/True, calculator "
    "object incl. lengths/proportions tables and include_duplicates=False, fast_slow_dist app, and the app named by "
    "fast_calc= / distance= in lower/upper case with its moltype unset / dna / rna on the same data written as DNA and as RNA) x (as given, columns "
    "permuted, rows re-ordered). trees: random / caterpillar / balanced / star-like trees on 3-14 (thorough 3-24) tips "
    "with positive dyadic branch lengths (mixed, all-equal => tied joins, tiny internal, one very short edge of 3e-11 / "
    "1e-12 among ordinary ones), the same trees expressed in small units (x 2^-20 / 2^-30 / 2^-34 / 2^-40, exact), "
    "exact path-length matrix, "
    "shuffled tip order, given as full dict / one-sided dict / DistanceMatrix to nj, gnj (default and keep/dkeep), "
    "DistanceMatrix.quick_tree, the quick_tree app; coalescent-style ultrametric trees to upgma; deep ladders (one lineage absorbing every join; 35-120 tips, thorough "
    "also 1100; integer heights; growing cluster first / last / anywhere in the matrix) to upgma and to UPGMA_cluster "
    "directly with large_number = BIG_NUM and 9999999999; for one entry point "
    "per tree the scale relation builder(c*D) = c*builder(D), c a power of two. Non-trivial = "
    "alignment with >=3 rows and >=1 non-canonical symbol, or tree with >=5 tips; distinct = (calculator, entry point, "
    "moltype, missing-data pattern, duplicate class, validity class) resp. (algorithm, input form, tips, shape, "
    "length class)."
)
LEVEL_TEXT = (
    "Every generated alignment's full distance matrix is re-derived outside cogent3 (column loop over canonical pairs, "
    "published closed forms with math/fractions, documented domain failures as invalid entries) and compared entry "
    "by entry with what each public entry point returns, incl. symmetry, zero diagonal, column- and row-order "
    "invariance; every generated additive / ultrametric matrix must give back its generating tree (split set and "
    "branch lengths to 2e-14 x the largest path length, i.e. relative to the unit of the data), also after re-expressing the matrix in another power-of-two unit (builder(c*D) = c*builder(D)). Sampled, not exhaustive; run under NUMBA_BOUNDSCHECK=1."
)
LEVEL_NOTE = (
    "held = held on the executions listed in the evidence; trusted: Python float/Fraction arithmetic, math.log; the "
    "returned tree is read through .children/.name/.length"
)
TECHNIQUE = "runtime monitoring: boundary recorder + independent executable model (pair-count closed forms; generating tree as oracle)"
ASSUMPTIONS = [
    "pairwise deletion (a column counts for a pair iff both symbols are canonical) is the documented treatment of non-canonical columns",
    "TN93 / paralinear / LogDet use the pair's own state frequencies over the compared columns; paralinear/LogDet replace an "
    "unobserved diagonal cell by 0.5 before normalising (as documented in the source) — the model does the same",
    "a closed form that is undefined on the counts (log of a non-positive number, 0/0, no shared column) is an invalid entry: "
    "NaN in the matrix, ArithmeticError with drop_invalid=False, or the rows dropped with drop_invalid=True",
    "TN93 log arguments and paralinear/LogDet determinants are evaluated in exact rational arithmetic: exactly zero or negative "
    "is an invalid entry; only non-zero values below 1e-6 are not decided",
    "gnj returns a collection sorted by tree length: its first (shortest) tree is the one that must be the generating tree, "
    "and its score must be the generating tree's total length",
]
ENV = {"NUMBA_BOUNDSCHECK": "1"}
TIMEOUT = {"quick": 900, "thorough": 7200}

CANON = {"dna": "ACGT", "rna": "ACGU"}
NONCANON = "-N?RYWSKMBDHV"
CALCS = ["hamming", "pdist", "jc69", "tn93", "paralinear", "logdet"]
TOL = 1e-9
# branch lengths of a rebuilt tree: relative to the size of the data (largest path length). The arithmetic of NJ / UPGMA on
# an additive matrix loses a few units in the last place of the *distances* (measured <= 2.3e-16 x largest distance
# up to 24 tips), whatever the unit the distances are expressed in; an absolute tolerance would hide everything in a
# tree measured in small units.
TREE_RTOL = 2e-14
UNITS = [2.0**-20, 2.0**-30, 2.0**-34, 2.0**-40]


# ---------------------------------------------------------------------------
# case generation


def gen_cases(rng, tier):
    cases = []
    n_est = 60 if tier == "quick" else 320
    per = 5 if tier == "quick" else 8
    for i in range(n_est):
        cases.append({"kind": "est", "seed": rng.randrange(2**32), "n": per, "moltype": "rna" if i % 3 == 2 else "dna"})
    for i in range(16 if tier == "quick" else 80):
        cases.append({"kind": "edge", "seed": rng.randrange(2**32), "n": 5, "first": i, "moltype": "rna" if i % 3 == 2 else "dna"})
    for i in range(12 if tier == "quick" else 48):
        cases.append({"kind": "ladder", "seed": rng.randrange(2**32), "n": 3, "first": i})
    if tier == "thorough":
        # one lineage absorbing more than 1015 joins: where a diagonal cell that starts at upgma()'s 1e305 gets down to the data
        cases.append({"kind": "ladder", "seed": rng.randrange(2**32), "n": 1, "first": 0, "tips": 1100, "routes": ["upgma-DistanceMatrix"]})
    n_tree = 48 if tier == "quick" else 360
    for i in range(n_tree):
        cases.append({"kind": "nj", "seed": rng.randrange(2**32), "n": 8 if tier == "quick" else 11, "maxtips": 14 if tier == "quick" else 24})
    for i in range(n_tree // 2 if tier == "quick" else 100):
        cases.append({"kind": "upgma", "seed": rng.randrange(2**32), "n": 14 if tier == "quick" else 40, "maxtips": 14 if tier == "quick" else 24})
    return cases


# ---------------------------------------------------------------------------
# estimator model


def pair_counts(s1, s2, canon):
    """count matrix over the columns where both symbols are canonical"""
    M = {}
    for a, b in zip(s1, s2):
        if a in canon and b in canon:
            M[(a, b)] = M.get((a, b), 0) + 1
    return M


def det(m):
    """determinant by cofactor expansion (exact for Fractions)"""
    n = len(m)
    if n == 1:
        return m[0][0]
    if n == 2:
        return m[0][0] * m[1][1] - m[0][1] * m[1][0]
    total = 0
    for j in range(n):
        if m[0][j] == 0:
            continue
        minor = [row[:j] + row[j + 1 :] for row in m[1:]]
        total += (-1) ** j * m[0][j] * det(minor)
    return total


class Invalid(Exception):
    """the closed form is undefined for these counts"""


class Undecided(Exception):
    """too close to the edge of the domain to demand either outcome"""


BOUNDARY = ("log-of-exact-zero", "exactly-singular", "saturated")  # invalid because the counts sit exactly on the edge


def _log(x):
    """log of an exact rational: zero / negative are decidable (invalid); only a non-zero tiny argument is left open,
    because the implementation's float value of the logarithm is then dominated by rounding"""
    if x == 0:
        raise Invalid("log-of-exact-zero")
    if x < 0:
        raise Invalid("log-of-non-positive")
    if x < Fraction(1, 10**6):
        raise Undecided("log-argument-near-zero")
    return math.log(x)


def closed_form(calc, M, canon):
    """published closed form on the count matrix M ({(a,b): n}); returns float or raises Invalid / Undecided"""
    total = sum(M.values())
    if total == 0:
        raise Invalid("no-shared-canonical-column")
    diffs = sum(v for (a, b), v in M.items() if a != b)
    if calc == "hamming":
        return float(diffs)
    p = diffs / total
    if calc == "pdist":
        return p
    if diffs == 0:
        return 0.0  # every one of the forms below is 0 when no difference is observed
    if calc == "jc69":
        if p >= 0.75:
            raise Invalid("saturated")
        return -0.75 * math.log(1 - 4 * p / 3)
    if calc == "tn93":
        pur = "AG"
        pyr = "".join(c for c in canon if c not in pur)
        # exact rational arithmetic, so that "argument of a logarithm is zero / negative" is decided, not estimated
        f = {c: Fraction(sum(v for (a, b), v in M.items() if a == c) + sum(v for (a, b), v in M.items() if b == c), 2 * total) for c in canon}
        fR = f[pur[0]] + f[pur[1]]
        fY = f[pyr[0]] + f[pyr[1]]
        P1 = Fraction(M.get((pur[0], pur[1]), 0) + M.get((pur[1], pur[0]), 0), total)
        P2 = Fraction(M.get((pyr[0], pyr[1]), 0) + M.get((pyr[1], pyr[0]), 0), total)
        Q = Fraction(diffs, total) - P1 - P2
        try:
            k1 = 2 * f[pur[0]] * f[pur[1]] / fR
            k2 = 2 * f[pyr[0]] * f[pyr[1]] / fY
            k3 = 2 * (fR * fY - f[pur[0]] * f[pur[1]] * fY / fR - f[pyr[0]] * f[pyr[1]] * fR / fY)
            a1 = 1 - P1 / k1 - Q / (2 * fR)
            a2 = 1 - P2 / k2 - Q / (2 * fY)
            a3 = 1 - Q / (2 * fR * fY)
        except ZeroDivisionError:
            raise Invalid("zero-frequency")
        if min(a1, a2, a3) < 0:
            raise Invalid("log-of-non-positive")
        return -float(k1) * _log(a1) - float(k2) * _log(a2) - float(k3) * _log(a3)
    if calc in ("paralinear", "logdet", "logdet-notk"):
        r = len(canon)
        J = [[Fraction(M.get((a, b), 0)) for b in canon] for a in canon]
        for i in range(r):
            if J[i][i] == 0:
                J[i][i] = Fraction(1, 2)  # documented: unobserved diagonal state gets 0.5, then normalise
        s = sum(sum(row) for row in J)
        F = [[x / s for x in row] for row in J]
        dF = det(F)
        # exact determinant: zero / negative are decided (documented: invalid); a non-zero tiny one is left open, the
        # floating point determinant of the implementation is only good to ~1e-16 absolute
        if dF == 0:
            raise Invalid("exactly-singular")
        if dF < 0:
            raise Invalid("non-positive-determinant")
        if dF < Fraction(1, 10**6):
            raise Undecided("singular")
        fx = [sum(F[i][j] for j in range(r)) for i in range(r)]
        fy = [sum(F[i][j] for i in range(r)) for j in range(r)]
        prod = 1
        for v in fx + fy:
            prod *= v
        ratio = float(dF) / math.sqrt(float(prod))
        if calc == "paralinear":
            return -math.log(ratio) / r
        if calc == "logdet":
            coeff = (sum(float((fx[i] + fy[i]) / 2) ** 2 for i in range(r)) - 1) / (r - 1)
            return coeff * math.log(ratio)
        return -math.log(float(dF)) / r - math.log(r)
    raise ValueError(calc)


def project(seq, canon):
    """a row as the estimators see it: canonical symbol or 'missing'"""
    return "".join(c if c in canon else "." for c in seq)


def expected_matrix(calc, rows, canon):
    """{(a,b): ('ok', x) | ('invalid', why) | ('undecided', why)} for a != b, plus totals/p"""
    E = {}
    aux = {}
    for (a, sa), (b, sb) in itertools.combinations(rows, 2):
        M = pair_counts(sa, sb, canon)
        total = sum(M.values())
        diffs = sum(v for (x, y), v in M.items() if x != y)
        aux[(a, b)] = aux[(b, a)] = (total, diffs)
        try:
            v = ("ok", closed_form(calc, M, canon))
        except Invalid as e:
            v = ("invalid", str(e))
        except Undecided as e:
            v = ("undecided", str(e))
        E[(a, b)] = E[(b, a)] = v
    return E, aux


def hazards(rows, canon):
    """names of rows taking part in a pair that shows no observed difference but differs in where data is missing
    (the model's description of where a 'duplicate' shortcut would be unsound)"""
    out = set()
    for (a, sa), (b, sb) in itertools.combinations(rows, 2):
        M = pair_counts(sa, sb, canon)
        if not any(x != y for (x, y) in M) and project(sa, canon) != project(sb, canon):
            out.update([a, b])
    return out


def identical_groups(rows, canon):
    g = {}
    for a, s in rows:
        g.setdefault(project(s, canon), []).append(a)
    return g


# ---------------------------------------------------------------------------
# alignment generator


def gen_alignment(rng, moltype):
    canon = CANON[moltype]
    n = rng.choice([2, 3, 3, 4, 4, 5, 6, 7])
    L = rng.choice([5, 6, 8, 12, 20, 30, 45, 60, 80])
    alpha = canon if rng.random() < 0.8 else "".join(rng.sample(canon, rng.choice([2, 3])))
    pattern = rng.choice(["none", "none", "sprinkled", "sprinkled", "one-row", "one-row", "masked-copy", "masked-copy", "complementary"])
    # keep a good share of the alignments with missing data free of accidental "no observed difference" pairs, so that
    # the other comparisons are decided on them too
    diverged = pattern in ("sprinkled", "one-row") and rng.random() < 0.7
    if diverged:
        L = max(L, 20)
    base = [rng.choice(alpha) for _ in range(L)]
    rows = []
    for i in range(n):
        mu = rng.choice([0.1, 0.2, 0.3, 0.5, 1.0]) if diverged else rng.choice([0, 0.02, 0.05, 0.1, 0.2, 0.2, 0.5, 1.0])
        if rng.random() < 0.12 and rows and not diverged:
            src = list(rng.choice(rows)[1])
            src = [c if c in canon else rng.choice(alpha) for c in src]
            mu = rng.choice([0, 0, 0.03])
        else:
            src = base
        sub = canon if rng.random() < 0.8 else alpha
        rows.append([f"s{i}", [rng.choice(sub) if rng.random() < mu else c for c in src]])
    if pattern == "sprinkled":
        fr = rng.choice([0.03, 0.1, 0.25])
        for _, s in rows:
            for k in range(L):
                if rng.random() < fr:
                    s[k] = rng.choice(NONCANON)
    elif pattern == "one-row":
        tgt = rng.randrange(n)
        fr = rng.choice([0.2, 0.5, 0.5] if diverged else [0.2, 0.5, 0.9])
        for k in range(L):
            if rng.random() < fr:
                rows[tgt][1][k] = rng.choice(NONCANON)
        if rng.random() < 0.3:
            a = rng.randrange(L)
            for k in range(a, min(L, a + L // 2)):
                rows[tgt][1][k] = "-"
    elif pattern == "masked-copy":
        # a row that equals another one wherever it has data
        src, tgt = rng.sample(range(n), 2)
        new = list(rows[src][1])
        fr = rng.choice([0.1, 0.3, 0.6])
        hit = False
        for k in range(L):
            if rng.random() < fr:
                new[k] = rng.choice("-N?RY")
                hit = True
        if not hit:
            new[rng.randrange(L)] = "-"
        rows[tgt][1] = new
        if n >= 4 and rng.random() < 0.4:
            # a second, differently masked copy
            t2 = rng.choice([x for x in range(n) if x not in (src, tgt)])
            new2 = list(rows[src][1])
            for k in range(L):
                if rng.random() < fr:
                    new2[k] = rng.choice("-N")
            rows[t2][1] = new2
    elif pattern == "complementary":
        a, b = rng.sample(range(n), 2)
        cut = rng.randrange(1, L)
        slack = rng.choice([0, 0, 1, 2])
        for k in range(L):
            if k >= cut:
                rows[a][1][k] = "-"
            if k < max(0, cut - slack):
                rows[b][1][k] = rng.choice("-N")
    rng.shuffle(rows)
    return [[nm, "".join(s)] for nm, s in rows], pattern


# pairs sitting exactly on the edge of an estimator's domain ------------------------------------------------------
# TN93: one logarithm argument is exactly zero (index = which term); found by search, checked again by the model at run time
TN93_EDGE = {
    1: [("AGCTAGCT", "GACTAGCT"), ("CCACCATC", "CGGCCAGC"), ("ATCCTGTGTT", "CTACCATGTT"), ("TGCACTTTATCT", "TGTCTTATGTCT"), ("AATCTCTGACAA", "CATCTGGGGCGT"),
        ("CCTTTTTAAGTTCA", "CCCTTTTGAGCTCG"), ("GCACCCCACAACGAAA", "ACGCGGCACAAAAAAT"), ("ATATCATGGCTGTGAA", "CTATGGGCATAGTTGA")],
    2: [("AGCTAGCT", "AGTCAGCT"), ("GGGATCGC", "GGGCTTGG"), ("TCGAGTGAGA", "CAGCGTAGGA"), ("AACAGGGAGCTA", "AACATGGAGTAG"), ("GCTCGCTGTTTGTA", "GCTTGTTGTCTGCA"),
        ("CGTCGGACGCAAGT", "TTTGGGACCTGCTG"), ("ATTATAGCACCCTCCA", "ACCCGAGCTCCACCCA"), ("GCCGACTTGCCTAGAG", "GAGGAAGGGGTTAGGG")],
    3: [("AGCTAGCT", "AGCTCTAG"), ("GTGGTCTG", "GGTGTATT"), ("GGCCAGGGCGCG", "GCCCCGGTACCC"), ("GCAAGGTTTAAC", "TCACCTTATAAA"), ("GGATAGAAAGTTCGGT", "GGAGTGATAGATAGAG"),
        ("TGCGTAGTTGTTCCCC", "TTCCGCCTCGTTCATC"), ("CCTCTTGCCTCACTAA", "TTTCGATCCCGACTTT"), ("TAATTTCTATGTCATC", "TAAAGAAAATGCGTTG")],
}
EDGES = ["jc69-p-3/4", "tn93-term1", "tn93-term2", "tn93-term3", "det-zero"]


def edge_of(calc, M, canon):
    """which exact boundary (if any) the counts M sit on for `calc` — decided by the model itself"""
    try:
        closed_form(calc, M, canon)
    except Invalid as e:
        return str(e) if str(e) in BOUNDARY else None
    except Undecided:
        return None
    return None


def gen_edge_alignment(rng, moltype, edge):
    """two rows exactly on `edge`, padded in ways that keep the exact ratio (whole-block replication, column order,
    row order, base relabelling inside purines / pyrimidines, columns in which one of the two has no data), plus
    ordinary rows"""
    canon = CANON[moltype]
    if edge == "jc69-p-3/4":
        k = rng.randint(1, 15)
        L = 4 * k
        s1 = [rng.choice("ACGT") for _ in range(L)]
        hit = set(rng.sample(range(L), 3 * k))
        s2 = [rng.choice([x for x in "ACGT" if x != c]) if i in hit else c for i, c in enumerate(s1)]
    elif edge == "det-zero":
        # two proportional rows of the count matrix, every diagonal cell observed
        rows = [[rng.randint(0, 3) for _ in range(4)] for _ in range(4)]
        i, j = rng.sample(range(4), 2)
        rows[i] = [rng.randint(1, 3) for _ in range(4)]
        mult = rng.choice([1, 2])
        rows[j] = [mult * x for x in rows[i]]
        for d in range(4):
            rows[d][d] = max(rows[d][d], 1) if d not in (i, j) else rows[d][d]
        order = rng.sample("ACGT", 4)
        cols = [(order[a], order[b]) for a in range(4) for b in range(4) for _ in range(rows[a][b])]
        s1, s2 = [c[0] for c in cols], [c[1] for c in cols]
    else:
        a, b = rng.choice(TN93_EDGE[int(edge[-1])])
        s1, s2 = list(a), list(b)
        relabel = {}
        if rng.random() < 0.5:
            relabel.update({"A": "G", "G": "A"})
        if rng.random() < 0.5:
            relabel.update({"C": "T", "T": "C"})
        s1 = [relabel.get(c, c) for c in s1]
        s2 = [relabel.get(c, c) for c in s2]
    m = rng.choice([1, 1, 2, 3, 5])
    s1, s2 = s1 * m, s2 * m
    perm = list(range(len(s1)))
    rng.shuffle(perm)
    s1 = [s1[k] for k in perm]
    s2 = [s2[k] for k in perm]
    if rng.random() < 0.5:
        s1, s2 = s2, s1
    # ordinary rows: diverged copies, at least one
    others = []
    for _ in range(rng.choice([1, 1, 2, 3])):
        mu = rng.choice([0.1, 0.2, 0.3])
        others.append([rng.choice("ACGT") if rng.random() < mu else c for c in rng.choice([s1, s2])])
    # columns that do not count for the pair: one of the two has no data there
    for _ in range(rng.choice([0, 1, 2, 5])):
        at = rng.randrange(len(s1) + 1)
        gap_first = rng.random() < 0.5
        s1.insert(at, rng.choice(NONCANON) if gap_first else rng.choice("ACGT"))
        s2.insert(at, rng.choice("ACGT") if gap_first else rng.choice(NONCANON))
        for o in others:
            o.insert(at, rng.choice("ACGT"))
    rows = [["e0", s1], ["e1", s2]] + [[f"s{i}", o] for i, o in enumerate(others)]
    rng.shuffle(rows)
    tr = (lambda c: "U" if c == "T" else c) if moltype == "rna" else (lambda c: c)
    return [[nm, "".join(tr(c) for c in s)] for nm, s in rows]


def decide_edge_alignment(res, rng, moltype, edge):
    rows = gen_edge_alignment(rng, moltype, edge)
    canon = CANON[moltype]
    d = dict(rows)
    M = pair_counts(d["e0"], d["e1"], canon)
    calcs = {"jc69-p-3/4": ["jc69"], "det-zero": ["paralinear", "logdet", "logdet-notk"]}.get(edge, ["tn93"])
    for c in calcs:
        if edge_of(c, M, canon) is not None:
            res.count("exact-boundary:" + edge)
            break
    else:
        res.count("exact-boundary-generator-missed:" + edge)
    decide_alignment(res, rng, rows, moltype, "edge:" + edge)
    return rows


# ---------------------------------------------------------------------------
# observing the real estimators


def make_aln(rows, moltype, array_align):
    from cogent3 import make_aligned_seqs

    return make_aligned_seqs({k: v for k, v in rows}, moltype=moltype, array_align=array_align)


def dm_to_dict(dm):
    """DistanceMatrix -> (names, {(a,b): float}) incl. diagonal"""
    names = [str(x) for x in dm.names]
    arr = dm.array
    return names, {(a, b): float(arr[i, j]) for i, a in enumerate(names) for j, b in enumerate(names)}


def isnan(x):
    return x != x


def close(got, exp):
    return abs(got - exp) <= TOL * max(1.0, abs(exp))


class Decider:
    def __init__(self, res, rows, moltype, pattern):
        self.res = res
        self.rows = rows
        self.moltype = moltype
        self.canon = CANON[moltype]
        self.pattern = pattern
        self.names = [a for a, _ in rows]
        self.haz = hazards(rows, self.canon)
        groups = identical_groups(rows, self.canon)
        self.groups = groups
        self.has_identical = any(len(v) > 1 for v in groups.values())
        self.noncanon = any(c not in self.canon for _, s in rows for c in s)
        self.nontrivial = len(rows) >= 3 and self.noncanon
        self._E = {}
        self._alns = {}
        self._app_route = None  # (how named, name as given, app moltype, moltype the alignment is written in)

    def aln(self, variant_rows, array_align):
        """the real alignment object for one variant (built once; the calls made on it do not change it)"""
        key = (tuple(a for a, _ in variant_rows), variant_rows[0][1], array_align)
        if key not in self._alns:
            self._alns[key] = make_aln(variant_rows, self.moltype, array_align)
        return self._alns[key]

    def E(self, calc):
        if calc not in self._E:
            self._E[calc] = expected_matrix(calc, self.rows, self.canon)
        return self._E[calc]

    def dupclass(self):
        return ("hazard" if self.haz else "nohazard") + ("+identical" if self.has_identical else "")

    def replay(self, calc, entry, variant_rows):
        rc = {"kind": "one-aln", "moltype": self.moltype, "rows": variant_rows, "calc": calc, "entry": entry}
        if self._app_route is not None:
            rc["app_route"] = self._app_route
        return rc

    def witness(self, what, calc, entry, variant_rows, pair=None, **detail):
        """classify by the model: is the disagreeing entry one a duplicate shortcut would get wrong?"""
        own_cause = what.startswith("value-where-formula-undefined/") and not what.startswith("value-where-formula-undefined/no-shared")
        if pair is not None and (pair[0] in self.haz or pair[1] in self.haz) and not own_cause:
            total = self.E(calc)[1].get(tuple(pair), (None, None))[0]
            mech = "C15/estimator/duplicate-shortcut/" + ("no-shared-canonical-column" if total == 0 else "missing-data-differs")
        elif self._app_route is not None and self._app_route[3] != (self._app_route[2] or "dna"):
            # the model's class: the app has to convert the alignment to the calculator's moltype first
            mech = f"C15/estimator/{calc}/app-converts-moltype/{what}"
        else:
            mech = f"C15/estimator/{calc}/{what}"
        self.res.witness(mech, calc=calc, entry=entry, rows=variant_rows, pair=pair, replay_case=self.replay(calc, entry, variant_rows), **detail)

    def check_matrix(self, calc, entry, variant_rows, names, got, allow_subset=False, raised=False):
        """compare a returned {(a,b): x} over `names` with the model; returns validity class"""
        res = self.res
        E, aux = self.E(calc)
        all_names = self.names
        res.evals += 1
        if not allow_subset and sorted(names) != sorted(all_names):
            self.witness("names", calc, entry, variant_rows, got=names, exp=all_names)
            return "bad-names"
        n_invalid = 0
        for a in names:
            # zero diagonal
            if got[(a, a)] != 0:
                self.witness("non-zero-diagonal", calc, entry, variant_rows, pair=[a, a], got=got[(a, a)])
                return "bad"
        for a, b in itertools.combinations(names, 2):
            g1, g2 = got[(a, b)], got[(b, a)]
            if not (g1 == g2 or (isnan(g1) and isnan(g2))):
                self.witness("asymmetric", calc, entry, variant_rows, pair=[a, b], got=[g1, g2])
                return "bad"
            kind, val = E[(a, b)]
            if kind == "undecided":
                res.count("undecided:" + val)
                continue
            if kind == "invalid":
                n_invalid += 1
                if not isnan(g1):
                    self.witness(self.undefined_class(val, g1), calc, entry, variant_rows, pair=[a, b], got=g1, exp="invalid (" + val + ")", counts=aux[(a, b)])
                    return "bad"
                continue
            if isnan(g1):
                self.witness("invalid-where-formula-defined", calc, entry, variant_rows, pair=[a, b], got="nan", exp=val, counts=aux[(a, b)])
                return "bad"
            if not close(g1, val):
                self.witness("value", calc, entry, variant_rows, pair=[a, b], got=g1, exp=val, counts=aux[(a, b)])
                return "bad"
        return "with-invalid" if n_invalid else "all-valid"

    @staticmethod
    def undefined_class(why, got):
        """mechanism class of 'a number where the closed form is undefined'; on an exact boundary the kind of number
        tells the causes apart: inf = the logarithm of an exact 0.0 was taken, finite = rounding noise got past the guard"""
        cls = "value-where-formula-undefined/" + why
        if why in BOUNDARY:
            cls += "/got-inf" if got in (float("inf"), float("-inf")) else "/got-finite"
        return cls

    def expected_invalid_names(self, calc):
        E, _ = self.E(calc)
        bad = set()
        for (a, b), (kind, _) in E.items():
            if kind == "invalid":
                bad.update([a, b])
        return bad

    def has_undecided(self, calc):
        return any(k == "undecided" for k, _ in self.E(calc)[0].values())

    def sig(self, calc, entry, vclass, variant):
        if self.nontrivial:
            self.res.sig(calc, entry, self.moltype, self.pattern, self.dupclass(), vclass, variant)

    # -- entry points -------------------------------------------------------

    def distance_matrix(self, calc, variant_rows, variant, array_align, drop_invalid):
        res = self.res
        entry = f"{'ArrayAlignment' if array_align else 'Alignment'}.distance_matrix(drop_invalid={drop_invalid})"
        cname = "logdet" if calc == "logdet" else calc
        res.count("entry:distance_matrix")
        res.count("calc:" + calc)
        aln = self.aln(variant_rows, array_align)
        inv = self.expected_invalid_names(calc)
        try:
            dm = aln.distance_matrix(calc=cname, drop_invalid=drop_invalid)
        except ArithmeticError as e:
            res.evals += 1
            if not drop_invalid and inv:
                res.refused += 1  # documented: a distance could not be computed on the observed data
                res.count("refusal:ArithmeticError")
                self.sig(calc, "distance_matrix", "refused", variant)
                return
            if self.has_undecided(calc):
                res.count("undecided:error-near-domain-edge")
                return
            # which pair? the model cannot know; attribute to the shortcut iff a hazard row exists
            pair = sorted(self.haz)[:2] if self.haz else None
            if pair is not None and not drop_invalid:
                self.witness("ArithmeticError-without-invalid-pair", calc, entry, variant_rows, pair=pair, error=repr(e)[:200])
            else:
                res.witness(exc_mechanism(f"C15/estimator/{calc}/distance_matrix", e), calc=calc, entry=entry, rows=variant_rows, replay_case=self.replay(calc, entry, variant_rows))
            return
        except Exception as e:  # noqa: BLE001
            res.evals += 1
            res.witness(exc_mechanism(f"C15/estimator/{calc}/distance_matrix", e), calc=calc, entry=entry, rows=variant_rows, error=repr(e)[:300], replay_case=self.replay(calc, entry, variant_rows))
            return
        if drop_invalid:
            keep = [a for a in self.names if a not in inv]
            if self.has_undecided(calc):
                res.count("undecided:drop-near-domain-edge")
                return
            if dm is None:
                res.evals += 1
                if len(keep) <= 1:
                    res.refused += 1  # documented: fewer than two rows left -> None
                    res.count("refusal:all-dropped")
                    self.sig(calc, "distance_matrix-drop", "all-dropped", variant)
                else:
                    pair = next(([a, b] for a, b in itertools.combinations(sorted(self.haz), 2)), None)
                    self.witness("drop_invalid-dropped-everything", calc, entry, variant_rows, pair=pair, exp_kept=keep)
                return
            names, got = dm_to_dict(dm)
            if sorted(names) != sorted(keep):
                res.evals += 1
                E = self.E(calc)[0]
                # a row was kept although the model has no distance for one of its pairs: the same thing as a number
                # where there is none; look the number up (undropped matrix) to name the class
                kept_invalid = next(((a, b) for a in names for b in self.names if a != b and E[(a, b)][0] == "invalid" and E[(a, b)][1] != "no-shared-canonical-column"), None)
                if kept_invalid is not None:
                    a, b = kept_invalid
                    try:
                        from cogent3.evolve.fast_distance import get_distance_calculator

                        c = get_distance_calculator(calc, moltype=aln.moltype, alignment=aln)
                        c.run(show_progress=False)
                        val = dm_to_dict(c.get_pairwise_distances())[1][(a, b)]
                    except Exception:  # noqa: BLE001
                        val = float("nan")
                    if not isnan(val):
                        self.witness(self.undefined_class(E[(a, b)][1], val), calc, entry, variant_rows, pair=[a, b], got=val, exp="both rows dropped (" + E[(a, b)][1] + ")", kept=names)
                        return
                extra = sorted(set(names) ^ set(keep))
                pair = [extra[0], extra[0]] if extra and extra[0] in self.haz else None
                if pair is None and self.haz and any(x in inv for x in self.haz):
                    pair = sorted(self.haz)[:2]
                self.witness("drop_invalid-kept-set", calc, entry, variant_rows, pair=pair, got=names, exp=keep)
                return
            vclass = self.check_matrix(calc, entry, variant_rows, names, got, allow_subset=True)
            self.sig(calc, "distance_matrix-drop", vclass + ("-dropped" if inv else ""), variant)
            return
        if dm is None:
            res.evals += 1
            self.witness("returned-None", calc, entry, variant_rows)
            return
        names, got = dm_to_dict(dm)
        vclass = self.check_matrix(calc, entry, variant_rows, names, got)
        if vclass == "with-invalid":
            res.count("invalid-entry-returned-as-nan-without-error")
        self.sig(calc, "distance_matrix", vclass, variant)

    def calculator(self, calc, variant_rows, variant):
        """calculator object: get_pairwise_distances / dists / include_duplicates=False / lengths / proportions"""
        from cogent3.evolve.fast_distance import get_distance_calculator

        res = self.res
        entry = "calculator.run+get_pairwise_distances"
        res.count("entry:calculator")
        res.count("calc:" + calc)
        aln = self.aln(variant_rows, True)
        rc = self.replay(calc, "calculator", variant_rows)
        try:
            if calc == "logdet-notk":
                c = get_distance_calculator("logdet", moltype=aln.moltype, alignment=aln, use_tk_adjustment=False)
            else:
                c = get_distance_calculator(calc, moltype=aln.moltype, alignment=aln)
            c.run(show_progress=False)
            dm = c.get_pairwise_distances()
        except Exception as e:  # noqa: BLE001
            res.evals += 1
            res.witness(exc_mechanism(f"C15/estimator/{calc}/calculator", e), calc=calc, rows=variant_rows, error=repr(e)[:300], replay_case=rc)
            return
        names, got = dm_to_dict(dm)
        vclass = self.check_matrix(calc, entry, variant_rows, names, got)
        self.sig(calc, "calculator", vclass, variant)
        if vclass in ("bad", "bad-names"):
            return
        # unique rows only
        uniq_model = len(self.groups)
        if uniq_model >= 2:
            try:
                dmu = c.get_pairwise_distances(include_duplicates=False)
                un, ug = dm_to_dict(dmu)
            except Exception as e:  # noqa: BLE001
                res.evals += 1
                if self.haz:
                    self.witness("include_duplicates=False-raises", calc, entry, variant_rows, pair=sorted(self.haz)[:2], error=repr(e)[:200])
                else:
                    res.witness(exc_mechanism(f"C15/estimator/{calc}/include_duplicates=False", e), calc=calc, rows=variant_rows, replay_case=rc)
                return
            res.count("entry:include_duplicates=False")
            proj = {a: project(s, self.canon) for a, s in self.rows}
            missing = [a for a in self.names if a not in un and proj[a] not in {proj[b] for b in un}]
            res.evals += 1
            if missing:
                self.witness("unique-rows-missing", calc, "get_pairwise_distances(include_duplicates=False)", variant_rows, pair=[missing[0], missing[0]] if missing[0] in self.haz else None, got=un, missing=missing)
            else:
                self.check_matrix(calc, "get_pairwise_distances(include_duplicates=False)", variant_rows, un, ug, allow_subset=True)
        # tables of aligned lengths and proportions
        E, aux = self.E(calc)
        for attr, idx in (("lengths", 0), ("proportions", 1)):
            try:
                t = getattr(c, attr)
                cols = {nm: t.columns[nm].tolist() for nm in self.names}
                order = [str(x) for x in t.columns[t.header[0]].tolist()]
            except Exception as e:  # noqa: BLE001
                res.evals += 1
                res.witness(exc_mechanism(f"C15/estimator/{calc}/{attr}-table", e), calc=calc, rows=variant_rows, error=repr(e)[:200], replay_case=rc)
                continue
            res.count("entry:" + attr)
            res.evals += 1
            proj = {a: project(s, self.canon) for a, s in self.rows}
            for (a, b), (kind, _) in E.items():
                if kind != "ok" or aux[(a, b)][0] == 0:
                    continue
                if idx == 0 and proj[a] == proj[b]:
                    # G: the property is about distances; the aligned length reported between two identical rows
                    # (0 on this tree) is recorded, not demanded
                    res.count("observation:aligned-length-between-identical-rows-not-decided")
                    continue
                total, diffs = aux[(a, b)]
                exp = float(total) if idx == 0 else diffs / total
                try:
                    g = float(cols[b][order.index(a)])
                except (TypeError, ValueError):
                    g = float("nan")
                if isnan(g) or not close(g, exp):
                    self.witness(f"{attr}-table", calc, f"calculator.{attr}", variant_rows, pair=[a, b], got=repr(cols[b][order.index(a)]), exp=exp)
                    break

    def app(self, calc, variant_rows, variant):
        from cogent3 import get_app

        res = self.res
        entry = "app.fast_slow_dist(fast_calc=...)"
        res.count("entry:app")
        res.count("calc:" + calc)
        aln = self.aln(variant_rows, True)
        rc = self.replay(calc, "app", variant_rows)
        try:
            app = get_app("fast_slow_dist", fast_calc=calc, moltype=self.moltype)
            dm = app(aln)
        except Exception as e:  # noqa: BLE001
            res.evals += 1
            res.witness(exc_mechanism(f"C15/estimator/{calc}/app", e), calc=calc, rows=variant_rows, error=repr(e)[:300], replay_case=rc)
            return
        if type(dm).__name__ == "NotCompleted":
            res.evals += 1
            self.witness("app-not-completed", calc, entry, variant_rows, pair=sorted(self.haz)[:2] if self.haz else None, message=str(dm)[:300])
            return
        names, got = dm_to_dict(dm)
        vclass = self.check_matrix(calc, entry, variant_rows, names, got)
        self.sig(calc, "app", vclass, variant)

    def app_route(self, calc, route):
        """fast_slow_dist with a fast calculator only, named by `fast_calc=` or `distance=`, lower or upper case, with the
        app's moltype unset / dna / rna, on the same data written as DNA or as RNA. T<->U is a relabelling, so the
        model's matrix for the rows is the expected result on every route."""
        from cogent3 import get_app

        res = self.res
        how, given, app_moltype, written = route
        other = {"T": "U", "U": "T"}
        rows = self.rows if written == self.moltype else [[a, "".join(other.get(c, c) for c in s)] for a, s in self.rows]
        entry = f"app.fast_slow_dist({how}={given!r}, moltype={app_moltype}) on {written} alignment"
        res.count("entry:app-route")
        res.count(f"app-route:aln={written},app={app_moltype or 'unset'}")
        res.count("calc:" + calc)
        self._app_route = list(route)
        try:
            rc = self.replay(calc, "app-route", self.rows)
            try:
                aln = make_aln(rows, written, True)
                kw = {how: given}
                if app_moltype is not None:
                    kw["moltype"] = app_moltype
                app = get_app("fast_slow_dist", **kw)
            except ValueError as e:
                res.evals += 1
                if app_moltype is None and calc in ("hamming", "pdist", "paralinear", "logdet") and "must provide a moltype" in str(e):
                    res.refused += 1  # documented: these calculators need the moltype to be stated
                    res.count("refusal:app-needs-moltype")
                else:
                    res.witness(exc_mechanism(f"C15/estimator/{calc}/app-route", e), calc=calc, entry=entry, rows=rows, error=repr(e)[:300], replay_case=rc)
                return
            try:
                dm = app(aln)
            except Exception as e:  # noqa: BLE001
                res.evals += 1
                res.witness(exc_mechanism(f"C15/estimator/{calc}/app-route", e), calc=calc, entry=entry, rows=rows, error=repr(e)[:300], replay_case=rc)
                return
            if type(dm).__name__ == "NotCompleted":
                res.evals += 1
                self.witness("app-not-completed", calc, entry, self.rows, pair=sorted(self.haz)[:2] if self.haz else None, message=str(dm)[:300])
                return
            names, got = dm_to_dict(dm)
            vclass = self.check_matrix(calc, entry, self.rows, names, got)
            self.sig(calc, "app-route", vclass, f"{how}|{'upper' if given.isupper() else 'lower'}|aln={written}|app={app_moltype or 'unset'}")
        finally:
            self._app_route = None


def permuted_columns(rng, rows):
    L = len(rows[0][1])
    perm = list(range(L))
    rng.shuffle(perm)
    return [[a, "".join(s[k] for k in perm)] for a, s in rows]


def reordered_rows(rng, rows):
    out = list(rows)
    if len(out) == 2:
        return out[::-1]
    while out == rows:
        rng.shuffle(out)
    return out


def decide_alignment(res, rng, rows, moltype, pattern, tier_all=True):
    D = Decider(res, rows, moltype, pattern)
    res.count("alignments")
    res.count("moltype:" + moltype)
    res.count("pattern:" + pattern)
    if D.haz:
        res.count("alignments-with-duplicate-up-to-missing-data")
    if D.has_identical:
        res.count("alignments-with-identical-rows")
    variants = [("as-given", rows), ("columns-permuted", permuted_columns(rng, rows)), ("rows-reordered", reordered_rows(rng, rows))]
    for calc in CALCS:
        E, aux = D.E(calc)
        for kind, why in E.values():
            if kind == "invalid":
                res.count("expected-invalid:" + why)
        if any(t == 0 for t, _ in aux.values()):
            res.count("pair-without-shared-column")
        for vname, vrows in variants:
            aa = rng.random() < 0.6
            D.distance_matrix(calc, vrows, vname, array_align=aa, drop_invalid=False)
            if vname == "as-given" or rng.random() < 0.3:
                D.distance_matrix(calc, vrows, vname, array_align=not aa, drop_invalid=True)
        D.calculator(calc, rows, "as-given")
        D.app(calc, rows, "as-given")
        # the app route: how the calculator is named x app moltype x moltype the data is written in
        hows = ["fast_calc", "fast_calc"] + (["distance"] if calc in ("hamming", "pdist", "paralinear", "logdet") else [])
        given = calc.upper() if calc in ("jc69", "tn93") and rng.random() < 0.3 else calc
        written = rng.choice(["dna", "rna"])
        D.app_route(calc, (rng.choice(hows), given, rng.choice([None, None, "dna", "rna"]), written))
        # ... and written the other way, with an app moltype that (mostly) differs from the alignment's
        D.app_route(calc, (rng.choice(hows), calc, rng.choice([None, written]), "rna" if written == "dna" else "dna"))
    D.calculator("logdet-notk", rows, "as-given")
    return D


def run_one_aln(res, case):
    rows = case["rows"]
    moltype = case["moltype"]
    D = Decider(res, rows, moltype, "replay")
    calc = case["calc"]
    entry = case["entry"]
    if entry.startswith("calculator") or entry.startswith("get_pairwise"):
        D.calculator(calc, rows, "as-given")
    elif entry == "app-route":
        D.app_route(calc, tuple(case["app_route"]))
    elif entry.startswith("app"):
        D.app(calc, rows, "as-given")
    else:
        D.distance_matrix(calc, rows, "as-given", array_align=entry.startswith("Array"), drop_invalid="drop_invalid=True" in entry)


# ---------------------------------------------------------------------------
# tree model

DYADIC = [1 / 16, 1 / 8, 1 / 4, 3 / 8, 1 / 2, 3 / 4, 1.0, 1.5, 2.0, 3.0]


def tip(name, length):
    return {"name": name, "len": length, "kids": []}


def node(kids, length):
    return {"name": None, "len": length, "kids": kids}


def gen_unrooted(rng, n, shape, lens):
    """tree with a trifurcating root (n>=3) as nested dicts; positive dyadic lengths"""

    def tl():
        if lens == "equal":
            return 1.0
        if lens == "long-tips":
            return rng.choice([2.0, 3.0, 4.0])
        return rng.choice(DYADIC)

    def il():
        if lens == "equal":
            return 1.0
        if lens in ("tiny-internal", "long-tips"):
            return rng.choice([1 / 64, 1 / 32])
        return rng.choice(DYADIC)

    names = [f"t{i}" for i in range(n)]
    rng.shuffle(names)
    items = [tip(x, tl()) for x in names]
    if shape == "caterpillar":
        while len(items) > 3:
            a = items.pop(0)
            b = items.pop(0)
            items.insert(0, node([a, b], il()))
    elif shape == "balanced":
        while len(items) > 3:
            a = items.pop(0)
            b = items.pop(0)
            items.append(node([a, b], il()))
    else:
        while len(items) > 3:
            a = items.pop(rng.randrange(len(items)))
            b = items.pop(rng.randrange(len(items)))
            items.append(node([a, b], il()))
    return {"name": None, "len": None, "kids": items}


def gen_ultrametric(rng, n, shape, lens):
    """rooted binary ultrametric tree (coalescent heights, strictly increasing along every lineage)"""
    names = [f"t{i}" for i in range(n)]
    rng.shuffle(names)
    nodes = [(tip(x, None), 0.0) for x in names]
    h = 0.0
    while len(nodes) > 1:
        if lens == "equal":
            step = 1.0
        elif lens == "tiny-internal":
            step = rng.choice([1 / 64, 1 / 32]) if h > 0 else 2.0
        else:
            step = rng.choice(DYADIC)
        if shape == "caterpillar":
            a = nodes.pop(0)
            b = nodes.pop(0)
        elif shape == "balanced":
            a = nodes.pop(0)
            b = nodes.pop(0)
        else:
            a = nodes.pop(rng.randrange(len(nodes)))
            b = nodes.pop(rng.randrange(len(nodes)))
        # tied joins: two disjoint pairs may coalesce at the same height as long as every branch stays positive
        tied = h > 0 and a[1] < h and b[1] < h and rng.random() < 0.3
        if not tied:
            h += step
        a[0]["len"] = h - a[1]
        b[0]["len"] = h - b[1]
        new = (node([a[0], b[0]], None), h)
        if shape == "caterpillar":
            nodes.insert(0, new)
        else:
            nodes.append(new)
    return nodes[0][0]


def tips_of(t):
    if not t["kids"]:
        return [t["name"]]
    out = []
    for k in t["kids"]:
        out += tips_of(k)
    return out


def path_matrix(t):
    """exact tip-to-tip path lengths {(a,b): d} for a != b"""
    D = {}

    def rec(nd):
        if not nd["kids"]:
            return {nd["name"]: 0.0}
        below = []
        for k in nd["kids"]:
            d = rec(k)
            below.append({x: v + k["len"] for x, v in d.items()})
        for d1, d2 in itertools.combinations(below, 2):
            for x, vx in d1.items():
                for y, vy in d2.items():
                    D[(x, y)] = D[(y, x)] = vx + vy
        out = {}
        for d in below:
            out.update(d)
        return out

    rec(t)
    return D


def model_splits(t, ref, all_tips):
    """unrooted: {side-without-ref: length}; edges inducing the same split are summed"""
    out = {}

    def rec(nd):
        if not nd["kids"]:
            below = frozenset([nd["name"]])
        else:
            below = frozenset()
            for k in nd["kids"]:
                below |= rec(k)
        if nd["len"] is not None:
            side = all_tips - below if ref in below else below
            if side and side != all_tips:
                out[side] = out.get(side, 0.0) + nd["len"]
        return below

    rec(t)
    return out


def model_clades(t):
    out = {}

    def rec(nd):
        if not nd["kids"]:
            below = frozenset([nd["name"]])
        else:
            below = frozenset()
            for k in nd["kids"]:
                below |= rec(k)
        out[below] = nd["len"]
        return below

    rec(t)
    return out


def read_tree(t):
    """a cogent3 tree -> the same nested-dict form (only .children/.name/.length are read)"""
    kids = [read_tree(c) for c in t.children]
    ln = t.length
    return {"name": str(t.name) if not kids else None, "len": None if ln is None else float(ln), "kids": kids}


def newick(t):
    def rec(nd):
        s = "(" + ",".join(rec(k) for k in nd["kids"]) + ")" if nd["kids"] else nd["name"]
        return s if nd["len"] is None else f"{s}:{nd['len']!r}"

    return rec(t) + ";"


def shape_of(n, shape, lens):
    nb = "3" if n == 3 else "4" if n == 4 else "5-8" if n <= 8 else "9-14" if n <= 14 else "15+"
    return nb, shape, lens


def build_input(form, D, order):
    """the distance matrix in the requested input form, tips in `order`"""
    if form == "dict-full":
        return {(a, b): D[(a, b)] for a in order for b in order if a != b}
    if form == "dict-upper":
        return {(a, b): D[(a, b)] for i, a in enumerate(order) for b in order[i + 1 :]}
    from cogent3.evolve.fast_distance import DistanceMatrix

    return DistanceMatrix({(a, b): D[(a, b)] for a in order for b in order if a != b})


def _snapshot(inp):
    if isinstance(inp, dict):
        return ("dict", dict(inp))
    import numpy

    return ("dm", tuple(inp.names), numpy.array(inp.array, dtype=float).copy())


def input_unchanged(res, algo, inp, before, detail):
    """the caller's distance matrix must still hold the same distances after a tree was built from it (so it can
    be given to another estimator)"""
    import numpy

    res.evals += 1
    res.count("input-unchanged-checked")
    after = _snapshot(inp)
    same = after[0] == before[0] and (after[1] == before[1]) and (after[0] == "dict" or (after[2].shape == before[2].shape and numpy.array_equal(after[2], before[2])))
    if not same:
        res.witness(f"C15/{algo}/input-distances-modified", **detail)
    return same


def compare_unrooted(res, algo, got_tree, model, detail):
    """split set and branch lengths of an unrooted result against the generating tree"""
    all_tips = frozenset(tips_of(model))
    ref = min(all_tips)
    try:
        got = read_tree(got_tree)
        gt = tips_of(got)
    except Exception as e:  # noqa: BLE001
        res.witness(exc_mechanism(f"C15/{algo}/result-not-a-tree", e), **detail)
        return False
    if sorted(gt) != sorted(all_tips):
        res.witness(f"C15/{algo}/tip-set", got_tips=sorted(gt), **detail)
        return False
    if any(nd_len is None for nd_len in _nonroot_lengths(got)):
        res.witness(f"C15/{algo}/missing-branch-length", got=newick(got), **detail)
        return False
    gs = model_splits(got, ref, all_tips)
    ms = model_splits(model, ref, all_tips)
    # edges of length ~0 in the result that induce no model split are still a wrong topology: positive lengths only
    if set(gs) != set(ms):
        res.witness(f"C15/{algo}/topology", got=newick(got), extra=[sorted(x) for x in set(gs) - set(ms)][:3], missing=[sorted(x) for x in set(ms) - set(gs)][:3], **detail)
        return False
    tol = TREE_RTOL * max(path_matrix(model).values())
    for s, l in ms.items():
        if abs(gs[s] - l) > tol:
            res.witness(f"C15/{algo}/branch-length", got=newick(got), split=sorted(s), got_len=gs[s], exp_len=l, tolerance=tol, **detail)
            return False
    return True


def _nonroot_lengths(t):
    out = []

    def rec(nd, root):
        if not root:
            out.append(nd["len"])
        for k in nd["kids"]:
            rec(k, False)

    rec(t, True)
    return out


def compare_rooted(res, algo, got_tree, model, detail):
    try:
        got = read_tree(got_tree)
        gt = tips_of(got)
    except Exception as e:  # noqa: BLE001
        res.witness(exc_mechanism(f"C15/{algo}/result-not-a-tree", e), **detail)
        return False
    if sorted(gt) != sorted(tips_of(model)):
        res.witness(f"C15/{algo}/tip-set", got_tips=sorted(gt), **detail)
        return False
    gc = model_clades(got)
    mc = model_clades(model)
    if set(gc) != set(mc):
        res.witness(f"C15/{algo}/topology", got=newick(got), extra=[sorted(x) for x in set(gc) - set(mc)][:3], missing=[sorted(x) for x in set(mc) - set(gc)][:3], **detail)
        return False
    tol = TREE_RTOL * max(path_matrix(model).values())
    for c, l in mc.items():
        if l is None:
            continue
        if gc[c] is None or abs(gc[c] - l) > tol:
            res.witness(f"C15/{algo}/branch-length", got=newick(got), clade=sorted(c), got_len=gc[c], exp_len=l, tolerance=tol, **detail)
            return False
    return True


def decide_nj(res, model, order, form, algo, params=None, sigparts=None):
    """one call of a neighbour-joining entry point on the exact path-length matrix of `model`"""
    from cogent3.phylo.nj import gnj, nj

    D = path_matrix(model)
    rc = {"kind": "one-tree", "algo": algo, "tree": model, "order": order, "form": form, "params": params}
    detail = dict(generating_tree=newick(model), order=order, form=form, params=params, replay_case=rc)
    res.evals += 1
    res.count("algo:" + algo)
    res.count("form:" + form)
    try:
        inp = build_input(form, D, order)
        before = _snapshot(inp)
        if algo == "nj":
            tree = nj(inp, show_progress=False)
        elif algo == "gnj":
            coll = gnj(inp, show_progress=False, **(params or {}))
            tree = None
        elif algo == "DistanceMatrix.quick_tree":
            tree = inp.quick_tree()
        elif algo == "app.quick_tree":
            from cogent3 import get_app

            tree = get_app("quick_tree", **(params or {}))(inp)
            if type(tree).__name__ == "NotCompleted":
                res.witness(f"C15/{algo}/not-completed", message=str(tree)[:300], **detail)
                return
        else:
            raise ValueError(algo)
    except Exception as e:  # noqa: BLE001
        if exc_mechanism("", e).endswith("@harness"):
            raise
        res.witness(exc_mechanism(f"C15/{algo}", e), error=repr(e)[:300], **detail)
        return
    if not input_unchanged(res, algo, inp, before, detail):
        return
    if algo == "gnj":
        # the collection is sorted by tree length; the generating tree is the minimum-length explanation of an
        # additive matrix and is what the greedy best join leads to, so it must be the first entry
        try:
            scores = [float(s) for s, _ in coll]
            first = coll[0][1]
        except Exception as e:  # noqa: BLE001
            res.witness(exc_mechanism("C15/gnj/result-not-a-collection", e), **detail)
            return
        if scores != sorted(scores):
            res.witness("C15/gnj/collection-not-sorted", scores=scores[:10], **detail)
            return
        ok = compare_unrooted(res, algo, first, model, detail)
        if ok:
            total = sum(model_splits(model, min(tips_of(model)), frozenset(tips_of(model))).values())
            if abs(scores[0] - total) > 1e-12 * total:
                res.witness("C15/gnj/score-is-not-tree-length", got=scores[0], exp=total, **detail)
        res.count("gnj-trees-returned", len(scores))
    else:
        ok = compare_unrooted(res, algo, tree, model, detail)
    if ok and sigparts and len(order) >= 5:
        res.sig(algo, form, *sigparts)


def decide_upgma(res, model, order, form, sigparts=None):
    from cogent3.cluster.UPGMA import upgma

    D = path_matrix(model)
    rc = {"kind": "one-tree", "algo": "upgma", "tree": model, "order": order, "form": form, "params": None}
    detail = dict(generating_tree=newick(model), order=order, form=form, replay_case=rc)
    res.evals += 1
    res.count("algo:upgma")
    res.count("form:" + form)
    try:
        inp = build_input(form, D, order)
        before = _snapshot(inp)
        tree = upgma(inp)
    except Exception as e:  # noqa: BLE001
        if exc_mechanism("", e).endswith("@harness"):
            raise
        res.witness(exc_mechanism("C15/upgma", e), error=repr(e)[:300], **detail)
        return
    if not input_unchanged(res, "upgma", inp, before, detail):
        return
    ok = compare_rooted(res, "upgma", tree, model, detail)
    if ok and sigparts and len(order) >= 5:
        res.sig("upgma", form, *sigparts)


# deep ladders for UPGMA -------------------------------------------------------------------------------------------
# One lineage absorbs every join: tip k (k >= 1) joins the growing cluster at height h[k], h strictly increasing
# integers (x an exact unit). d(t_i, t_j) = 2 * h[max(i, j)]. The oracle is this description itself: tip k hangs on a
# branch of length h[k] (tip 0: h[1]), sits n - k edges (tip 0: n - 1) below the root, and every tip is h[n-1] from the root.
# Nothing recursive, so 1000+ tips are fine.


def ladder_heights(rng, n, unit):
    h = [0.0]
    cur = 0
    for _ in range(1, n):
        cur += rng.choice([1, 1, 1, 2, 3])
        h.append(cur * unit)
    return h


def ladder_order(rng, n, order):
    idx = list(range(n))
    if order == "growing-cluster-last":
        idx.reverse()
    elif order == "shuffled":
        rng.shuffle(idx)
    return idx


def decide_ladder(res, n, heights, idx, route, replay_case):
    """UPGMA on a ladder with tips in matrix order `idx`; route = upgma-dict | upgma-DistanceMatrix |
    UPGMA_cluster(BIG_NUM) | UPGMA_cluster(9999999999)"""
    import numpy

    names = [f"t{k}" for k in idx]
    algo = "upgma" if route.startswith("upgma") else "UPGMA_cluster"
    detail = dict(tips=n, heights=heights if n <= 130 else heights[:20] + ["..."], matrix_order=idx if n <= 130 else idx[:20] + ["..."], route=route, replay_case=replay_case)
    res.evals += 1
    res.count("ladder:" + route)
    hi = numpy.array([heights[k] for k in idx])
    mat = 2.0 * numpy.maximum.outer(hi, hi)
    mat[numpy.arange(n) == numpy.arange(n)[:, None]] = 0.0
    mat[[idx.index(0)], [idx.index(1)]] = mat[[idx.index(1)], [idx.index(0)]] = 2.0 * heights[1]
    try:
        if route == "upgma-dict":
            from cogent3.cluster.UPGMA import upgma

            tree = upgma({(names[i], names[j]): float(mat[i, j]) for i in range(n) for j in range(n) if i != j})
        elif route == "upgma-DistanceMatrix":
            from cogent3.cluster.UPGMA import upgma
            from cogent3.evolve.fast_distance import DistanceMatrix

            tree = upgma(DistanceMatrix.from_array_names(mat.copy(), names))
        else:
            from cogent3.cluster.UPGMA import BIG_NUM, UPGMA_cluster
            from cogent3.core.tree import PhyloNode

            large = BIG_NUM if "BIG_NUM" in route else 9999999999
            m = mat.copy()
            m[numpy.arange(n), numpy.arange(n)] = large  # documented: the caller puts large_number on the diagonal
            tree = UPGMA_cluster(m, [PhyloNode(name=x) for x in names], large)
    except Exception as e:  # noqa: BLE001
        if exc_mechanism("", e).endswith("@harness"):
            raise
        res.witness(exc_mechanism(f"C15/{algo}/ladder", e), error=repr(e)[:300], **detail)
        return
    if not hasattr(tree, "children"):
        res.witness(f"C15/{algo}/ladder/returned-no-tree", got=repr(tree)[:100], **detail)
        return
    # read the result without recursion: tips, their branch length, depth and distance from the root
    try:
        got = {}
        stack = [(tree, 0, 0.0)]
        while stack:
            nd, depth, dist = stack.pop()
            kids = list(nd.children)
            if not kids:
                got[str(nd.name)] = (None if nd.length is None else float(nd.length), depth, dist)
            for k in kids:
                stack.append((k, depth + 1, dist + (float(k.length) if k.length is not None else float("nan"))))
    except Exception as e:  # noqa: BLE001
        res.witness(exc_mechanism(f"C15/{algo}/ladder/result-not-a-tree", e), **detail)
        return
    exp_names = {f"t{k}" for k in range(n)}
    if set(got) != exp_names or len(got) != n:
        res.witness(f"C15/{algo}/ladder/tip-set", got_tips=len(got), missing=sorted(exp_names - set(got))[:10], **detail)
        return
    top = heights[n - 1]
    tol = TREE_RTOL * 2 * top
    for k in range(n):
        ln, depth, dist = got[f"t{k}"]
        e_len = heights[max(k, 1)]
        e_depth = n - max(k, 1)
        if depth != e_depth:
            res.witness(f"C15/{algo}/ladder/topology", tip=f"t{k}", got_depth=depth, exp_depth=e_depth, **detail)
            return
        if ln is None or abs(ln - e_len) > tol:
            res.witness(f"C15/{algo}/ladder/branch-length", tip=f"t{k}", got_len=ln, exp_len=e_len, **detail)
            return
        if not abs(dist - top) <= tol:
            res.witness(f"C15/{algo}/ladder/root-to-tip", tip=f"t{k}", got=dist, exp=top, **detail)
            return
    res.sig(algo, "ladder", route, "35-60" if n <= 60 else "61-120" if n <= 120 else "1000+", replay_case["order"], unit_name(replay_case["unit"]))


def run_ladders(res, case):
    rng = random.Random(case["seed"])
    for i in range(case["n"]):
        n = case.get("tips") or rng.randint(35, 120)
        unit = rng.choice([1, 1, 1, 0.5, 2.0**-20])
        order = ["growing-cluster-first", "growing-cluster-last", "shuffled"][(case["first"] + i) % 3]
        heights = ladder_heights(rng, n, unit)
        idx = ladder_order(rng, n, order)
        routes = case.get("routes") or ["upgma-dict", "upgma-DistanceMatrix", "UPGMA_cluster(BIG_NUM)", "UPGMA_cluster(9999999999)"]
        for route in routes:
            rc = {"kind": "one-ladder", "tips": n, "heights": heights, "idx": idx, "route": route, "order": order, "unit": unit}
            decide_ladder(res, n, heights, idx, route, rc)
        if i == 0:
            res.sample({"algorithm": "upgma", "ladder_tips": n, "matrix_order": order, "heights": heights[:8] + ["..."]})


SHAPES = ["random", "random", "caterpillar", "balanced"]
LENS = ["mixed", "mixed", "equal", "tiny-internal", "long-tips", "short-edge"]


def scaled(t, c):
    """the same tree in another unit; c is a power of two, so every length and every path sum stays exact"""
    return {"name": t["name"], "len": None if t["len"] is None else t["len"] * c, "kids": [scaled(k, c) for k in t["kids"]]}


def nonroot_nodes(t, root=True):
    out = [] if root else [t]
    for k in t["kids"]:
        out += nonroot_nodes(k, False)
    return out


def unit_name(c):
    return "1" if c == 1 else f"2^{round(math.log2(c))}"


def pick_unit(rng):
    return 1 if rng.random() < 0.55 else rng.choice(UNITS)


def call_builder(algo, inp, params):
    """one distance-tree entry point -> the cogent3 tree it returns (gnj: the first of the collection)"""
    from cogent3.phylo.nj import gnj, nj

    if algo == "nj":
        return nj(inp, show_progress=False)
    if algo == "gnj":
        return gnj(inp, show_progress=False, **(params or {}))[0][1]
    if algo == "DistanceMatrix.quick_tree":
        return inp.quick_tree()
    if algo == "app.quick_tree":
        from cogent3 import get_app

        return get_app("quick_tree", **(params or {}))(inp)
    if algo == "upgma":
        from cogent3.cluster.UPGMA import upgma

        return upgma(inp)
    raise ValueError(algo)


def decide_scale_relation(res, model, order, form, algo, params, c):
    """builder(c * D) == c * builder(D) for c a power of two (c * D is exact): same tree, lengths c times as long.
    Decided on the two real results alone."""
    D = path_matrix(model)
    Dc = {k: v * c for k, v in D.items()}
    rc = {"kind": "one-scale", "algo": algo, "tree": model, "order": order, "form": form, "params": params, "c": c}
    detail = dict(generating_tree=newick(model), order=order, form=form, params=params, factor=unit_name(c), replay_case=rc)
    res.evals += 1
    res.count("scale-relation:" + algo)
    try:
        t1 = call_builder(algo, build_input(form, D, order), params)
        tc = call_builder(algo, build_input(form, Dc, order), params)
        if type(t1).__name__ == "NotCompleted" or type(tc).__name__ == "NotCompleted":
            res.witness(f"C15/{algo}/not-completed", message=str(tc)[:300], **detail)
            return
        g1 = read_tree(t1)
        gc = read_tree(tc)
    except Exception as e:  # noqa: BLE001
        if exc_mechanism("", e).endswith("@harness"):
            raise
        res.witness(exc_mechanism(f"C15/{algo}/scale-relation", e), error=repr(e)[:300], **detail)
        return
    if algo == "upgma":
        m1, mc = model_clades(g1), model_clades(gc)
    else:
        tips = frozenset(order)
        m1, mc = model_splits(g1, min(tips), tips), model_splits(gc, min(tips), tips)
    if set(m1) != set(mc):
        res.witness(f"C15/{algo}/scale-relation/topology", unscaled=newick(g1), scaled=newick(gc), **detail)
        return
    tol = TREE_RTOL * c * max(D.values())
    for k, l in m1.items():
        if l is None and mc[k] is None:
            continue
        if l is None or mc[k] is None or abs(mc[k] - c * l) > tol:
            res.witness(f"C15/{algo}/scale-relation/branch-length", unscaled=newick(g1), scaled=newick(gc), split=sorted(k), got_len=mc[k], exp_len=None if l is None else c * l, tolerance=tol, **detail)
            return
    if len(order) >= 5:
        res.sig(algo, form, "scale-relation", unit_name(c), shape_of(len(order), "", "")[0])


def run_case(case):
    res = Result()
    kind = case["kind"]
    if kind == "one-aln":
        run_one_aln(res, case)
        return res
    if kind == "one-tree":
        if case["algo"] == "upgma":
            decide_upgma(res, case["tree"], case["order"], case["form"])
        else:
            decide_nj(res, case["tree"], case["order"], case["form"], case["algo"], case.get("params"))
        return res
    if kind == "one-ladder":
        decide_ladder(res, case["tips"], case["heights"], case["idx"], case["route"], case)
        return res
    if kind == "ladder":
        run_ladders(res, case)
        return res
    if kind == "one-scale":
        decide_scale_relation(res, case["tree"], case["order"], case["form"], case["algo"], case.get("params"), case["c"])
        return res
    rng = random.Random(case["seed"])
    if kind == "edge":
        for i in range(case["n"]):
            edge = EDGES[(case["first"] + i) % len(EDGES)]
            rows = decide_edge_alignment(res, rng, case["moltype"], edge)
            if i == 0:
                res.sample({"moltype": case["moltype"], "pattern": "edge:" + edge, "rows": rows})
    elif kind == "est":
        for i in range(case["n"]):
            rows, pattern = gen_alignment(rng, case["moltype"])
            decide_alignment(res, rng, rows, case["moltype"], pattern)
            if i == 0:
                res.sample({"moltype": case["moltype"], "pattern": pattern, "rows": rows})
    elif kind == "nj":
        for i in range(case["n"]):
            n = rng.choice([3, 4, 5, 6, 7, 8, 9, 10, 12, case["maxtips"]])
            shape = rng.choice(SHAPES)
            lens = rng.choice(LENS)
            model = gen_unrooted(rng, n, shape, "mixed" if lens == "short-edge" else lens)
            if lens == "short-edge":
                # one very short edge, internal or terminal, among ordinary ones (not a power of two: the path sums
                # are then exact only to the last place, which is all the data can be)
                rng.choice(nonroot_nodes(model))["len"] = rng.choice([3e-11, 1e-12])
                res.count("trees-with-one-very-short-edge")
            unit = pick_unit(rng)
            if unit != 1:
                model = scaled(model, unit)
                res.count("trees-in-small-units")
            order = tips_of(model)
            rng.shuffle(order)
            sp = shape_of(n, shape, lens) + ("unit:" + unit_name(unit),)
            if lens == "equal" and n >= 5:
                res.count("trees-with-tied-joins")
            res.count("shape:" + shape)
            form = rng.choice(["dict-full", "dict-upper", "DistanceMatrix"])
            decide_nj(res, model, order, form, "nj", sigparts=sp)
            order2 = list(order)
            rng.shuffle(order2)
            decide_nj(res, model, order2, rng.choice(["dict-full", "DistanceMatrix"]), "gnj", params={}, sigparts=sp)
            if n <= 10:
                decide_nj(res, model, order2, "dict-full", "gnj", params={"keep": rng.choice([2, 3, 5]), "dkeep": rng.choice([0, 2])}, sigparts=sp + ("keep",))
            decide_nj(res, model, order2, "DistanceMatrix", "DistanceMatrix.quick_tree", sigparts=sp)
            decide_nj(res, model, order, "DistanceMatrix", "app.quick_tree", params={"drop_invalid": rng.random() < 0.5}, sigparts=sp)
            ralgo, rform, rparams = rng.choice(
                [("nj", "dict-full", None), ("nj", "dict-upper", None), ("gnj", "dict-full", {}), ("gnj", "DistanceMatrix", {"keep": 3, "dkeep": 1}), ("DistanceMatrix.quick_tree", "DistanceMatrix", None), ("app.quick_tree", "DistanceMatrix", {})]
            )
            decide_scale_relation(res, model, order, rform, ralgo, rparams, rng.choice([2.0**-34, 2.0**-40, 2.0**-20, 2.0**10] if unit == 1 else [2.0**-8, 2.0**20, 2.0**34]))
            if i == 0:
                res.sample({"algorithm": "nj", "generating_tree": newick(model), "order": order})
    elif kind == "upgma":
        for i in range(case["n"]):
            n = rng.choice([2, 3, 4, 5, 6, 7, 8, 9, 10, 12, case["maxtips"]])
            shape = rng.choice(SHAPES)
            lens = rng.choice(["mixed", "mixed", "equal", "tiny-internal"])
            model = gen_ultrametric(rng, n, shape, lens)
            unit = pick_unit(rng)
            if unit != 1:
                model = scaled(model, unit)
                res.count("trees-in-small-units")
            order = tips_of(model)
            rng.shuffle(order)
            sp = shape_of(n, shape, lens) + ("unit:" + unit_name(unit),)
            res.count("shape:" + shape)
            decide_upgma(res, model, order, rng.choice(["dict-full", "DistanceMatrix"]), sigparts=sp)
            if n >= 3:
                decide_scale_relation(res, model, order, rng.choice(["dict-full", "DistanceMatrix"]), "upgma", None, rng.choice([2.0**-34, 2.0**-40, 2.0**10] if unit == 1 else [2.0**-8, 2.0**20, 2.0**34]))
            if i == 0:
                res.sample({"algorithm": "upgma", "generating_tree": newick(model), "order": order})
    return res


def required(counters, tier):
    need = [
        "alignments-with-duplicate-up-to-missing-data",
        "alignments-with-identical-rows",
        "pair-without-shared-column",
        "expected-invalid:saturated",
        "expected-invalid:log-of-non-positive",
        "expected-invalid:log-of-exact-zero",
        "expected-invalid:exactly-singular",
        "refusal:ArithmeticError",
        "moltype:dna",
        "moltype:rna",
        "entry:distance_matrix",
        "entry:calculator",
        "entry:app",
        "app-route:aln=rna,app=unset",
        "app-route:aln=rna,app=dna",
        "app-route:aln=dna,app=rna",
        "app-route:aln=dna,app=unset",
        "refusal:app-needs-moltype",
        "entry:lengths",
        "entry:include_duplicates=False",
        "algo:nj",
        "algo:gnj",
        "algo:upgma",
        "algo:app.quick_tree",
        "algo:DistanceMatrix.quick_tree",
        "trees-with-tied-joins",
        "trees-in-small-units",
        "trees-with-one-very-short-edge",
        "scale-relation:nj",
        "scale-relation:gnj",
        "scale-relation:app.quick_tree",
        "scale-relation:DistanceMatrix.quick_tree",
        "scale-relation:upgma",
        "ladder:upgma-dict",
        "ladder:upgma-DistanceMatrix",
        "ladder:UPGMA_cluster(BIG_NUM)",
        "ladder:UPGMA_cluster(9999999999)",
        "form:dict-upper",
        "form:DistanceMatrix",
    ] + ["calc:" + c for c in CALCS] + ["exact-boundary:" + e for e in EDGES]
    return [n for n in need if not counters.get(n)]
